"""Runs the measurement functions of tenpy.networks.mps of the tree under test on the cases of harness/c08.py and evaluates the
dense reference <bra|O|ket> (harness/c12_oracle.py operators, harness/c08_gen.py dense windows) next to each returned number.
Fresh interpreter, JSON in/out.  Every record is {'what': ..., 'got': [...], 'want': [...]} (complex numbers as [re, im])."""
import json
import os
import sys
import traceback
import warnings

import numpy as np

warnings.simplefilter('ignore')
sys.path.insert(0, os.path.join(os.environ.get('VERIF_DIR', '/verif'), 'harness'))
import c12_oracle as orc  # noqa: E402
import c08_gen as gen  # noqa: E402


def cl(x):
    x = np.asarray(x, dtype=complex).reshape(-1)
    return [[float(z.real), float(z.imag)] for z in x]


# ---------------------------------------------------------------------- log of the calls of measurement methods
CALL_LOG = []


def summ(v):
    """short class of an argument value (for the coverage table method x option -> values reached)"""
    if v is None:
        return 'None'
    if isinstance(v, (bool, np.bool_)):
        return str(bool(v))
    if isinstance(v, (int, np.integer)):
        return str(int(v))
    if isinstance(v, (float, np.floating)):
        return 'inf' if np.isinf(v) else repr(float(v))
    if isinstance(v, str):
        return repr(v)
    if isinstance(v, (list, tuple, range, np.ndarray)):
        v = list(v)
        k = 'len%d' % len(v) if len(v) < 4 else 'len4+'
        if v and all(isinstance(x, (int, np.integer)) and not isinstance(x, (bool, np.bool_)) for x in v):
            d = [int(b) - int(a) for a, b in zip(v[:-1], v[1:])]
            kind = 'single' if len(v) == 1 else 'unsorted' if any(x <= 0 for x in d) else 'consec' if all(x == 1 for x in d) else 'gaps'
            return 'ints:%s:%s' % (kind, k)
        if v and all(isinstance(x, str) for x in v):
            return 'strs:' + k
        if v and all(isinstance(x, (list, tuple)) and len(x) == 2 and isinstance(x[0], str) and isinstance(x[1], (int, np.integer)) for x in v):
            return 'term:' + k
        return 'seq:' + k
    return type(v).__name__


def call(obj, name, *args, **kw):
    """obj.name(*args, **kw); a call that returns is logged as (class, method, {parameter: class of the value | 'default'})"""
    import inspect
    from tenpy.networks.mps import MPSEnvironment
    f = getattr(obj, name)
    res = f(*args, **kw)
    opts = {}
    try:
        sig = inspect.signature(f)
        given = sig.bind(*args, **kw).arguments
        for pn, par in sig.parameters.items():
            if par.kind == par.VAR_KEYWORD:
                for k_, v_ in given.get(pn, {}).items():
                    opts[k_] = summ(v_)
                opts.setdefault(pn, 'default' if not given.get(pn) else 'given')
            else:
                opts[pn] = summ(given[pn]) if pn in given else 'default'
    except (TypeError, ValueError):
        opts = {k_: summ(v_) for k_, v_ in kw.items()}
    CALL_LOG.append(['MPSEnvironment' if isinstance(obj, MPSEnvironment) else 'MPS', name, opts])
    return res


def nval(x):
    """Renyi index from JSON ('inf' -> numpy.inf)"""
    return np.inf if x == 'inf' else x


def entropy_dense(p, n):
    """documentation of tenpy.tools.math.entropy: Shannon entropy (n=1), -log(max p) (n=inf), log(sum p^n)/(1-n) otherwise"""
    p = np.asarray(p, dtype=float)
    p = p[p > 1e-16]
    if n == 1:
        return float(-np.sum(p * np.log(p)))
    if n == np.inf:
        return float(-np.log(np.max(p)))
    return float(np.log(np.sum(p ** n)) / (1. - n))


def ent_tol(n):
    # eigenvalues of the order of the rounding errors (1e-17) of rank-deficient density matrices contribute 1e-17^n
    return 1e-6 if n < 1 else 1e-8


def rho_eigs(rho):
    return np.linalg.eigvalsh((rho + rho.conj().T) / 2).clip(0, None)


def schmidt_probs(ref, psi, b):
    """squared Schmidt values of the cut left of site b (0 <= b <= L), from the dense window tensor"""
    L = ref.L
    lo, n = (-1, L + 2) if psi.bc == 'infinite' else (0, L)
    key = ('dense_window', lo, n)
    if key not in ref.cache:
        ref.cache[key] = gen.dense_window(psi, lo, n)
    th = ref.cache[key]
    k = b - lo
    rows = int(np.prod(th.shape[:1 + k]))
    return np.linalg.svd(th.reshape(rows, -1), compute_uv=False) ** 2


def kw_of(m):
    kw = dict(m.get('kw', {}))
    if 'n' in kw:
        kw['n'] = nval(kw['n'])
    return kw


class Ref:
    """dense reference of a (bra, ket) pair on a chain"""

    def __init__(self, chain, bra, ket):
        self.chain, self.bra, self.ket = chain, bra, ket
        self.L = len(chain.sites)
        self.finite = ket.finite
        self.cache = {}
        self.scale = 1.0      # MPSEnvironment: documented to take bra.norm and ket.norm into account

    def window(self, lo, hi):
        if self.ket.bc == 'finite' or self.ket.bc == 'segment':
            lo, hi = 0, self.L - 1
        key = (lo, hi)
        if key not in self.cache:
            n = hi - lo + 1
            tk = gen.window_to_doc(self.chain, gen.dense_window(self.ket, lo, n), lo)
            tb = tk if self.bra is self.ket else gen.window_to_doc(self.chain, gen.dense_window(self.bra, lo, n), lo)
            self.cache[key] = (lo, gen.window_docs(self.chain, lo, n), tb, tk)
        return self.cache[key]

    def term(self, term):
        sites = [i for _, i in term]
        lo, docs, tb, tk = self.window(min(sites), max(sites))
        O = orc.term_op(docs, [(op, i - lo) for op, i in term])
        return gen.expect_window(tb, O, tk) * self.scale

    def words(self, lo, words):
        """words: list (one per site lo, lo+1, ...) of lists of operator names multiplied left to right"""
        lo0, docs, tb, tk = self.window(lo, lo + len(words) - 1)
        full = [[] for _ in docs]
        for k, w in enumerate(words):
            full[lo + k - lo0] = list(w)
        return gen.expect_window(tb, orc.product_op(docs, full), tk) * self.scale

    def matrix(self, lo, n, M):
        """operator given as a dense matrix in the doc bases acting on sites lo..lo+n-1"""
        lo0, docs, tb, tk = self.window(lo, lo + n - 1)
        mats = [d.ops['Id'] for d in docs]
        left = orc.kron_all(mats[:lo - lo0])
        right = orc.kron_all(mats[lo - lo0 + n:])
        return gen.expect_window(tb, np.kron(np.kron(left, M), right), tk) * self.scale

    def rho(self, segment):
        lo0, docs, tb, tk = self.window(min(segment), max(segment))
        n = tk.ndim - 2
        seg = [s - lo0 for s in segment]
        rest = [k for k in range(n) if k not in seg]
        t = np.transpose(tk, [0, n + 1] + [1 + k for k in rest] + [1 + k for k in seg])
        dseg = int(np.prod([docs[k].dim for k in seg]))
        t = t.reshape(-1, dseg)
        return t.T @ t.conj()        # rho[s, s'] = sum_rest psi[rest, s] conj(psi[rest, s'])


def build_state(rng, st):
    ch = gen.Chain(st['sites'])
    kind = st['kind']
    if kind == 'finite':
        psi, q = gen.random_finite_mps(rng, ch, cplx=st.get('cplx', True), chi_max=st.get('chi_max'))
        return ch, psi
    if kind == 'segment':
        big = gen.Chain(st['big_sites'])
        psi0, q = gen.random_finite_mps(rng, big, cplx=True, chi_max=st.get('chi_max'))
        first = st['first']
        seg = psi0.extract_segment(first, first + len(st['sites']) - 1)
        return ch, seg
    if kind == 'infinite' and st.get('charged'):
        return ch, gen.random_charged_infinite_mps(rng, ch, chi=st.get('chi', 4), steps=st.get('steps', 4))
    if kind == 'infinite':
        return ch, gen.random_infinite_mps(rng, ch, chi=st.get('chi', 3), cplx=st.get('cplx', True))
    raise ValueError(kind)


def npc_product_op(chain, i0, names, labels=None):
    import tenpy.linalg.np_conserved as npc
    L = len(chain.sites)
    op = None
    for k, nm in enumerate(names):
        o = chain.sites[(i0 + k) % L].get_op(nm)
        a, b = (labels[0][k], labels[1][k]) if labels else ('p%d' % k, 'p%d*' % k)
        o = o.replace_labels(['p', 'p*'], [a, b])
        op = o if op is None else npc.outer(op, o)
    return op


def measure(ref, psi_or_env, m, rng):
    """one measurement -> record(s)"""
    chain = ref.chain
    L = ref.L
    k = m['f']
    obj = psi_or_env
    if k == 'ev':
        ops, sites = m['ops'], m.get('sites')
        got = call(obj, 'expectation_value', ops if len(ops) > 1 else ops[0], sites) if sites is not None else call(obj, 'expectation_value', ops if len(ops) > 1 else ops[0])
        ss = sites if sites is not None else list(range(L))
        want = [ref.words(i, [[ops[(i % L) % len(ops)]]]) for i in ss]
        return {'got': cl(got), 'want': cl(want)}
    if k == 'ev_multi':       # n-site npc operator, optional custom axes
        names, i_list = m['names'], m['sites']
        n = len(names[0])
        got, want = [], []
        for i in i_list:
            nm = names[i % len(names)]
            if m.get('axes'):
                labels = (['x%d' % t for t in range(n)], ['y%d' % t for t in range(n)])
                op = npc_product_op(chain, i, nm, labels)
                got.append(call(obj, 'expectation_value', op, [i], axes=labels)[0])
            else:
                op = npc_product_op(chain, i, nm)
                got.append(call(obj, 'expectation_value', op, [i])[0])
            want.append(ref.words(i, [[x] for x in nm]))
        return {'got': cl(got), 'want': cl(want)}
    if k == 'ev_multi_sites':
        got = call(obj, 'expectation_value_multi_sites', m['ops'], m['i0'])
        return {'got': cl([got]), 'want': cl([ref.words(m['i0'], [[x] for x in m['ops']])])}
    if k == 'ev_term':
        term = [(a, int(b)) for a, b in m['term']]
        got = call(obj, 'expectation_value_term', term, **({'autoJW': m['autoJW']} if 'autoJW' in m else {}))
        if m.get('autoJW', True):
            want = ref.term(term)
        else:       # no Jordan-Wigner strings: the plain product of the operators (per site in the order of the term)
            lo = min(i for _, i in term)
            words = [[] for _ in range(max(i for _, i in term) - lo + 1)]
            for a, i in term:
                words[i - lo].append(a)
            want = ref.words(lo, words)
        return {'got': cl([got]), 'want': cl([want])}
    if k == 'terms_sum':
        from tenpy.networks.terms import TermList
        terms = [[(a, int(b)) for a, b in t] for t in m['terms']]
        tl = TermList(terms, m['strength'])
        got, _ = call(obj, 'expectation_value_terms_sum', tl)
        want = sum(s * ref.term(t) for t, s in zip(terms, m['strength']))
        rec = {}
        doc = ' '.join((getattr(type(obj), 'expectation_value_terms_sum').__doc__ or '').split())
        if type(obj).__name__ == 'MPSEnvironment' and 'does not include normalization factors' in doc:
            # the docstring of the environment variant carries the warning that the result does NOT include bra.norm and ket.norm
            # (all other measurements of MPSEnvironment do): compared with <bra|O|ket> of the tensors alone as long as it says so
            want = want / ref.scale
            rec['msg'] = 'documented: without bra.norm * ket.norm'
        return dict(rec, got=cl([got]), want=cl([want]))
    if k == 'corr':
        kw = dict(m.get('kwargs', {}))
        o1, o2 = m['ops1'], m['ops2']
        s1 = kw.get('sites1', list(range(L)))
        s2 = kw.get('sites2', list(range(L)))
        s1 = list(range(s1)) if isinstance(s1, int) else sorted(s1)
        s2 = list(range(s2)) if isinstance(s2, int) else sorted(s2)
        got = call(obj, 'correlation_function', o1 if len(o1) > 1 else o1[0], o2 if len(o2) > 1 else o2[0], **kw)
        opstr = kw.get('opstr')
        sof = kw.get('str_on_first', True)
        want = np.empty((len(s1), len(s2)), dtype=complex)
        for x, i in enumerate(s1):
            for y, j in enumerate(s2):
                a = o1[(i % L) % len(o1)]
                b = o2[(j % L) % len(o2)]
                if opstr is None:
                    want[x, y] = ref.term([(a, i), (b, j)]) if kw.get('autoJW', True) else ref.words(min(i, j), _plain(a, b, i, j))
                else:
                    ol = opstr if isinstance(opstr, list) else [opstr]
                    lo, hi = min(i, j), max(i, j)
                    words = [[] for _ in range(hi - lo + 1)]
                    # documented: i<j: ops1[i] prod_{i<=r<j} opstr[r] ops2[j] ; i>j: prod_{j<=r<i} opstr[r] ops1[i] ops2[j]
                    if i < j:
                        words[0].append(a)
                        for r in range(i if sof else i + 1, j):
                            words[r - lo].append(ol[(r % L) % len(ol)])
                        words[j - lo].append(b)
                    elif i > j:
                        for r in range(j if sof else j + 1, i):
                            words[r - lo].append(ol[(r % L) % len(ol)])
                        words[i - lo].append(a)
                        words[0].append(b)
                    else:
                        words[0] = [a, b]
                    want[x, y] = ref.words(lo, words)
        return {'got': cl(got), 'want': cl(want), 'shape': list(np.shape(got))}
    if k == 'corr_words':     # bridge to the Coq model: per-site words computed by Model/Corr.v
        kw = dict(m.get('kwargs', {}))
        got = call(obj, 'correlation_function', m['op1'], m['op2'], sites1=[m['i']], sites2=[m['j']], **kw)
        return {'got': cl(got), 'want': cl([ref.words(m['lo'], m['words'])])}
    if k in ('tcf_right', 'tcf_left'):
        tL = [(a, int(b)) for a, b in m['term_L']]
        tR = [(a, int(b)) for a, b in m['term_R']]
        auto = m.get('autoJW', True)
        kw = {} if 'autoJW' not in m else {'autoJW': auto}
        if not auto and 'opstr' in m:
            kw['opstr'] = m['opstr']

        def value(iL, jR):
            full = [(a, i + iL) for a, i in tL] + [(a, i + jR) for a, i in tR]
            if auto:
                return ref.term(full)
            # documented for autoJW=False: no Jordan-Wigner strings; opstr on every site between the two terms
            lo, hi = min(i for _, i in full), max(i for _, i in full)
            words = [[] for _ in range(hi - lo + 1)]
            for a, i in full:
                words[i - lo].append(a)
            if m.get('opstr'):
                for r in range(max(i for _, i in tL) + iL + 1, min(i for _, i in tR) + jR):
                    words[r - lo].append(m['opstr'])
            return ref.words(lo, words)
        if k == 'tcf_right':
            jR = m.get('j_R')
            if jR is None:
                # documented default: finite: range(j0, L), term_R (here on one site) starting one site right of term_L;
                # infinite: range(L, 11*L, L)
                assert all(i == 0 for _, i in tR)
                jR = list(range(m['i_L'] + max(i for _, i in tL) + 1, L)) if obj.finite else list(range(L, 11 * L, L))
                got = call(obj, 'term_correlation_function_right', tL, tR, m['i_L'], **kw)
            else:
                got = call(obj, 'term_correlation_function_right', tL, tR, m['i_L'], jR, **kw)
            want = [value(m['i_L'], j) for j in sorted(jR)]
        else:
            iL = m.get('i_L')
            if iL is None:      # documented default (infinite): range(-L, -11*L, -L)
                iL = list(range(-L, -11 * L, -L))
                got = call(obj, 'term_correlation_function_left', tL, tR, j_R=m['j_R'], **kw)
            else:
                got = call(obj, 'term_correlation_function_left', tL, tR, iL, m['j_R'], **kw)
            want = [value(i_, m['j_R']) for i_ in sorted(iL, reverse=True)]
        return {'got': cl(got), 'want': cl(want)}
    if k == 'tlcf_right':
        # <bra| (sum_a s_a A_a)(i_L) (sum_b t_b B_b)(j) |ket> for j in sorted(j_R): the double sum of dense term values.  Documented
        # assumption of the function (autoJW): terms with an odd TOTAL number of Jordan-Wigner operators do not contribute.
        from tenpy.networks.terms import TermList
        tLs = [[(a, int(b)) for a, b in t] for t in m['terms_L']]
        tRs = [[(a, int(b)) for a, b in t] for t in m['terms_R']]
        sL = [complex(*z) for z in m['strength_L']]
        sR = [complex(*z) for z in m['strength_R']]
        auto = m.get('autoJW', True)
        kw = {} if auto else {'autoJW': False, 'opstr': m.get('opstr')}
        i_L = m['i_L']
        got = call(obj, 'term_list_correlation_function_right', TermList(tLs, sL), TermList(tRs, sR), i_L, m['j_R'], **kw)
        jR = m['j_R']
        if jR is None:       # documented default (finite): the right list starts one site right of the left list, up to the end
            max_L = max(i for t in tLs for _, i in t)
            min_R = min(i for t in tRs for _, i in t)
            max_R = max(i for t in tRs for _, i in t)
            jR = list(range(i_L + max_L + 1 - min_R, L - max(0, max_R)))

        def par(t, off):
            return sum(1 for a, i in t if chain.docs[(i + off) % L].needs_JW(a)) % 2
        want, parts = [], []
        for j in sorted(jR):
            tot, mx = 0.0, 0.0
            for ta, sa in zip(tLs, sL):
                for tb, sb in zip(tRs, sR):
                    if auto and par(ta, i_L) != par(tb, j):
                        continue
                    full = [(a, i + i_L) for a, i in ta] + [(a, i + j) for a, i in tb]
                    if auto:
                        v = ref.term(full)
                    else:     # no Jordan-Wigner strings; opstr on the sites between the terms and as filling inside the lists' windows
                        lo = min(i for _, i in full)
                        hi = max(i for _, i in full)
                        words = [[] for _ in range(hi - lo + 1)]
                        for a, i in full:
                            words[i - lo].append(a)
                        if m.get('opstr'):
                            la = max(i for _, i in ta) + i_L
                            fb = min(i for _, i in tb) + j
                            for r in range(la + 1, fb):
                                words[r - lo].append(m['opstr'])
                        v = ref.words(lo, words)
                    tot += sa * sb * v
                    mx = max(mx, abs(sa * sb * v))
            want.append(tot)
            parts.append(mx)
        return {'got': cl(got), 'want': cl(want), 'max_part': [float(x) for x in parts]}
    if k == 'ent':
        # Schmidt decomposition of the dense state at every bond (finite chain)
        n_ = nval(m.get('n', 1))
        lo0, docs, tb, tk = ref.window(0, L - 1)
        dims = [d.dim for d in docs]
        v = tk.reshape(-1)

        def ent(p):
            return entropy_dense(p, n_)
        got = list(call(obj, 'entanglement_entropy', n=n_))
        want, spec_got, spec_want = [], [], []
        spectrum = call(obj, 'entanglement_spectrum', by_charge=False)
        by_q = call(obj, 'entanglement_spectrum', by_charge=True)
        for b in range(1, L):
            sv = np.linalg.svd(v.reshape(int(np.prod(dims[:b])), -1), compute_uv=False)
            want.append(ent(sv ** 2))
            p_got = np.sort(np.exp(-np.asarray(spectrum[b - 1])))[::-1]
            p_q = np.sort(np.exp(-np.concatenate([np.asarray(x) for _, x in by_q[b - 1]])))[::-1]
            p_want = np.sort(sv ** 2)[::-1]
            n_max = max(len(p_got), len(p_want), len(p_q))
            for arr, dest in ((p_got, spec_got), (p_q, spec_got), (p_want, spec_want), (p_want, spec_want)):
                dest.extend(list(arr[:n_max]) + [0.0] * (n_max - len(arr)))
        seg = sorted(m['segment'])
        got.append(call(obj, 'entanglement_entropy_segment2', seg, n=n_))
        want.append(ent(rho_eigs(ref.rho(seg))))
        return {'got': cl(got + spec_got), 'want': cl(want + spec_want), 'tol': ent_tol(n_)}
    if k == 'ent_bonds':
        # entanglement_entropy(n, bonds, for_matrix_S): entropy of the squared Schmidt values of the dense state at the documented bonds
        kw = kw_of(m)
        n_ = kw.get('n', 1)
        got = call(obj, 'entanglement_entropy', **kw)
        bonds = kw.get('bonds')
        if bonds is None:    # documented default: the non-trivial bonds
            bonds = list(range(1, L)) if obj.bc == 'finite' else list(range(0, L)) if obj.bc == 'infinite' else list(range(0, L + 1))
        elif isinstance(bonds, int):
            bonds = [bonds]
        want = [entropy_dense(schmidt_probs(ref, obj, b), n_) for b in bonds]
        return {'got': cl(got), 'want': cl(want), 'tol': 1e-8}
    if k == 'ent_matrixS':
        # the same state with the basis of the Schmidt states left of bond b rotated by a unitary U: S[b] -> U diag(S[b]) is a
        # matrix (the B form tensors do not change); documented: ValueError by default, the entropy with for_matrix_S=True
        import tenpy.linalg.np_conserved as npc
        b, n_ = m['bond'], nval(m['n'])
        psi2 = obj.copy()
        S = np.asarray(psi2.get_SL(b))
        chi = len(S)
        Z = rng.normal(size=(chi, chi)) + 1j * rng.normal(size=(chi, chi))
        U, _ = np.linalg.qr(Z)
        leg = psi2.get_B(b, form=None).get_leg('vL')
        psi2.set_SL(b, npc.Array.from_ndarray(U @ np.diag(S), [leg, leg.conj()], labels=['vL', 'vR']))
        got = call(psi2, 'entanglement_entropy', n=n_, bonds=[b], for_matrix_S=True)
        try:
            psi2.entanglement_entropy(n=n_, bonds=[b])
            raised = 0.0
        except ValueError:
            raised = 1.0
        return {'got': cl(list(got) + [raised]), 'want': cl([entropy_dense(schmidt_probs(ref, obj, b), n_), 1.0]), 'tol': 1e-8, 'chi': chi}
    if k == 'ent_seg':
        # entanglement_entropy_segment(segment, first_site, n): entropy of the dense reduced density matrix of the sites i0 + segment
        kw = kw_of(m)
        n_ = kw.get('n', 1)
        got = call(obj, 'entanglement_entropy_segment', **kw)
        seg = sorted(kw.get('segment', [0]))
        first = kw.get('first_site')
        if first is None:   # documented default
            first = list(range(L - seg[-1])) if obj.finite else list(range(L))
        want = [entropy_dense(rho_eigs(ref.rho([i0 + j for j in seg])), n_) for i0 in first]
        return {'got': cl(got), 'want': cl(want), 'tol': ent_tol(n_)}
    if k == 'ent_seg2':
        kw = kw_of(m)
        n_ = kw.get('n', 1)
        got = call(obj, 'entanglement_entropy_segment2', **kw)
        want = entropy_dense(rho_eigs(ref.rho(sorted(kw['segment']))), n_)
        return {'got': cl([got]), 'want': cl([want]), 'tol': ent_tol(n_)}
    if k == 'spectrum':
        # entanglement_spectrum(by_charge): -log of the squared Schmidt values on the non-trivial bonds; by_charge=True (finite chains):
        # separately for every value of the total charge of the sites left of the bond
        by_charge = m.get('by_charge', False)
        res = call(obj, 'entanglement_spectrum', by_charge=by_charge) if 'by_charge' in m else call(obj, 'entanglement_spectrum')
        bonds = list(range(1, L)) if obj.bc == 'finite' else list(range(0, L)) if obj.bc == 'infinite' else list(range(0, L + 1))
        if len(res) != len(bonds):
            return {'got': cl([len(res)]), 'want': cl([len(bonds)])}
        got, want = [], []

        def put(a, b_):
            a = np.sort(np.asarray(a, dtype=float))[::-1]
            b_ = np.sort(np.asarray(b_, dtype=float))[::-1]
            a, b_ = a[a > 1e-20], b_[b_ > 1e-20]
            nmax = max(len(a), len(b_))
            got.extend(list(a) + [0.0] * (nmax - len(a)))
            want.extend(list(b_) + [0.0] * (nmax - len(b_)))
        if not by_charge:
            for b, xi in zip(bonds, res):
                xi = np.asarray(xi)
                if np.any(np.diff(xi) < 0):
                    return {'got': cl([0]), 'want': cl([1]), 'msg': 'spectrum not sorted'}
                put(np.exp(-xi), schmidt_probs(ref, obj, b))
            return {'got': cl(got), 'want': cl(want), 'tol': 1e-9}
        chinfo = chain.sites[0].leg.chinfo
        th = gen.dense_window(obj, 0, L)
        qflat = [s_.leg.to_qflat() for s_ in chain.sites]
        for b, blocks in zip(bonds, res):
            mat = th.reshape(int(np.prod(th.shape[:1 + b])), -1)
            qn = chinfo.qnumber
            qrow = np.zeros((1, qn), dtype=int)
            for s_ in range(b):
                qrow = (qrow[:, None, :] + qflat[s_][None, :, :]).reshape(qrow.shape[0] * qflat[s_].shape[0], qn)
            qrow = chinfo.make_valid(qrow) if qn else qrow
            dense = {}
            for q in set(tuple(int(x) for x in r_) for r_ in qrow):
                sel = np.all(qrow == np.array(q)[None, :], axis=1)
                pq = np.linalg.svd(mat[sel, :], compute_uv=False) ** 2
                if np.any(pq > 1e-20):
                    dense[q] = pq
            impl = {}
            for q, xi in blocks:
                q = tuple(int(x) for x in chinfo.make_valid(q))
                impl[q] = np.concatenate([impl.get(q, np.zeros(0)), np.exp(-np.asarray(xi))])
            for q in sorted(set(dense) | set(q for q, v_ in impl.items() if np.any(v_ > 1e-20))):
                put(impl.get(q, []), dense.get(q, []))
        return {'got': cl(got), 'want': cl(want), 'tol': 1e-9}
    if k == 'rho':
        seg = m['segment']
        rho = call(obj, 'get_rho_segment', seg)
        n = len(seg)
        arr = rho.itranspose(['p%d' % t for t in range(n)] + ['p%d*' % t for t in range(n)]).to_ndarray()
        # to doc bases
        for t, s in enumerate(sorted(seg)):
            inv = np.argsort(chain.maps[s % L])
            arr = np.take(np.take(arr, inv, axis=t), inv, axis=n + t)
        D = int(np.prod(arr.shape[:n]))
        return {'got': cl(arr.reshape(D, D)), 'want': cl(ref.rho(sorted(seg)))}
    if k == 'mutinf':
        # I(i:j) = S_n(i) + S_n(j) - S_n(i, j) with the SAME entropy S_n of the dense reduced density matrices for all three terms
        kw = kw_of(m)
        n_ = kw.get('n', 1)
        coords, mi = call(obj, 'mutinf_two_site', **kw)

        def S(rho):
            return entropy_dense(rho_eigs(rho), n_)
        coords = [[int(a), int(b)] for a, b in coords]
        mr = kw.get('max_range')
        if mr is not None or obj.finite:
            # documented: all pairs i < j with |i - j| <= max_range (None: L - 1), i in the unit cell / chain
            mr_ = L - 1 if mr is None else mr
            doc_coords = [[i, j] for i in range(L) for j in range(i + 1, min(L, i + mr_ + 1) if obj.finite else i + mr_ + 1)]
            if coords != doc_coords:
                return {'got': cl([len(coords)]), 'want': cl([len(doc_coords)]), 'msg': 'coords %s, documented %s' % (coords[:8], doc_coords[:8]),
                        'coords_differ': True}
        want = [S(ref.rho([i])) + S(ref.rho([j])) - S(ref.rho([i, j])) for i, j in coords]
        return {'got': cl(list(mi)), 'want': cl(want), 'coords': coords, 'tol': 3 * ent_tol(n_)}
    if k == 'prob_charge':
        b = m['bond']
        if m.get('default_bond'):       # documented default bond=0: no site left of the bond
            assert b == 0
            charges, ps = call(obj, 'probability_per_charge')
            avg = call(obj, 'average_charge')
            var = call(obj, 'charge_variance')
        else:
            charges, ps = call(obj, 'probability_per_charge', b)
            avg = call(obj, 'average_charge', b)
            var = call(obj, 'charge_variance', b)
        # dense: distribution of the total charge of the sites left of the bond (finite chain)
        lo0, docs, tb, tk = ref.window(0, L - 1)
        prob = np.abs(tk.reshape([d.dim for d in docs])) ** 2
        chinfo = chain.sites[0].leg.chinfo
        dist = {}
        for idx in np.ndindex(*prob.shape):
            if prob[idx] == 0:
                continue
            q = np.zeros(chinfo.qnumber, dtype=int)
            for s in range(b):
                site_idx = int(np.nonzero(chain.maps[s] == idx[s])[0][0])
                q = q + chain.sites[s].leg.to_qflat()[site_idx]
            q = tuple(int(x) for x in chinfo.make_valid(q))
            dist[q] = dist.get(q, 0.0) + prob[idx]
        got_d = {}
        for c, p in zip(charges, ps):
            c = tuple(int(x) for x in chinfo.make_valid(c))
            got_d[c] = got_d.get(c, 0.0) + float(p)
        keys = sorted(set(dist) | set(k_ for k_, v in got_d.items() if v > 1e-14))
        return {'got': cl([got_d.get(k_, 0.0) for k_ in keys]), 'want': cl([dist.get(k_, 0.0) for k_ in keys]), 'keys': [list(k_) for k_ in keys],
                'nonmod': bool(all(mm == 1 for mm in chinfo.mod)),
                'avg': cl(avg), 'avg_want': cl(np.sum([np.array(k_) * v for k_, v in dist.items()], axis=0) if dist else []),
                'var': cl(var),
                'var_want': cl(np.sum([np.array(k_, dtype=float) ** 2 * v for k_, v in dist.items()], axis=0)
                               - np.sum([np.array(k_) * v for k_, v in dist.items()], axis=0) ** 2 if dist else [])}
    if k == 'sample':
        r = np.random.default_rng(m['seed'])
        first, last = m.get('first', 0), m.get('last', L - 1)
        skw = {'ops': m.get('ops'), 'rng': r}
        if 'complex_amplitude' in m:
            skw['complex_amplitude'] = m['complex_amplitude']
        if 'first' in m or 'last' in m:
            sig, w = call(obj, 'sample_measurements', first, last, **skw)
        else:
            sig, w = call(obj, 'sample_measurements', **skw)
        lo0, docs, tb, tk = ref.window(first, last)
        n = tk.ndim - 2
        if m.get('ops') is None:
            # sigmas are basis indices of the sites -> doc indices
            idx = [int(chain.maps[(first + t) % L][int(s)]) for t, s in enumerate(sig)]
            sl = [slice(None)] * (n + 2)
            for t, d in enumerate(idx):
                sl[1 + (first - lo0) + t] = d
            sub = tk[tuple(sl)]
            prob = float(np.sum(np.abs(sub) ** 2))
            amp = complex(sub.reshape(-1)[0]) if sub.size == 1 else None
        else:
            # projectors on the eigenspaces of the measured eigenvalues
            mats = [d.ops['Id'] for d in docs]
            for t, s in enumerate(sig):
                d = docs[(first - lo0) + t]
                O = d.op(m['ops'][t % len(m['ops'])])
                ev, V = np.linalg.eigh(O)
                sel = np.abs(ev - s) < 1e-9
                mats[(first - lo0) + t] = V[:, sel] @ V[:, sel].conj().T
            prob = float(np.real(gen.expect_window(tk, orc.kron_all(mats), tk)))
            amp = None
        return {'sigmas': [float(s) for s in sig], 'weight': cl([w]), 'prob': prob, 'amp': cl([amp]) if amp is not None else None,
                'complex_amplitude': m.get('complex_amplitude', True), 'n_sites': last - first + 1}
    if k == 'corr_len':
        # correlation_length2 / correlation_length(target, charge_sector, return_charges) of an infinite MPS without charges:
        # xi_k = -L / log|lambda_k / lambda_0| with the eigenvalues (by magnitude) of the dense transfer matrix of one unit cell
        kw = dict(m.get('kw', {}))
        target = kw.get('target', 1)
        E = None
        for i in range(L):
            B = obj.get_B(i, form='B').itranspose(['vL', 'p', 'vR']).to_ndarray()
            T = np.einsum('apb,cpd->acbd', B.conj(), B)
            T = T.reshape(T.shape[0] * T.shape[1], -1)
            E = T if E is None else E @ T
        ev = np.sort(np.abs(np.linalg.eigvals(E)))[::-1]
        want = [-L / np.log(ev[t] / ev[0]) for t in range(1, target + 1)]
        got2 = call(obj, 'correlation_length2', **kw)
        got1 = call(obj, 'correlation_length', **kw)
        if kw.get('return_charges'):
            got2, got1 = got2[0], got1[0]
        got2, got1 = np.atleast_1d(got2), np.atleast_1d(got1)
        # documented units: horizontal lattice spacings (correlation_length2) resp. MPS sites (correlation_length)
        return {'got': cl(list(got2) + list(got1)), 'want': cl([x / obj.N_sites_per_hor_spacing for x in want] + want),
                'tol': 1e-6, 'gaps': [float(ev[t] - ev[t + 1]) for t in range(0, target + 1) if t + 1 < len(ev)]}
    if k == 'translate':
        # <psi| T^shift |phi> on a finite chain of equal sites; T moves the content of site i to site i + 1 (periodically)
        phi, _ = gen.random_finite_mps(rng, chain, cplx=True, chi_max=m.get('chi_b'), sector=_sector(chain, obj))
        got = call(obj, 'overlap_translate_finite', phi, m['shift']) if 'shift' in m else call(obj, 'overlap_translate_finite', phi)
        va = gen.dense_window(obj, 0, L).reshape([s_.dim for s_ in chain.sites])
        vb = gen.dense_window(phi, 0, L).reshape([s_.dim for s_ in chain.sites])
        sh = m.get('shift', 1)
        vb = np.transpose(vb, [(i - sh) % L for i in range(L)])      # new site i holds the old site i - shift
        return {'got': cl([got]), 'want': cl([np.vdot(va.reshape(-1), vb.reshape(-1))])}
    if k == 'full_contraction':
        got = [call(obj, 'full_contraction', i0) for i0 in m['i0']]
        lo0, docs, tb, tk = ref.window(0, L - 1)
        want = np.vdot(tb.reshape(-1), tk.reshape(-1)) * obj.bra.norm * obj.ket.norm
        return {'got': cl(got), 'want': cl([want] * len(got))}
    raise ValueError(k)


def _plain(a, b, i, j):
    lo, hi = min(i, j), max(i, j)
    words = [[] for _ in range(hi - lo + 1)]
    if i == j:
        words[0] = [a, b]
    else:
        words[i - lo].append(a)
        words[j - lo].append(b)
    return words


def run_state(case):
    rng = np.random.default_rng(case['seed'])
    ch, psi = build_state(rng, case['state'])
    obj = psi
    bra = psi
    if case.get('bra'):     # MPSEnvironment with a different bra (finite)
        from tenpy.networks.mps import MPSEnvironment
        bra, _ = gen.random_finite_mps(rng, ch, cplx=True, chi_max=case['bra'].get('chi_max'), sector=_sector(ch, psi))
        if case['bra'].get('norms'):
            bra.norm, psi.norm = [float(x) for x in case['bra']['norms']]
        obj = MPSEnvironment(bra, psi)
    ref = Ref(ch, bra, psi)
    if case.get('bra'):
        ref.scale = bra.norm * psi.norm
    out = {'chi': [int(x) for x in psi.chi], 'records': []}
    for m in case['measure']:
        del CALL_LOG[:]
        try:
            r = measure(ref, obj, m, rng)
            r['calls'] = [list(c) for c in CALL_LOG]
        except Exception as e:
            r = {'error': type(e).__name__, 'msg': str(e)[:300], 'tb': traceback.format_exc()[-500:]}
        out['records'].append(r)
    return out


def _sector(ch, psi):
    if ch.sites[0].leg.chinfo.qnumber == 0:
        return None
    return [int(x) for x in psi.get_total_charge()]


def run_overlap(case):
    rng = np.random.default_rng(case['seed'])
    ch = gen.Chain(case['sites'])
    L = len(ch.sites)
    if case['kind'] == 'finite':
        a, q = gen.random_finite_mps(rng, ch, cplx=True, chi_max=case.get('chi_a'))
        b, _ = gen.random_finite_mps(rng, ch, cplx=True, chi_max=case.get('chi_b'), sector=q if not case.get('other_sector') else None)
        a.norm = case.get('norm_a', 1.0)
        b.norm = case.get('norm_b', 1.0)
        del CALL_LOG[:]
        got = call(a, 'overlap', b)
        got2 = call(a, 'overlap', b, ignore_form=True)
        va = gen.dense_window(a, 0, L).reshape(-1)
        vb = gen.dense_window(b, 0, L).reshape(-1)
        want = np.vdot(va, vb) * a.norm * b.norm
        return {'got': cl([got, got2]), 'want': cl([want, want]), 'calls': [list(c) for c in CALL_LOG]}
    a = gen.random_infinite_mps(rng, ch, chi=case.get('chi_a', 2))
    b = gen.random_infinite_mps(rng, ch, chi=case.get('chi_b', 3)) if not case.get('same') else a
    del CALL_LOG[:]
    got = call(a, 'overlap', b, understood_infinite=True, charge_sector=case.get('charge_sector'))
    E = None
    for i in range(L):
        A = a.get_B(i, form='B').itranspose(['vL', 'p', 'vR']).to_ndarray()
        B = b.get_B(i, form='B').itranspose(['vL', 'p', 'vR']).to_ndarray()
        T = np.einsum('apb,cpd->acbd', A.conj(), B)
        T = T.reshape(T.shape[0] * T.shape[1], -1)
        E = T if E is None else E @ T
    ev = np.linalg.eigvals(E)
    want = ev[np.argmax(np.abs(ev))]
    return {'got': cl([got]), 'want': cl([want]), 'calls': [list(c) for c in CALL_LOG], 'gap': float(np.sort(np.abs(ev))[-1] - (np.sort(np.abs(ev))[-2] if len(ev) > 1 else 0))}


def run_ops_list(case):
    """_term_to_ops_list with the multiplication of operators replaced by recording the names (instance attribute on copies
    of the sites; the source is not touched)"""
    import copy
    from tenpy.networks.mps import MPS
    ch = gen.Chain(case['sites'])
    sites = [copy.copy(s) for s in ch.sites]
    for s in sites:
        s.multiply_operators = (lambda ops: list(ops))
    L = len(sites)
    psi = MPS.from_product_state(sites, [0] * L, bc=case.get('bc', 'finite'), unit_cell_width=L)
    res = []
    for t in case['terms']:
        term = [(a, int(b)) for a, b in t['term']]
        try:
            ops, imin, extra = psi._term_to_ops_list(term, t['autoJW'], t.get('i_offset', 0), t.get('jfr', False))
            res.append({'ops': [[str(x) for x in o] for o in ops], 'imin': int(imin), 'extra': bool(extra)})
        except Exception as e:
            res.append({'error': type(e).__name__ + ': ' + str(e)[:100]})
    return res


def run_window(case):
    """expectation_value(ops, sites=[s]) with n-site operators: which entry of `ops` is selected (object identity) and which
    tensors get_theta contracts (arguments of get_B, recorded through an instance attribute; the source is not touched)"""
    import warnings
    import tenpy.linalg.np_conserved as npc
    from tenpy.networks.mps import MPS
    from tenpy.networks.site import SpinHalfSite
    L, nops = case['L'], case['nops']
    site = SpinHalfSite(conserve=None)
    psi = MPS.from_product_state([site] * L, ['up', 'down'] * (L // 2) + ['up'] * (L % 2), bc=case['bc'], unit_cell_width=L)
    calls = []
    orig_get_B = psi.get_B

    def rec_get_B(i, *a, **kw):
        calls.append(int(i))
        return orig_get_B(i, *a, **kw)
    psi.get_B = rec_get_B
    picked = []
    orig_get_op = psi.get_op

    def rec_get_op(op_list, i):
        op, jw = orig_get_op(op_list, i)
        picked.append([k for k, o in enumerate(op_list) if o is op])
        return op, jw
    psi.get_op = rec_get_op
    res = []
    for s0, n in case['queries']:
        ops = []
        for _ in range(nops):
            op = site.Sz.copy() if n == 1 else site.Sz.replace_labels(['p', 'p*'], ['p0', 'p0*'])
            for k in range(1, n):
                op = npc.outer(op, site.Sz.replace_labels(['p', 'p*'], ['p%d' % k, 'p%d*' % k]))
            ops.append(op)
        del calls[:]
        del picked[:]
        try:
            with warnings.catch_warnings():
                warnings.simplefilter('error')
                val = psi.expectation_value(ops, sites=[s0])
            if len(picked) != 1 or len(picked[0]) != 1:
                res.append({'error': 'get_op called %d times / ambiguous' % len(picked)})
                continue
            # theta_ket and theta_bra: get_theta is called twice with the same arguments
            if len(calls) != 2 * n or calls[:n] != calls[n:]:
                res.append({'error': 'unexpected get_B calls %s' % calls})
                continue
            res.append({'idx': int(picked[0][0]), 'cell': int(psi._to_valid_site_index(s0, True)[1]),
                        'reads': [[int(x) for x in psi._to_valid_site_index(i, True)] for i in calls[:n]], 'val': cl(val)})
        except ValueError as e:
            res.append({'ValueError': str(e)[:100]})
    return res


def run_sample_ops(case):
    """sample_measurements(first, last, ops): which operator name is requested from which site in which order (recorded through an
    instance attribute on copies of the sites; the source is not touched)"""
    import copy
    from tenpy.networks.mps import MPS
    from tenpy.networks.site import SpinHalfSite
    L = case['L']
    rec = []
    sites = []
    for k in range(L):
        st = copy.copy(SpinHalfSite(conserve=None))
        orig = st.get_op
        st.get_op = (lambda name, _k=k, _o=orig: (rec.append([_k, str(name)]), _o(name))[1])
        sites.append(st)
    psi = MPS.from_product_state(sites, ['up', 'down'] * (L // 2) + ['up'] * (L % 2), bc=case['bc'], unit_cell_width=L)
    res = []
    for q in case['queries']:
        del rec[:]
        r = np.random.default_rng(q['seed'])
        try:
            sig, w = psi.sample_measurements(q['first'], q['last'], ops=q['ops'], rng=r, complex_amplitude=q.get('complex_amplitude', True))
            res.append({'rec': [[k, q['ops'].index(nm)] for k, nm in rec], 'n': len(sig), 'weight': cl([w])})
        except ValueError as e:
            res.append({'ValueError': str(e)[:100]})
    return res


def run_tcf_words(case):
    """term_correlation_function_right / _left (autoJW=True) on a product state with everything that receives the per-site
    operators recorded from outside (instance attributes of the MPS object; the source is not touched):
      get_site(i)        -> proxy of the site that records get_op(name) with the ABSOLUTE site index i and whose
                            multiply_operators returns the list of names (so that _term_to_ops_list returns words)
      _corr_ops_LP/_RP   -> record (words, first site) and contract 'Id' on the same sites instead
      get_B(k, ..)       -> records the sites the loop over the gap contracts
    For every entry of the result: the word contracted on every site of a window [lo, hi] (one more site on both sides)."""
    from tenpy.networks.mps import MPS
    ch = gen.Chain(case['sites'])
    L = len(ch.sites)
    psi = MPS.from_product_state(ch.sites, [0] * L, bc=case['bc'], unit_cell_width=L)
    log = []
    st = {'mute': 0}

    class SiteProxy:
        def __init__(self, site, i):
            self._site, self._i = site, int(i)

        def get_op(self, name):
            if not st['mute']:
                log.append(('op', self._i, str(name)))
            return self._site.get_op(name)

        def multiply_operators(self, ops):
            return [str(o) for o in ops]

        def __getattr__(self, a):
            return getattr(self._site, a)

    psi.get_site = lambda i: SiteProxy(psi.sites[psi._to_valid_site_index(i)], i)
    orig_get_B = psi.get_B

    def rec_get_B(i, *a, **kw):
        if not st['mute']:
            log.append(('B', int(i)))
        return orig_get_B(i, *a, **kw)
    psi.get_B = rec_get_B

    def mk(kind, orig):
        def f(operators, i0):
            log.append((kind, [list(w) for w in operators], int(i0)))
            st['mute'] += 1
            try:
                return orig(psi, ['Id'] * len(operators), i0)
            finally:
                st['mute'] -= 1
        return f
    psi._corr_ops_LP = mk('LP', MPS._corr_ops_LP)
    psi._corr_ops_RP = mk('RP', MPS._corr_ops_RP)
    res = []
    for q in case['queries']:
        del log[:]
        tL = [(a, int(b)) for a, b in q['term_L']]
        tR = [(a, int(b)) for a, b in q['term_R']]
        right = q['variant'] == 'right'
        try:
            if right:
                vals = psi.term_correlation_function_right(tL, tR, q['i_L'], q['j_R'])
            else:
                vals = psi.term_correlation_function_left(tL, tR, q['i_L'], q['j_R'])
        except ValueError as e:
            msg = str(e)
            if msg.startswith('Odd total number of operators') or msg.startswith('i_L/j_R not such that'):
                res.append({'ValueError': msg[:80]})
            else:
                res.append({'error': 'unexpected ValueError: ' + msg[:200]})
            continue
        except Exception as e:
            res.append({'error': type(e).__name__ + ': ' + str(e)[:200]})
            continue
        # assemble the observation: fixed part (first LP resp. RP call), gap sites (accumulated), moving part
        fixed, gap, entries, cur, err = None, {}, [], None, None
        for ev in log:
            if ev[0] == 'B':
                if fixed is None:
                    err = 'get_B before the fixed part was contracted'
                    break
                if cur is not None and cur[1] == 2:
                    cur = None
                if cur is None:
                    if ev[1] in gap:
                        err = 'site %d contracted twice in the gap' % ev[1]
                        break
                    gap[ev[1]] = []
                    cur = [ev[1], 1]
                elif cur[0] == ev[1]:
                    cur[1] = 2
                else:
                    err = 'unexpected get_B sequence'
                    break
            elif ev[0] == 'op':
                if cur is None or cur[0] != ev[1] or cur[1] != 1:
                    err = 'get_op(%r) on site %d outside of a gap step' % (ev[2], ev[1])
                    break
                gap[cur[0]].append(ev[2])
            else:
                kind, words, i0 = ev
                part = {i0 + t: list(w) for t, w in enumerate(words)}
                if fixed is None:
                    if kind != ('LP' if right else 'RP'):
                        err = 'first contraction is %s' % kind
                        break
                    fixed = part
                    continue
                if kind != ('RP' if right else 'LP'):
                    err = 'unexpected %s' % kind
                    break
                if cur is not None and cur[1] != 2:
                    err = 'incomplete gap step'
                    break
                cur = None
                lp, rp = (fixed, part) if right else (part, fixed)
                if set(gap) & (set(lp) | set(rp)):
                    err = 'gap site also contracted in CL / CR'
                    break
                merged = dict(rp)
                merged.update(gap)
                merged.update(lp)       # on a common site of CL and CR the stream compares the word of CL
                lo, hi = min(merged) - 1, max(merged) + 1
                if sorted(merged) != list(range(lo + 1, hi)):
                    err = 'sites %s are not contiguous' % sorted(merged)
                    break
                entries.append({'lo': lo, 'words': [merged.get(k, []) for k in range(lo, hi + 1)],
                                'overlap': bool(set(lp) & set(rp))})
        if err is None and len(entries) != len(vals):
            err = '%d contractions for %d values' % (len(entries), len(vals))
        res.append({'error': err} if err else {'entries': entries})
    return res


def run_sample_loop(case):
    """sample_measurements(ops=None) on an MPS given by exact tensors (entries unit * 2^-k): returns the tensors the loop
    starts from / attaches (get_theta(first, 1), get_B(i)), the outcome, every value npc.norm returned during the call and
    the returned weight.  npc.norm is wrapped from outside for the duration of the call; the source is not touched."""
    import tenpy.linalg.np_conserved as npc
    import tenpy.networks.mps as mps_mod
    from tenpy.networks.mps import MPS
    from tenpy.networks.site import SpinSite
    L = case['L']
    site_of = {}
    Bs = []
    for b in case['Bs']:
        arr = np.array([[[complex(x[0], x[1]) for x in row] for row in mat] for mat in b], dtype=complex)
        Bs.append(npc.Array.from_ndarray_trivial(arr, labels=['vL', 'p', 'vR'], dtype=complex))
    SVs = [np.array(s, dtype=float) for s in case['SVs']]
    sites = [site_of.setdefault(len(b[0]), SpinSite(S=(len(b[0]) - 1) / 2., conserve='None')) for b in case['Bs']]
    psi = MPS(sites, Bs, SVs, bc=case['bc'], form='B', unit_cell_width=L)

    def nest(a):
        a = a.itranspose(['vL', 'p', 'vR']).to_ndarray()
        return [[[[float(z.real), float(z.imag)] for z in row] for row in mat] for mat in a]
    got_B = [nest(psi.get_B(i).copy()) for i in range(L)]
    res = []
    for q in case['queries']:
        first, last = q['first'], q['last']
        th0 = nest(psi.get_theta(first, n=1).replace_label('p0', 'p'))
        norms = []
        orig = npc.norm
        assert mps_mod.npc is npc

        def rec_norm(a, *args, **kw):
            v = orig(a, *args, **kw)
            norms.append(float(v))
            return v
        npc.norm = rec_norm
        try:
            sig, w = psi.sample_measurements(first, last, ops=None, rng=np.random.default_rng(q['seed']),
                                             complex_amplitude=q['complex_amplitude'])
        except ValueError as e:
            res.append({'error': 'ValueError: ' + str(e)[:200]})
            continue
        finally:
            npc.norm = orig
        w = complex(w)
        res.append({'theta0': th0, 'sigmas': [int(s) for s in sig], 'norms': norms, 'weight': [float(w.real), float(w.imag)]})
    return {'B': got_B, 'results': res}


MEASURE_PATTERNS = ('expectation_value', 'correlation_function', 'term_', 'overlap', 'rho', 'mutinf', 'probability', 'sample',
                    'entanglement', 'average_charge', 'charge_variance', 'correlation_length')


def run_reflect(case):
    """public methods of BaseMPSExpectationValue / MPS / MPSEnvironment of the tree under test whose name looks like a measurement;
    'all': EVERY public method of these classes with the names of its parameters (options)"""
    import inspect
    import tenpy.networks.mps as M
    out = {'all': {}}
    for cname in ('BaseMPSExpectationValue', 'MPS', 'MPSEnvironment'):
        c = getattr(M, cname)
        names = [n for n, f in inspect.getmembers(c, predicate=inspect.isfunction)
                 if not n.startswith('_') and any(p in n for p in MEASURE_PATTERNS)]
        out[cname] = sorted(names)
        out['all'][cname] = {}
        for n in dir(c):
            if n.startswith('_'):
                continue
            f = inspect.getattr_static(c, n)
            if isinstance(f, (staticmethod, classmethod)):
                f = f.__func__
            if not inspect.isfunction(f):
                continue        # properties / attributes
            out['all'][cname][n] = [pn for pn in inspect.signature(f).parameters if pn not in ('self', 'cls')]
    return out


def main():
    payload = json.load(open(sys.argv[1]))
    f = {'reflect': run_reflect, 'state': run_state, 'overlap': run_overlap, 'ops_list': run_ops_list, 'window': run_window,
         'sample_ops': run_sample_ops, 'tcf_words': run_tcf_words, 'sample_loop': run_sample_loop}[payload['kind']]
    res = []
    for c in payload['cases']:
        try:
            res.append(f(c))
        except Exception:
            res.append({'runner_error': traceback.format_exc()[-1500:]})
    json.dump(res, open(sys.argv[2], 'w'))


if __name__ == '__main__':
    main()
