"""Runs the aliasing histories of harness/c03.py: every step keeps ALL earlier objects alive; before/after
each step every live tensor, every LegCharge object ever seen and every numpy array passed as an argument
is fingerprinted, and the runner reports exactly which of them changed observably."""
import hashlib
import json
import os
import sys
import traceback
import warnings

import numpy as np

warnings.simplefilter('ignore')
sys.path.insert(0, os.path.dirname(os.path.abspath(__file__)))
import c04_impl as base  # noqa: E402  (Env, run_step, dense, observe helpers)
import tenpy.linalg.np_conserved as npc  # noqa: E402
from tenpy.linalg import charges as chg  # noqa: E402
from tenpy.tools import optimization  # noqa: E402


def h(b):
    return hashlib.sha1(b).hexdigest()[:12]


def leg_fp(l):
    parts = [np.ascontiguousarray(l.charges).tobytes(), np.ascontiguousarray(l.slices).tobytes(),
             repr((int(l.qconj), int(l.ind_len), int(l.block_number), bool(l.sorted), bool(l.bunched), type(l).__name__)).encode()]
    if isinstance(l, chg.LegPipe):
        parts += [np.ascontiguousarray(l.q_map).tobytes(), np.ascontiguousarray(l.q_map_slices).tobytes(),
                  repr([id(s) for s in l.legs]).encode()]
    return h(b'|'.join(parts))


def arr_fp(a):
    """observable value of a tensor: values, labels, qtotal, identity and content of the legs"""
    try:
        d = base.dense(a)
        val = h(np.ascontiguousarray(d).tobytes() + str(d.shape).encode())
    except Exception as e:
        val = 'BROKEN:' + type(e).__name__
    try:
        a.test_sanity()
        sane = True
    except Exception:
        sane = False
    return {'val': val, 'dtype': str(a.dtype), 'labels': list(a._labels), 'qtotal': [int(x) for x in a.qtotal],
            'legs': [id(l) for l in a.legs], 'legfp': [leg_fp(l) for l in a.legs], 'sane': sane}


def byte_bounds(b):
    try:
        from numpy.lib.array_utils import byte_bounds as bb
    except Exception:                                   # numpy 1.x
        bb = np.byte_bounds
    return bb(b)


def mem_shares(x, y):
    """do the numpy arrays x and y have at least one byte of memory in common (exact, not only the bounds)"""
    if x.size == 0 or y.size == 0 or not np.may_share_memory(x, y):
        return False
    try:
        return bool(np.shares_memory(x, y, max_work=100000))
    except Exception:
        return True


def share_pairs(groups):
    """groups: {key: [ndarray, ...]}; returns the sorted list of key pairs (k1 < k2) that own blocks with common memory.
    Sweep over the byte intervals of all blocks, exact np.shares_memory only for overlapping intervals."""
    iv = []
    for k, blocks in groups.items():
        for b in blocks:
            if isinstance(b, np.ndarray) and b.size > 0:
                lo, hi = byte_bounds(b)
                iv.append((lo, hi, k, b))
    iv.sort(key=lambda t: (t[0], t[1]))
    out = set()
    active = []
    for lo, hi, k, b in iv:
        active = [t for t in active if t[1] > lo]
        for lo2, hi2, k2, b2 in active:
            if k2 != k and (min(k, k2), max(k, k2)) not in out and mem_shares(b, b2):
                out.add((min(k, k2), max(k, k2)))
        active.append((lo, hi, k, b))
    return sorted(out)


def write_probe(target, partners):
    """the active test for hidden aliasing: write `+1` INTO every block buffer of `target` (what the compiled
    iscale_prefactor / iadd_prefactor_other / __setitem__ do), report which of the `partners` (name -> tensor) changed
    their dense value, and restore the buffers byte by byte."""
    before = {k: arr_fp(x)['val'] for k, x in partners.items()}
    saved = []
    try:
        for b in target._data:
            if isinstance(b, np.ndarray) and b.flags.writeable and b.size > 0:
                saved.append((b, b.copy()))
                np.add(b, 1, out=b, casting='unsafe')
        changed = sorted(k for k, x in partners.items() if arr_fp(x)['val'] != before[k])
    finally:
        for b, old in reversed(saved):
            b[...] = old
    return changed


class Tracker:
    def __init__(self, env):
        self.env = env
        self.legs = {}          # id -> (object, fingerprint)   (objects are kept alive: ids stay unique)
        self.ext = []           # (name, array, bytes)

    def see_legs(self):
        stack = list(self.env.pool)
        for r in self.env.regs:
            if isinstance(r, npc.Array):
                stack.extend(r.legs)
            elif isinstance(r, chg.LegCharge):
                stack.append(r)
            elif isinstance(r, tuple):
                for x in r:
                    if isinstance(x, npc.Array):
                        stack.extend(x.legs)
        while stack:
            l = stack.pop()
            if id(l) not in self.legs:
                self.legs[id(l)] = (l, leg_fp(l))
                if isinstance(l, chg.LegPipe):
                    stack.extend(l.legs)

    def snapshot(self):
        return {i: arr_fp(r) for i, r in enumerate(self.env.regs) if isinstance(r, npc.Array)}

    def shares(self):
        """pairs of live tensors (register numbers) whose block buffers overlap in memory"""
        return share_pairs({i: list(r._data) for i, r in enumerate(self.env.regs) if isinstance(r, npc.Array)})

    def changed_legs(self):
        out = []
        for i, (l, fp) in self.legs.items():
            now = leg_fp(l)
            if now != fp:
                out.append({'cls': type(l).__name__, 'charges': np.asarray(l.charges).tolist()[:6], 'sorted': bool(l.sorted),
                            'bunched': bool(l.bunched)})
                self.legs[i] = (l, now)
        return out


def run_step03(env, st, ext):
    """steps that exist only in the C03 histories; everything else is delegated to c04_impl.run_step"""
    R = env.regs
    op = st['op']
    a = R[st['a']] if 'a' in st else None
    if isinstance(a, base.Failed):
        raise base.SkipStep()
    if op == 'iproject':
        m = np.array(st['mask'], dtype=bool)
        ext.append(('mask', m, m.tobytes()))
        a.iproject(m, st['axis'])
        return None
    if op in ('scale_axis', 'iscale_axis'):
        s = np.array(st['s'], dtype=np.float64)
        ext.append(('s', s, s.tobytes()))
        if op == 'scale_axis':
            return a.scale_axis(s, st['axis'])
        a.iscale_axis(s, st['axis'])
        return None
    if op == 'zeros_qtotal':
        legs = [env.leg(t) for t in st['legs']]
        qt = np.array(st['qtotal'], dtype=np.int64)
        ext.append(('qtotal', qt, qt.tobytes()))
        if st.get('how') == 'from_func':
            return npc.Array.from_func(np.ones, legs, dtype=np.dtype(st['dtype']), qtotal=qt)
        return npc.zeros(legs, np.dtype(st['dtype']), qtotal=qt)
    if op == 'concatenate':
        return npc.concatenate([a, R[st['b']]], axis=st['axis'])
    if op == 'permute':
        p = np.array(st['perm'], dtype=np.intp)
        ext.append(('perm', p, p.tobytes()))
        return a.permute(p, st['axis'])
    if op == 'ireplace_label':
        a.ireplace_label(st['old'], st['new'])
        return None
    if op == 'replace_label':
        return a.replace_label(st['old'], st['new'])
    if op == 'add_trivial_leg':
        return a.add_trivial_leg(st['axis'], st.get('label'), st['qconj'])
    if op == 'squeeze':
        res = a.squeeze()
        if not isinstance(res, npc.Array):
            raise base.SkipStep()
        return res
    if op == 'astype_nocopy':
        return a.astype(np.dtype(st['dtype']) if st.get('dtype') else a.dtype, copy=False)
    if op == 'zeros_like':
        return a.zeros_like()
    if op == 'gauge_total_charge':
        return a.gauge_total_charge(st['axis'])
    if op == 'to_ndarray':
        return a.to_ndarray().sum()
    if op == 'norm':
        return npc.norm(a)
    if op == 'getitem_slice':
        return a[tuple(slice(None) for _ in range(a.rank))]
    if op == 'setitem':
        idx = tuple(st['idx'])
        a[idx] = st['v']
        return None
    if op == 'take_slice':
        return a.take_slice(st['i'], st['axis'])
    if op == 'ipurge_zeros':
        a.ipurge_zeros()
        return None
    if op == 'isort_qdata':
        a.isort_qdata()
        return None
    if op == 'legcharge_ops':
        # LegCharge methods on a leg that is shared with live tensors: all must return new objects
        l = a.legs[st['axis']]
        out = [l.conj(), l.sort(bunch=True)[1], l.bunch()[1], l.flip_charges_qconj(), l.copy()]
        l.to_qflat(), l.to_qdict(), l.is_blocked(), l.is_sorted(), l.is_bunched(), l.charge_sectors()
        try:
            out.append(l.project(np.array(st['mask'], dtype=bool))[2])
        except Exception:
            pass
        return out[st['pick'] % len(out)]
    return base.run_step(env, st)


def run_history(case):
    env = base.Env(case)
    tr = Tracker(env)
    out = []
    tr.see_legs()
    before = tr.snapshot()
    prev_sh = set()
    for st in case['steps']:
        rec = {}
        ext = []
        try:
            res = run_step03(env, st, ext)
            rec['ok'] = True
        except base.SkipStep:
            res = base.Failed()
            rec['skipped'] = True
        except Exception as e:
            res = base.Failed()
            rec['error'] = type(e).__name__
            rec['msg'] = str(e)[:120]
        env.regs.append(res)
        # hidden aliasing: which live tensors own block buffers with common memory; for every NEW pair that involves
        # the result (the receiver of an in-place method) write into its buffers and see who else changes
        sh = tr.shares()
        rec['shares'] = [list(p) for p in sh]
        tgt = len(env.regs) - 1 if isinstance(res, npc.Array) else st.get('a') if res is None else None
        if tgt is not None and isinstance(env.regs[tgt], npc.Array):
            partners = {j: env.regs[j] for p in sh if p not in prev_sh and tgt in p for j in p if j != tgt}
            if partners:
                try:
                    rec['probe'] = {'target': tgt, 'partners': sorted(partners), 'changed': write_probe(env.regs[tgt], partners)}
                except Exception as e:
                    rec['probe'] = {'target': tgt, 'partners': sorted(partners), 'error': type(e).__name__ + ': ' + str(e)[:80]}
        prev_sh = set(sh)
        after = tr.snapshot()
        ch = {}
        for i, fp in before.items():
            now = after[i]
            diff = [k for k in fp if fp[k] != now[k]]
            if diff:
                ch[str(i)] = diff
        rec['changed'] = ch
        rec['insane'] = [i for i, fp in after.items() if not fp['sane'] and i in before and before[i]['sane']]
        rec['legs_changed'] = tr.changed_legs()
        rec['ext_changed'] = [name for name, arr, b in ext if arr.tobytes() != b]
        rec['res_kind'] = ('arr' if isinstance(res, npc.Array) else 'none' if res is None else
                           'failed' if isinstance(res, base.Failed) else 'other')
        if isinstance(res, npc.Array):
            rec['res_shares_legs'] = True
        tr.see_legs()
        before = after
        out.append(rec)
    return {'steps': out}


# ------------------------------------------------------------------------------------------------
# MPS / MPO / Krylov level
# ------------------------------------------------------------------------------------------------

def mps_fp(psi):
    parts = []
    for i in range(psi.L):
        B = psi._B[i]
        parts.append(h(np.ascontiguousarray(base.dense(B)).tobytes()) + repr(B._labels) + repr([int(x) for x in B.qtotal])
                     + repr([leg_fp(l) for l in B.legs]))
    # the object as a whole: number of stored tensors / singular values (not only the first L), boundary unitaries, bc
    parts.append(repr((len(psi._B), len(psi._S), len(psi.form), len(psi.sites), psi.bc)))
    parts.append(repr([None if U is None else h(np.ascontiguousarray(base.dense(U)).tobytes()) + repr([leg_fp(l) for l in U.legs])
                       for U in psi.segment_boundaries]))
    for S in psi._S:
        parts.append('None' if S is None else h(np.ascontiguousarray(np.asarray(S)).tobytes()))
    parts.append(repr([tuple(f) if f is not None else None for f in psi.form]))
    parts.append(repr(float(psi.norm)))
    parts.append(repr([int(c) for c in psi.chi]))
    return parts


def mpo_fp(H):
    return [h(np.ascontiguousarray(base.dense(W)).tobytes()) + repr(W._labels) + repr([leg_fp(l) for l in W.legs]) for W in H._W]


def diff_fp(a, b):
    return [i for i, (x, y) in enumerate(zip(a, b)) if x != y] + ([-1] if len(a) != len(b) else [])


def buffers_of(x):
    """numpy buffers owned by a result: blocks of an Array, the array itself, items of tuples/lists"""
    if isinstance(x, npc.Array):
        return [b for b in x._data if isinstance(b, np.ndarray)]
    if isinstance(x, np.ndarray):
        return [x]
    if isinstance(x, (tuple, list)):
        return [b for y in x for b in buffers_of(y)]
    return []


def net_buffers(psi=None, H=None):
    """named numpy buffers stored inside an MPS (site tensors, singular values) / MPO"""
    out = {}
    if psi is not None:
        for i, B in enumerate(psi._B):
            out['B[%d]' % i] = buffers_of(B)
        for i, S in enumerate(psi._S):
            out['S[%d]' % i] = buffers_of(S)
    if H is not None:
        for i, W in enumerate(H._W):
            out['W[%d]' % i] = buffers_of(W)
    return out


def probe_accessors(psi, H, c, rng):
    """Every accessor that returns tensors, for every site / form / copy flag: the returned object must not own memory
    in common with the buffers stored in the network unless the sharing is documented (MPS.get_B / MPO.get_W with
    copy=False: "we return the stored Array"; MPO.copy: "a shallow copy"; get_SL/get_SR return the stored singular
    values themselves).  MPS.copy ("values of B and S are deeply copied") and extract_segment ("Copy of self") are not.  Where
    memory IS shared, the active test writes +1 into the buffers of the result and fingerprints the network."""
    L = psi.L
    finite = psi.bc == 'finite'
    stored = net_buffers(psi, H)
    f0, w0 = mps_fp(psi), mpo_fp(H)
    calls = []
    sites = list(range(L)) if finite else list(range(-1, L + 1))
    forms = ['B', 'A', 'C', 'G', 'Th', None, (0., 1.), (1., 0.), (None, 1.), (0., None), (0.5, 0.5)]
    for i in sites:
        for f in forms:
            for cp in (False, True):
                for lp in (None, '1'):
                    calls.append(('get_B', 'get_B(%d, form=%r, copy=%r, label_p=%r)' % (i, f, cp, lp), not cp,
                                  lambda i=i, f=f, cp=cp, lp=lp: psi.get_B(i, form=f, copy=cp, label_p=lp)))
        for n in (1, 2, 3):
            if finite and i + n > L:
                continue
            for fL in (0., 0.5, 1.):
                for fR in (0., 0.5, 1.):
                    calls.append(('get_theta', 'get_theta(%d, n=%d, formL=%r, formR=%r)' % (i, n, fL, fR), False,
                                  lambda i=i, n=n, fL=fL, fR=fR: psi.get_theta(i, n=n, formL=fL, formR=fR)))
        calls.append(('get_SL', 'get_SL(%d)' % i, True, lambda i=i: psi.get_SL(i)))
        calls.append(('get_SR', 'get_SR(%d)' % i, True, lambda i=i: psi.get_SR(i)))
        for cp in (False, True):
            calls.append(('get_W', 'H.get_W(%d, copy=%r)' % (i, cp), not cp, lambda i=i, cp=cp: H.get_W(i, copy=cp)))
        if finite and i + 1 < L:
            calls.append(('get_rho_segment', 'get_rho_segment([%d, %d])' % (i, i + 1), False, lambda i=i: psi.get_rho_segment([i, i + 1])))
        if finite and i + 2 < L:
            calls.append(('get_rho_segment', 'get_rho_segment([%d, %d])' % (i, i + 2), False, lambda i=i: psi.get_rho_segment([i, i + 2])))
    cpsi = psi.copy()
    calls.append(('MPS.copy', 'psi.copy() [all buffers of the copy]', False, lambda: [list(cpsi._B), list(cpsi._S)]))
    cH = H.copy()
    calls.append(('MPO.copy', 'H.copy() [all W of the copy]', True, lambda: list(cH._W)))     # "Make a shallow copy of `self`"
    if finite and L >= 4:
        seg = psi.extract_segment(1, L - 2)
        calls.append(('extract_segment', 'psi.extract_segment(1, %d) [all buffers]' % (L - 2), False, lambda: [list(seg._B), list(seg._S)]))
    shared, errors, kinds = [], {}, {}
    for kind, text, documented, f in calls:
        try:
            res = f()
        except Exception as e:
            errors[text] = type(e).__name__
            continue
        kinds[kind] = kinds.get(kind, 0) + 1
        groups = dict(stored)
        groups['~res'] = buffers_of(res)
        hit = sorted(set(x for pr in share_pairs(groups) if '~res' in pr for x in pr if x != '~res'))
        if not hit:
            continue
        rec = {'accessor': kind, 'call': text, 'shares_with': hit, 'documented': documented}
        if not documented:
            saved = []
            try:
                for b in groups['~res']:
                    if b.flags.writeable and b.size > 0:
                        saved.append((b, b.copy()))
                        np.add(b, 1, out=b, casting='unsafe')
                rec['write_changed'] = {'psi_parts': diff_fp(f0, mps_fp(psi)), 'mpo_parts': diff_fp(w0, mpo_fp(H))}
            finally:
                for b, old in reversed(saved):
                    b[...] = old
        shared.append(rec)
    return {'calls': sum(kinds.values()), 'kinds': kinds, 'errors': dict(list(errors.items())[:5]), 'n_errors': len(errors),
            'shared_documented': sum(1 for r in shared if r['documented']),
            'shared_undocumented': [r for r in shared if not r['documented']][:20],
            'forms': [repr(f) for f in psi.form],
            'pure': diff_fp(f0, mps_fp(psi)) == [] and diff_fp(w0, mpo_fp(H)) == []}


def run_mps(c):
    from tenpy.networks.mps import MPS
    from tenpy.networks.mpo import MPO
    from tenpy.algorithms import tebd
    rng = np.random.default_rng(c['seed'])
    if c['model'] == 'xxz':
        from tenpy.models.xxz_chain import XXZChain
        M = XXZChain({'L': c['L'], 'Jxx': 1.0, 'Jz': 0.7, 'hz': 0.1, 'bc_MPS': c['bc'], 'conserve': c['conserve']})
        state = (['up', 'down'] * c['L'])[:c['L']]
        ops = ('Sz', 'Sp', 'Sm')
    else:
        from tenpy.models.tf_ising import TFIChain
        M = TFIChain({'L': c['L'], 'J': 1.0, 'g': 0.8, 'bc_MPS': c['bc'], 'conserve': c['conserve']})
        state = ['up'] * c['L']
        ops = ('Sigmaz', 'Sigmax', 'Sigmax')
    psi = MPS.from_product_state(M.lat.mps_sites(), state, bc=c['bc'])
    eng = tebd.TEBDEngine(psi, M, {'dt': 0.1, 'N_steps': 2, 'order': 2, 'trunc_params': {'chi_max': 8, 'svd_min': 1e-10}})
    if c.get('entangle', True):
        eng.run()                   # an entangled state with non-trivial bonds
    if c.get('form_A'):
        psi.convert_form('A')
    sf = c.get('store_form')        # how the tensors are stored: one form for all sites or a list (mixed forms)
    if sf is not None:
        psi.convert_form(sf)
    out = {}
    L = psi.L
    # ---- 1. constructors copy tensors
    Bs = [psi.get_B(i, form=None, copy=True) for i in range(L)]
    SVs = [psi.get_SL(i).copy() for i in range(L)] + [psi.get_SR(L - 1).copy()]
    form = [psi.form[i] for i in range(L)]
    psi2 = MPS(psi.sites, Bs, SVs, bc=c['bc'], form=form, norm=psi.norm)
    f0 = mps_fp(psi2)
    Bs0 = [h(np.ascontiguousarray(base.dense(B)).tobytes()) for B in Bs]
    i = int(rng.integers(L))
    Bs[i].iscale_prefactor(2.0)
    Bs[i].itranspose()
    SVs[i] *= 3.0
    out['ctor_mps_copies'] = diff_fp(f0, mps_fp(psi2)) == []
    psi2._B[(i + 1) % L].iscale_prefactor(0.5)
    out['ctor_mps_source_untouched'] = (h(np.ascontiguousarray(base.dense(Bs[(i + 1) % L])).tobytes()) == Bs0[(i + 1) % L])
    H = M.calc_H_MPO()
    Ws = [H.get_W(j, copy=True) for j in range(L)]
    H2 = MPO(H.sites, Ws, bc=H.bc, IdL=H.IdL, IdR=H.IdR, max_range=H.max_range)
    g0 = mpo_fp(H2)
    Ws[i].iscale_prefactor(2.0)
    out['ctor_mpo_copies'] = diff_fp(g0, mpo_fp(H2)) == []
    # ---- 2. get_B aliasing contract
    f0 = mps_fp(psi)
    B = psi.get_B(i, form=None, copy=False)
    out['get_B_nocopy_is_stored'] = B is psi._B[i]
    Bc = psi.get_B(i, form=None, copy=True)
    Bc.iscale_prefactor(5.0)
    Bc.iconj()
    out['get_B_copy_independent'] = diff_fp(f0, mps_fp(psi)) == []
    other = 'A' if psi.form[i] == (0., 1.) else 'B'
    Bf = psi.get_B(i, form=other, copy=False)       # form conversion: must not write into the stored tensor
    out['get_B_form_conversion_pure'] = diff_fp(f0, mps_fp(psi)) == []
    Bf.iscale_prefactor(7.0)
    out['get_B_converted_independent'] = diff_fp(f0, mps_fp(psi)) == []
    th = psi.get_theta(min(i, L - 2), n=2)
    th.iscale_prefactor(0.0)
    out['get_theta_independent'] = diff_fp(f0, mps_fp(psi)) == []
    W = H.get_W(i, copy=True)
    w0 = mpo_fp(H)
    W.iscale_prefactor(3.0)
    out['get_W_copy_independent'] = diff_fp(w0, mpo_fp(H)) == []
    out['accessors'] = probe_accessors(psi, H, c, rng)
    # ---- 3. measurements leave psi (and the other operand) unchanged
    f0 = mps_fp(psi)
    f2 = mps_fp(psi2)
    w0 = mpo_fp(H)
    meas = {}

    def check(name, f):
        try:
            f()
            err = None
        except Exception as e:
            err = type(e).__name__
        d = diff_fp(f0, mps_fp(psi))
        meas[name] = {'psi_changed': d, 'psi2_changed': diff_fp(f2, mps_fp(psi2)), 'mpo_changed': diff_fp(w0, mpo_fp(H)), 'error': err}
    check('expectation_value', lambda: psi.expectation_value(ops[0]))
    check('expectation_value_2site', lambda: psi.expectation_value(npc.outer(psi.sites[0].get_op(ops[1]).replace_labels(['p', 'p*'], ['p0', 'p0*']),
                                                                             psi.sites[1].get_op(ops[2]).replace_labels(['p', 'p*'], ['p1', 'p1*'])), sites=[0]))
    check('correlation_function', lambda: psi.correlation_function(ops[1], ops[2]))
    check('overlap', lambda: psi.overlap(psi2))
    check('entanglement_entropy', lambda: psi.entanglement_entropy())
    check('entanglement_spectrum', lambda: psi.entanglement_spectrum(by_charge=True))
    check('expectation_value_term', lambda: psi.expectation_value_term([(ops[0], 0), (ops[0], 2)]))
    check('mpo_expectation_value', lambda: H.expectation_value(psi))
    check('norm_test', lambda: psi.norm_test())
    check('get_total_charge', lambda: psi.get_total_charge())
    check('probability_per_charge', lambda: psi.probability_per_charge(L // 2) if c['conserve'] not in (None, 'None') else None)
    check('mutinf_two_site', lambda: psi.mutinf_two_site(max_range=2))
    check('copy', lambda: psi.copy())
    if c['bc'] == 'finite':
        check('get_rho_segment', lambda: psi.get_rho_segment([0, 1]))
        check('sample_measurements', lambda: psi.sample_measurements(rng=np.random.default_rng(1)))
        check('apply_mpo_on_copy', lambda: H.apply(psi.copy(), {'compression_method': 'SVD', 'trunc_params': {'chi_max': 10}}))
    out['measurements'] = meas
    # ---- 4. Krylov solvers and their start vector
    from tenpy.linalg import krylov_based
    from tenpy.algorithms.mps_common import TwoSiteH
    from tenpy.networks.mpo import MPOEnvironment
    env = MPOEnvironment(psi, H, psi)
    i0 = max(0, min(i, L - 2))
    Heff = TwoSiteH(env, i0, combine=bool(c.get('combine')))
    th = psi.get_theta(i0, n=2)
    if c.get('combine'):
        th = Heff.combine_theta(th)
    th0 = h(np.ascontiguousarray(base.dense(th)).tobytes()) + repr(th._labels) + repr([leg_fp(l) for l in th.legs])
    f0 = mps_fp(psi)
    kry = {}
    for name, run in (('LanczosGroundState', lambda: krylov_based.LanczosGroundState(Heff, th, {'N_max': 6}).run()),
                      ('LanczosEvolution', lambda: krylov_based.LanczosEvolution(Heff, th, {'N_max': 6}).run(-0.1j)),
                      ('lanczos_arpack', lambda: krylov_based.lanczos_arpack(Heff, th, {}))):
        try:
            run()
            err = None
        except Exception as e:
            err = type(e).__name__ + ':' + str(e)[:60]
        now = h(np.ascontiguousarray(base.dense(th)).tobytes()) + repr(th._labels) + repr([leg_fp(l) for l in th.legs])
        kry[name] = {'psi0_changed': now != th0, 'psi_changed': diff_fp(f0, mps_fp(psi)), 'error': err}
    out['krylov'] = kry
    return out


def main():
    payload = json.load(open(sys.argv[1]))
    fs = {'history': run_history, 'mps': run_mps}
    if any(kc[0] == 'mpshist' for kc in payload['cases']):
        import c03_mpshist_impl             # MPS-level histories (stream mps-history, Model/StoreMps.v)
        fs['mpshist'] = c03_mpshist_impl.run_mps_history
    if any(kc[0] == 'mpsobj' for kc in payload['cases']):
        import c03_mpsobj_impl              # whole-object fingerprints around every public MPS call (stream mps-object)
        fs['mpsobj'] = c03_mpsobj_impl.run_mps_object
    if any(kc[0] == 'mpoobj' for kc in payload['cases']):
        import c03_mpoobj_impl              # whole-object fingerprints of sites / MPOs / graphs / models (stream mpo-object)
        fs['mpoobj'] = c03_mpoobj_impl.run_mpo_object
    res = base.isolated_all(lambda kc: fs[kc[0]](kc[1]), payload['cases'], batch=20)
    info = {'have_cython': bool(optimization.have_cython_functions),
            'npc_file': os.path.realpath(npc.__file__)}
    json.dump({'info': info, 'results': res}, open(sys.argv[2], 'w'))


if __name__ == '__main__':
    main()
