"""Extension runner of C11 (case kind 'ext', sub-kinds below): the public functions / options / branches of tenpy.networks.mpo and
tenpy.algorithms.mpo_evolution that the base streams of c11_impl.py do not reach (coverage audit).  Raw answers and plain contractions
of the resulting tensors only; every comparison is done in harness/c11_ext.py.

sub-kinds: 'chain' (RESULTS of the MPO algebra and of the structural transformations group_sites / enlarge_mps_unit_cell /
extract_segment / sort_legcharges / from_Wflat / copy used as operands of the next operation, then read through every accessor),
'ctor' (from_wavepacket / from_grids / from_Wflat with their documented options), 'evo' (ExpMPOEvolution), 'iapply' (apply on
infinite MPS), 'ienv' (MPOEnvironment / MPOTransferMatrix / MPOEnvironmentBuilder of infinite MPS), 'opts' (documented options and
refusals of single routines).
"""
import traceback
import warnings

import numpy as np

import c11_impl as I
from c11_impl import Rec, cnum, cplx, make_site, build_from_terms

warnings.simplefilter('ignore')


# ------------------------------------------------------------------------------------------
# API call counter (which public functions of the anchored classes did this process call, how often)
# ------------------------------------------------------------------------------------------
API_CALLS = {}
_instrumented = False


def instrument():
    """wrap every function defined in the bodies of the classes of tenpy.networks.mpo (and its module-level functions, and
    ExpMPOEvolution) with a call counter; names as in the source: 'MPO.overlap', 'make_W_II', ..."""
    global _instrumented
    if _instrumented:
        return
    _instrumented = True
    import functools
    import inspect
    import tenpy.networks.mpo as M
    import tenpy.algorithms.mpo_evolution as E

    def wrap(name, f):
        @functools.wraps(f)
        def g(*a, **k):
            API_CALLS[name] = API_CALLS.get(name, 0) + 1
            return f(*a, **k)
        return g
    for mod, clsnames in ((M, ['MPO', 'MPOGraph', 'MPOEnvironment', 'MPOEnvironmentBuilder', 'MPOTransferMatrix']),
                          (E, ['ExpMPOEvolution', 'TimeDependentExpMPOEvolution'])):
        for cn in clsnames:
            cls = getattr(mod, cn)
            for attr, val in list(vars(cls).items()):
                nm = cn + '.' + attr
                if isinstance(val, staticmethod):
                    setattr(cls, attr, staticmethod(wrap(nm, val.__func__)))
                elif isinstance(val, classmethod):
                    setattr(cls, attr, classmethod(wrap(nm, val.__func__)))
                elif isinstance(val, property):
                    setattr(cls, attr, property(wrap(nm, val.fget), val.fset, val.fdel, val.__doc__))
                elif inspect.isfunction(val):
                    setattr(cls, attr, wrap(nm, val))
    for attr, val in list(vars(M).items()):
        if inspect.isfunction(val) and val.__module__ == M.__name__:
            setattr(M, attr, wrap(attr, val))


# ------------------------------------------------------------------------------------------
# plain contractions
# ------------------------------------------------------------------------------------------
def dense_any(H, nsites, first=0, plus_hc=None):
    """contract the W tensors of `nsites` sites from the IdL marker left of `first` to the IdR marker on the right; grouped physical
    legs are split back into the legs of the original sites (order of the original sites)"""
    import tenpy.linalg.np_conserved as npc
    cur = None
    for n in range(nsites):
        W = H.get_W(first + n).transpose(['wL', 'p', 'p*', 'wR'])
        if isinstance(W.get_leg('p'), npc.LegPipe):
            W = W.split_legs([1, 2])
        a = W.to_ndarray()
        m = (a.ndim - 2) // 2
        d = int(np.prod(a.shape[1:1 + m]))
        a = a.reshape(a.shape[0], d, d, a.shape[-1]).transpose(0, 3, 1, 2)
        if cur is None:
            cur = a[H.get_IdL(first)]
        else:
            cur = np.einsum('aij,abkl->bikjl', cur, a).reshape(a.shape[1], cur.shape[1] * d, cur.shape[2] * d)
    res = cur[H.get_IdR(first + nsites - 1)]
    if H.explicit_plus_hc if plus_hc is None else plus_hc:
        res = res + res.conj().T
    return res


def dense_state_any(psi, first=0, n=None):
    """vector of the sites first .. first+n-1 with open virtual legs (vL, physical..., vR), grouped legs split"""
    import tenpy.linalg.np_conserved as npc
    n = psi.L if n is None else n
    th = psi.get_theta(first, n)
    th = th.itranspose(['vL'] + ['p%d' % k for k in range(n)] + ['vR'])
    pipes = [k for k in range(1, n + 1) if isinstance(th.legs[k], npc.LegPipe)]
    if pipes:
        th = th.split_legs(pipes)
    a = th.to_ndarray()
    return a.reshape(a.shape[0], -1, a.shape[-1])


def dstate(psi):
    """full vector of a finite MPS (incl. psi.norm) in the basis of the original sites"""
    a = dense_state_any(psi)
    return a[0, :, 0] * psi.norm


def mr_(H):
    return None if H.max_range is None else ('inf' if H.max_range == np.inf else float(H.max_range))


def ids_(xs):
    return [None if x is None else int(x) for x in xs]


def meta(H):
    return {'L': int(H.L), 'chi': [int(c) for c in H.chi], 'IdL': ids_(H.IdL), 'IdR': ids_(H.IdR), 'max_range': mr_(H),
            'flag': bool(H.explicit_plus_hc), 'bc': H.bc, 'grouped': int(H.grouped), 'ucw': int(H.unit_cell_width)}


def build_operand(sites, spec, bc):
    """an MPO from a term list in one of the documented forms: one MPOGraph ('graph'), a sum of two parts by MPO.__add__ ('sum': IdR
    markers -1), IdR markers written as negative indices ('neg'); max_range known / None / inf; flag explicit_plus_hc"""
    from tenpy.networks.mpo import MPO
    terms = spec['terms']
    form = spec.get('form', 'graph')
    plus_hc = bool(spec.get('plus_hc', False))
    if form == 'sum' and len(terms) > 1:
        k = max(1, min(len(terms) - 1, int(spec.get('split', 1))))
        H = build_from_terms(sites, terms[:k], bc) + build_from_terms(sites, terms[k:], bc)
    else:
        H = build_from_terms(sites, terms, bc)
    if form == 'neg':
        chi = H.chi
        H = MPO(H.sites, [H.get_W(i, copy=True) for i in range(H.L)], bc, list(H.IdL),
                [None if x is None else int(x) % int(c) - int(c) for x, c in zip(H.IdR, chi)], H.max_range, mps_unit_cell_width=H.unit_cell_width)
    return I.with_range(H, spec.get('range', 'known'), spec.get('how', 'ctor'), plus_hc=plus_hc)


def make_psi(sites, spec, bc, rng, out):
    from tenpy.networks.mps import MPS
    if bc == 'finite':
        return I.random_state(sites, spec, rng)
    vecs = []
    for s_ in sites:
        if spec.get('charged'):
            v = np.zeros(s_.dim, dtype=complex)
            v[rng.integers(s_.dim)] = 1.
        else:
            v = rng.normal(size=s_.dim) + 1j * rng.normal(size=s_.dim)
        vecs.append(v / np.linalg.norm(v))
    out['state'] = [[cnum(x) for x in v] for v in vecs]
    if spec.get('charged'):
        return MPS.from_product_state(sites, [int(np.argmax(np.abs(v))) for v in vecs], 'infinite', dtype=complex, permute=False)
    return MPS.from_product_state(sites, vecs, 'infinite', dtype=complex, permute=False)


def entangle(psi, seed, chi):
    """a generic (entangled) iMPS / MPS in canonical form from the product state: random two-site unitaries"""
    from tenpy.algorithms.tebd import RandomUnitaryEvolution
    np.random.seed(seed % (2 ** 31))
    RandomUnitaryEvolution(psi, {'N_steps': 2, 'trunc_params': {'chi_max': chi, 'svd_min': 1e-12}}).run()
    psi.canonical_form()
    return psi


# ------------------------------------------------------------------------------------------
# sub 'chain'
# ------------------------------------------------------------------------------------------
def structural_replay(H, structural):
    """bring an independent MPO into the same site structure (grouping, unit cell, segment) as the register"""
    for st in structural:
        if st[0] == 'group':
            H.group_sites(int(st[1]))
        elif st[0] == 'enlarge':
            H.enlarge_mps_unit_cell(int(st[1]))
        elif st[0] == 'segment':
            H = H.extract_segment(int(st[1]), int(st[2]))
    return H


def run_chain(case, npz):
    from tenpy.networks.mpo import MPO, MPOEnvironment
    rec = Rec()
    out = rec.out
    kind = case['site']['type']
    L = case['L']
    bc = case['bc']
    finite = bc == 'finite'
    site = make_site(case['site'])
    sites = [site] * L
    rng = np.random.default_rng(case['seed'])
    np.random.seed(case['seed'] % (2 ** 31))
    out['needs_JW'] = {op: bool(site.op_needs_JW(op)) for op in site.opnames}
    for op in site.opnames:
        rec.mats['op/' + op] = site.get_op(op).to_ndarray()
    out['L'] = L
    out['dims'] = [site.dim]
    st = {'R': build_operand(sites, case['A'], bc), 'B': build_operand(sites, case['B'], bc) if case.get('B') else None,
          'win': case['N'], 'per': 1, 'structural': []}
    out['start'] = meta(st['R'])

    def nsites():
        R = st['R']
        return R.L if R.bc != 'infinite' else st['win'] // st['per']
    rec.mats['S/start'] = dense_any(st['R'], nsites())
    out['steps'] = []
    alive = True
    for k, step in enumerate(case['steps']):
        o = {'step': step}
        out['steps'].append(o)
        if not alive:
            o['skipped'] = True
            continue

        def do(step=step, o=o, k=k):
            R = st['R']
            op = step[0]
            if op == 'sort':
                R.sort_legcharges()
            elif op == 'dagger':
                st['R'] = R.dagger()
            elif op == 'add':
                st['R'] = R + st['B']
            elif op == 'radd':
                st['R'] = st['B'] + R
            elif op == 'addself':
                st['R'] = R + R
            elif op == 'plus_identity':
                st['R'] = R.plus_identity(cplx(step[1]), cplx(step[2]), sites=list(step[3])) if step[3] is not None else \
                    R.plus_identity(cplx(step[1]), cplx(step[2]))
            elif op == 'copy_mutate':
                C = R.copy()
                if step[1] == 'sort':
                    C.sort_legcharges()
                elif step[1] == 'group':
                    C.group_sites(2)
                elif step[1] == 'enlarge':
                    C.enlarge_mps_unit_cell(2)
                o['copy_meta'] = meta(C)        # (the register R itself must be unchanged: contracted below)
            elif op == 'group':
                n = int(step[1])
                if step[2] == 'explicit':
                    from tenpy.networks.site import group_sites
                    R.group_sites(n, grouped_sites=group_sites(R.sites, n, charges='same'))
                else:
                    R.group_sites(n)
                if st['B'] is not None:
                    st['B'].group_sites(n)
                st['per'] *= n
                st['structural'].append(['group', n])
            elif op == 'enlarge':
                f = int(step[1])
                R.enlarge_mps_unit_cell(f)
                if st['B'] is not None:
                    st['B'].enlarge_mps_unit_cell(f)
                st['structural'].append(['enlarge', f])
            elif op == 'segment':
                st['R'] = R.extract_segment(int(step[1]), int(step[2]))
                if st['B'] is not None:
                    st['B'] = st['B'].extract_segment(int(step[1]), int(step[2]))
                st['structural'].append(['segment', int(step[1]), int(step[2])])
            elif op == 'wflat':
                Wf = [R.get_W(i, copy=True).itranspose(['p', 'p*', 'wL', 'wR']).to_ndarray() for i in range(R.L)]
                kw = {}
                if step[1] == 'dtype':
                    kw['dtype'] = np.complex128
                H2 = MPO.from_Wflat(R.sites, Wf, R.bc, permute=False, legL=R.get_W(0).get_leg('wL').bunch()[1], IdL=list(R.IdL), IdR=list(R.IdR),
                                    max_range=R.max_range, unit_cell_width=R.unit_cell_width, **kw)
                H2.explicit_plus_hc = R.explicit_plus_hc
                H2.grouped = R.grouped
                st['R'] = H2
            elif op == 'set_W':
                i = int(step[1]) % R.L
                R.set_W(i, R.get_W(i, copy=True))
            else:
                raise ValueError(op)
            st['R'].test_sanity()
            o['meta'] = meta(st['R'])
            rec.mats['S/%d' % k] = dense_any(st['R'], nsites())
        n_err = len(rec.errors)
        rec.run('step:%d:%s' % (k, step[0]), do)
        if len(rec.errors) > n_err:
            alive = False
    out['alive'] = alive
    R = st['R']
    out['final_meta'] = meta(R)
    # ---- state in the site structure of the register
    psi = None
    if alive and case.get('state') is not None and R.bc != 'segment':
        def mkpsi():
            nonlocal psi
            p = make_psi(sites if finite else [site] * case.get('psi_L', L), case['state'], bc, rng, out)
            if finite:
                rec.mats['psi'] = I.dense_state(p)
            for s_ in st['structural']:
                if s_[0] == 'group':
                    p.group_sites(int(s_[1]))
            psi = p
        rec.run('state', mkpsi)
    out['final'] = []
    for fin in (case.get('final', []) if alive else []):
        o = {'final': fin}
        out['final'].append(o)
        name = fin[0]

        def do(fin=fin, o=o, name=name):
            if name == 'is_hermitian':
                kw = {}
                if len(fin) > 1 and fin[1] is not None:
                    kw['max_range'] = fin[1]
                o['is_hermitian'] = bool(R.is_hermitian(**kw))
            elif name == 'pair':
                spec = fin[1]
                Q = build_operand(sites, spec, bc)
                if spec.get('alpha'):
                    Q = Q.plus_identity(cplx(spec['alpha']), 1.0)
                Q = structural_replay(Q, st['structural'])
                o['Q_meta'] = meta(Q)
                n = nsites()
                rec.mats['Q/%s' % spec['tag']] = dense_any(Q, n)
                inf = R.bc == 'infinite'
                kw = {'understood_infinite': True, 'num_sites': n} if inf else {}
                for a_, b_, nm_ in ((R, Q, 'RQ'), (Q, R, 'QR')):
                    rec.run('is_equal:' + nm_, lambda a_=a_, b_=b_, nm_=nm_: o.__setitem__('is_equal_' + nm_, bool(a_.is_equal(b_))))
                    if nm_ == spec.get('order', 'RQ'):
                        rec.run('overlap:' + nm_, lambda a_=a_, b_=b_, nm_=nm_: o.__setitem__('overlap_' + nm_, cnum(a_.overlap(b_, **kw))))
                        rec.run('distance:' + nm_, lambda a_=a_, b_=b_, nm_=nm_: o.__setitem__('distance_' + nm_, cnum(a_.distance(b_, **kw))))
                if inf and spec.get('default_window'):
                    # documented default of num_sites: L + 2 * max_range of whichever MPO has the larger value (L for unknown / infinite)
                    for a_, b_, nm_ in ((R, Q, 'RQ'), (Q, R, 'QR')):
                        if nm_ != spec.get('order', 'RQ'):
                            continue

                        def dflt(a_=a_, b_=b_, nm_=nm_):
                            with warnings.catch_warnings(record=True) as wl:
                                warnings.simplefilter('always')
                                try:
                                    o['overlap_default_' + nm_] = cnum(a_.overlap(b_))
                                except (TypeError, OverflowError, ValueError) as e:
                                    o['overlap_default_raises_' + nm_] = type(e).__name__ + ': ' + str(e)[:100]
                                o['overlap_default_warned_' + nm_] = any('unusual definition' in str(w_.message) for w_ in wl)
                        rec.run('overlap_default:' + nm_, dflt)
                    if fin[1].get('eq_max_range') is not None:
                        rec.run('is_equal_mr', lambda: o.__setitem__('is_equal_mr', bool(R.is_equal(Q, max_range=fin[1]['eq_max_range']))))
            elif name == 'expectation':
                if R.bc == 'finite':
                    o['expectation_value'] = cnum(R.expectation_value(psi))
                    o['expectation_value_finite'] = cnum(R.expectation_value_finite(psi))
                    if not R.explicit_plus_hc:
                        o['variance'] = cnum(R.variance(psi))
                        o['variance_ev0'] = cnum(R.variance(psi, exp_val=0))
                        o['variance_evgiven'] = cnum(R.variance(psi, exp_val=cplx(o['expectation_value'])))
                else:
                    o['expectation_value'] = cnum(R.expectation_value(psi))
                    o['expectation_value_TM'] = cnum(R.expectation_value_TM(psi))
                    o['expectation_value_power'] = cnum(R.expectation_value_power(psi))
                    o['expectation_value_mr'] = cnum(R.expectation_value(psi, max_range=int(fin[1])))
            elif name == 'to_TermList':
                opts = dict(fin[1])
                basis = I.BASIS[kind]
                if opts.pop('basis_per_site', False):
                    basis = [list(basis) for _ in range(R.L)]
                if opts.get('start') is not None and len(opts['start']) == 1 and opts.pop('start_scalar', False):
                    opts['start'] = opts['start'][0]
                opts.pop('start_scalar', None)
                tl = R.to_TermList(basis, **opts)
                o['to_TermList'] = [[[[op, int(i)] for op, i in t], cnum(s_)] for t, s_ in zip(tl.terms, tl.strength)]
            elif name == 'prefactor':
                o['prefactor'] = [cnum(R.prefactor(i, ops)) for i, ops in fin[1]]
            elif name == 'make_U':
                o['U'] = {}
                n = nsites()
                for which in fin[2]:
                    for q, dt in enumerate(fin[1]):
                        U = R.make_U(cplx(dt), which)
                        U.test_sanity()
                        rec.mats['U/%s/%d' % (which, q)] = dense_any(U, n)
                        o['U']['%s/%d' % (which, q)] = meta(U)
            elif name == 'apply':
                meth = fin[1]
                p2 = psi.copy()
                opts = {'compression_method': meth['method'], 'trunc_params': dict(meth['trunc_params'])}
                for k_ in ('m_temp', 'trunc_weight', 'max_sweeps', 'min_sweeps', 'tol_theta_diff', 'cbe_expand', 'start_env_sites'):
                    if k_ in meth:
                        opts[k_] = meth[k_]
                if meth['method'] == 'naive':
                    R.apply_naively(p2)
                    p2.canonical_form(renormalize=False)
                    err = None
                elif meth['method'] == 'zip_up_direct':
                    del opts['compression_method']
                    err = R.apply_zipup(p2, opts)
                    p2.canonical_form(renormalize=False)
                else:
                    err = R.apply(p2, opts)
                rec.mats['apply/' + meth['name']] = dstate(p2)
                o['apply'] = {'eps': None if err is None else float(err.eps), 'chi': [int(x) for x in p2.chi], 'norm': float(p2.norm)}
                rec.mats['psi_after'] = dstate(psi)      # (the operand state must be unchanged: a copy was compressed)
            elif name == 'env':
                # <bra|R|ket> with bra != ket: full contraction at every bond, effective two-site Hamiltonian from LHeff / RHeff
                bra = make_psi(sites, case['state'], bc, np.random.default_rng(case['seed'] + 77), {})
                for s_ in st['structural']:
                    if s_[0] == 'group':
                        bra.group_sites(int(s_[1]))
                rec.mats['bra'] = dstate(bra)
                o['bra_ket_overlap'] = cnum(bra.overlap(psi))
                env = MPOEnvironment(bra, R, psi)
                o['full_contraction'] = [cnum(env.full_contraction(i)) for i in range(R.L - 1)]
                env2 = MPOEnvironment(psi, R, psi)
                i0 = int(fin[1]) % max(1, R.L - 1)
                if R.L >= 2:
                    import tenpy.linalg.np_conserved as npc
                    LH = env2._contract_LHeff(i0, 'p0')
                    RH = env2._contract_RHeff(i0 + 1, 'p1')
                    th = psi.get_theta(i0, 2).combine_legs([['vL', 'p0'], ['p1', 'vR']], pipes=[LH.get_leg('(vR*.p0)'), RH.get_leg('(p1.vL*)')])
                    x = npc.tensordot(LH, th, axes=['(vR.p0*)', '(vL.p0)'])
                    x = npc.tensordot(x, RH, axes=[['wR', '(p1.vR)'], ['wL', '(p1*.vL)']])
                    val = npc.inner(th, x, axes=[['(vL.p0)', '(p1.vR)'], ['(vR*.p0)', '(p1.vL*)']], do_conj=True)
                    if R.explicit_plus_hc:
                        val = val + np.conj(val)
                    o['heff'] = cnum(val)
            else:
                raise ValueError(name)
        import time as _t
        t0_ = _t.time()
        rec.run('final:' + name, do)
        o['secs'] = round(_t.time() - t0_, 3)
    # the register after all accessors (no accessor may modify it)
    if alive:
        rec.run('recontract', lambda: rec.mats.__setitem__('S/end', dense_any(R, nsites())))
        out['end_meta'] = meta(R)
    np.savez(npz, **rec.mats)
    out['errors'] = rec.errors
    out['npz'] = npz
    return out



# ------------------------------------------------------------------------------------------
# sub 'ctor': constructors with their documented options
# ------------------------------------------------------------------------------------------
def common_head(case, rec, sites):
    site = sites[0]
    rec.out['needs_JW'] = {op: bool(site.op_needs_JW(op)) for op in site.opnames}
    for op in site.opnames:
        rec.mats['op/' + op] = site.get_op(op).to_ndarray()
    rec.out['L'] = case['L']
    rec.out['perm'] = [int(x) for x in site.perm]


def grid_entry(site, ent):
    """JSON entry -> one of the documented entry kinds of grid_insert_ops: None / str / npc.Array / [(opname, strength), ...]"""
    if ent is None:
        return None
    kind_, val = ent
    if kind_ == 'str':
        return val
    if kind_ == 'list':
        return [(op, cplx(st)) for op, st in val]
    if kind_ == 'arr':
        res = None
        for op, st in val:
            x = cplx(st) * site.get_op(op)
            res = x if res is None else res + x
        return res
    raise ValueError(kind_)


def run_ctor(case, npz):
    from tenpy.networks.mpo import MPO
    rec = Rec()
    out = rec.out
    L = case['L']
    site = make_site(case['site'])
    sites = [site] * L
    common_head(case, rec, sites)
    rng = np.random.default_rng(case['seed'])
    var = case['variant']
    if var == 'wavepacket':
        ws = {}
        for nm in ('w1', 'w2'):
            def mk(nm=nm):
                kw = {}
                if case.get('eps') is not None:
                    kw['eps'] = case['eps']
                w = MPO.from_wavepacket(sites, np.array([cplx(c) for c in case[nm]]), case['op'], unit_cell_width=L, **kw)
                w.test_sanity()
                ws[nm] = w
                out[nm + '_meta'] = meta(w)
                rec.mats['W/' + nm] = dense_any(w, L)
            rec.run('from_wavepacket:' + nm, mk)
        if 'w1' in ws:
            w1 = ws['w1']
            rec.run('dagger', lambda: rec.mats.__setitem__('W/dagger', dense_any(w1.dagger(), L)))
            rec.run('is_hermitian', lambda: out.__setitem__('is_hermitian', bool(w1.is_hermitian())))

            def ttl():
                tl = w1.to_TermList(I.BASIS[case['site']['type']], ignore=['Id'])
                out['to_TermList'] = [[[[op, int(i)] for op, i in t], cnum(s_)] for t, s_ in zip(tl.terms, tl.strength)]
            rec.run('to_TermList', ttl)
            out['prefactor_full'] = []
            for i in range(L):
                def pf(i=i):
                    jw = 'JW' if site.op_needs_JW(case['op']) else 'Id'
                    out['prefactor_full'].append(cnum(w1.prefactor(0, [jw] * i + [case['op']] + ['Id'] * (L - 1 - i))))
                rec.run('prefactor:%d' % i, pf)

            def app():
                psi = I.random_state(sites, case['state'], rng)
                rec.mats['psi'] = I.dense_state(psi)
                for meth in case['methods']:
                    p2 = psi.copy()
                    if meth == 'naive':
                        w1.apply_naively(p2)
                        p2.canonical_form(renormalize=False)
                    else:
                        w1.apply(p2, {'compression_method': meth, 'trunc_params': {'chi_max': 100, 'svd_min': 1e-14}, 'max_sweeps': 10, 'min_sweeps': 2})
                    rec.mats['apply/' + meth] = I.dense_state(p2)
                    out.setdefault('apply_chi', {})[meth] = [int(x) for x in p2.chi]
            rec.run('apply', app)
        if 'w1' in ws and 'w2' in ws:
            w1, w2 = ws['w1'], ws['w2']

            def add():
                S = w1 + w2
                S.test_sanity()
                out['sum_meta'] = meta(S)
                rec.mats['W/sum'] = dense_any(S, L)
                S2 = S + w1                                     # (the result is an operand again)
                rec.mats['W/sum2'] = dense_any(S2, L)
                out['is_equal_sum'] = [bool(S.is_equal(w2 + w1)), bool(S.is_equal(S2))]
            rec.run('add', add)
            rec.run('overlap', lambda: out.__setitem__('overlap', [cnum(w1.overlap(w2)), cnum(w2.overlap(w1)), cnum(w1.overlap(w1))]))
            rec.run('is_equal', lambda: out.__setitem__('is_equal', [bool(w1.is_equal(w2)), bool(w1.is_equal(w1))]))
    elif var == 'grids':
        bc = case['bc']
        N = case['N']

        def mk():
            grids = [[[grid_entry(site, e) for e in row] for row in g] for g in case['grids']]
            kw = {}
            for k_ in ('max_range', 'explicit_plus_hc'):
                if case.get(k_) is not None:
                    kw[k_] = case[k_]
            if case.get('Ws_qtotal') is not None:
                kw['Ws_qtotal'] = case['Ws_qtotal']
            H = MPO.from_grids(sites, grids, bc, case['IdL'], case['IdR'], mps_unit_cell_width=L, **kw)
            if case.get('legs_roundtrip'):
                # the legs of the result given explicitly to a second construction (documented option `legs`: L + 1 'wL' legs)
                legs = [H.get_W(i).get_leg('wL') for i in range(L)] + [H.get_W(L - 1).get_leg('wR').conj()]
                H = MPO.from_grids(sites, grids, bc, case['IdL'], case['IdR'], mps_unit_cell_width=L, legs=legs, **kw)
            H.test_sanity()
            out['meta'] = meta(H)
            out['qtotal'] = [[int(x) for x in H.get_W(i).qtotal] for i in range(L)]
            rec.mats['W/H'] = dense_any(H, N)
            return H
        H = None
        try:
            H = mk()
        except Exception as e:
            rec.errors['from_grids'] = type(e).__name__ + ': ' + str(e)[:200] + ' @ ' + traceback.format_exc().strip().split('\n')[-3][:160]
        if H is not None:
            rec.run('dagger', lambda: rec.mats.__setitem__('W/dagger', dense_any(H.dagger(), N)))
            rec.run('is_hermitian', lambda: out.__setitem__('is_hermitian', bool(H.is_hermitian())))
            if not H.explicit_plus_hc and case.get('Ws_qtotal') is None:
                rec.run('addself', lambda: rec.mats.__setitem__('W/addself', dense_any(H + H, N)))
            if case.get('state') is not None:
                def ev():
                    psi = make_psi(sites, case['state'], bc, rng, out)
                    if bc == 'finite':
                        rec.mats['psi'] = I.dense_state(psi)
                    out['expectation_value'] = cnum(H.expectation_value(psi))
                    if bc != 'finite':
                        out['expectation_value_TM'] = cnum(H.expectation_value_TM(psi))
                rec.run('expectation_value', ev)
            if case.get('bra_ket') is not None:
                # an MPO with charged W tensors (Ws_qtotal) between states of different sectors
                def bk():
                    from tenpy.networks.mpo import MPOEnvironment
                    bra = I.random_state(sites, case['bra_ket'][0], np.random.default_rng(case['seed'] + 1))
                    ket = I.random_state(sites, case['bra_ket'][1], np.random.default_rng(case['seed'] + 2))
                    rec.mats['bra'] = I.dense_state(bra)
                    rec.mats['ket'] = I.dense_state(ket)
                    env = MPOEnvironment(bra, H, ket)
                    out['full_contraction'] = [cnum(env.full_contraction(i)) for i in range(L - 1)]
                    p2 = ket.copy()
                    H.apply_naively(p2)
                    p2.canonical_form(renormalize=False)
                    rec.mats['apply/naive'] = I.dense_state(p2)
                rec.run('bra_ket', bk)
    elif var == 'wflat':
        bc = case['bc']
        N = case['N']
        site0 = make_site(dict(case['site'], conserve=None))
        # W tensors "given as if conserve=None in the Site" (documented for permute=True)
        H0 = build_from_terms([site0] * L, case['terms'], bc)
        Wflat = [H0.get_W(i).itranspose(['p', 'p*', 'wL', 'wR']).to_ndarray() for i in range(L)]
        out['meta0'] = meta(H0)

        def mk():
            kw = {}
            if case.get('dtype'):
                kw['dtype'] = np.complex128
            if case.get('permute') is not None:
                kw['permute'] = case['permute']
            src = Wflat
            if case.get('permute') is False:
                # given in the basis of the (charge sorted) site itself
                pm = np.asarray(site.perm)
                src = [w[pm][:, pm] for w in Wflat]
            H = MPO.from_Wflat(sites, src, bc, IdL=list(H0.IdL), IdR=list(H0.IdR), max_range=H0.max_range, unit_cell_width=L, **kw)
            out['meta'] = meta(H)
            out['dtype'] = str(H.dtype)
            rec.mats['W/H'] = dense_any(H, N)
            rec.mats['W/sum'] = dense_any(H + build_from_terms(sites, case['terms'], bc), N)
        rec.run('from_Wflat', mk)
    np.savez(npz, **rec.mats)
    out['errors'] = rec.errors
    out['npz'] = npz
    return out


# ------------------------------------------------------------------------------------------
# sub 'evo': ExpMPOEvolution (the user of make_U)
# ------------------------------------------------------------------------------------------
def run_evo(case, npz):
    from tenpy.models.model import MPOModel
    from tenpy.models.lattice import Chain
    from tenpy.algorithms.mpo_evolution import ExpMPOEvolution
    rec = Rec()
    out = rec.out
    L = case['L']
    site = make_site(case['site'])
    sites = [site] * L
    common_head(case, rec, sites)
    rng = np.random.default_rng(case['seed'])
    H = build_operand(sites, case['A'], 'finite')
    rec.mats['H'] = dense_any(H, L)
    M = MPOModel(Chain(L, site, bc='open', bc_MPS='finite'), H)
    psi0 = I.random_state(sites, case['state'], rng)
    rec.mats['psi0'] = I.dense_state(psi0)
    out['runs'] = {}
    for nm, fac in (('coarse', 1), ('fine', 2)):
        o = out['runs'][nm] = {'phases': []}

        def go(nm=nm, fac=fac, o=o):
            p = psi0.copy()
            opts = dict(case['options'])
            opts['dt'] = case['dt'] / fac
            opts['N_steps'] = case['N_steps'] * fac
            opts['trunc_params'] = dict(opts['trunc_params'])
            eng = ExpMPOEvolution(p, M, opts)
            for ph in range(3):
                if ph == 2:
                    # a new step size on the same engine: the propagator must be recomputed
                    eng.options['dt'] = case['dt'] / fac / 2
                    eng.options['N_steps'] = case['N_steps'] * fac * 2
                eng.run()
                rec.mats['psi/%s/%d' % (nm, ph)] = I.dense_state(p)
                o['phases'].append({'evolved_time': cnum(eng.evolved_time), 'norm': float(p.norm), 'eps': float(eng.trunc_err.eps),
                                    'n_U': len(eng._U_MPO), 'U_param_dt': float(eng._U_param['dt'])})
        rec.run('evolve:' + nm, go)
    rec.mats['psi0_after'] = I.dense_state(psi0)
    np.savez(npz, **rec.mats)
    out['errors'] = rec.errors
    out['npz'] = npz
    return out


# ------------------------------------------------------------------------------------------
# sub 'iapply': MPO.apply on infinite MPS (exact finite-depth circuits given as MPOs by from_grids)
# ------------------------------------------------------------------------------------------
def gate_mpo(site, L, theta, parity):
    """exp(-i theta (Sp Sm + Sm Sp)) on the bonds (i, i+1) with i = parity mod 2 of an infinite chain with unit cell 2:
    = c0 Id Id + c1 Sz Sz + c2 (Sp Sm + Sm Sp), written as an MPO through MPO.from_grids"""
    from tenpy.networks.mpo import MPO
    c0 = 1 + (np.cos(theta) - 1) / 2
    c1 = -2 * (np.cos(theta) - 1)
    c2 = -1j * np.sin(theta)
    row = [['Id', 'Sz', 'Sp', 'Sm']]                                                # opens a gate: bond dimension 1 -> 4
    col = [[[('Id', c0)]], [[('Sz', c1)]], [[('Sm', c2)]], [[('Sp', c2)]]]        # closes it: 4 -> 1
    grids = [row, col] if parity == 0 else [col, row]
    return MPO.from_grids([site] * 2, grids, 'infinite', 0, 0, max_range=1, mps_unit_cell_width=2)


def run_iapply(case, npz):
    from tenpy.networks.mps import MPS
    rec = Rec()
    out = rec.out
    site = make_site(case['site'])
    L = 2
    sites = [site] * L
    common_head(dict(case, L=L), rec, sites)
    rng = np.random.default_rng(case['seed'])
    Lp = case['psi_L']
    psi = make_psi([site] * Lp, case['state'], 'infinite', rng, out)
    out['layers'] = []
    obs = case['obs']
    for q, (theta, parity, meth) in enumerate(case['layers']):
        o = {}
        out['layers'].append(o)

        def go(theta=theta, parity=parity, meth=meth, o=o, q=q):
            U = gate_mpo(site, L, theta, parity)
            if Lp != L:
                U.enlarge_mps_unit_cell(Lp // L)            # (MPO.apply requires equal unit cells)
            U.test_sanity()
            o['U_meta'] = meta(U)
            rec.mats['U/%d' % q] = dense_any(U, 2, first=parity)        # the two-site gate itself
            if meth['method'] == 'naive':
                U.apply_naively(psi)
                psi.canonical_form()
                o['eps'] = None
            else:
                opts = {'compression_method': meth['method'], 'trunc_params': dict(meth['trunc_params'])}
                for k_ in ('max_sweeps', 'min_sweeps', 'start_env_sites', 'tol_theta_diff'):
                    if k_ in meth:
                        opts[k_] = meth[k_]
                err = U.apply(psi, opts)
                o['eps'] = float(err.eps)
            o['chi'] = [int(x) for x in psi.chi]
            o['norm_err'] = float(np.linalg.norm(psi.norm_test()))
            o['obs'] = {name: [cnum(x) for x in np.atleast_1d(psi.expectation_value(name))] for name in obs}
            o['corr'] = cnum(psi.expectation_value_term([('Sz', 0), ('Sz', 1)]))
        rec.run('layer:%d' % q, go)
    np.savez(npz, **rec.mats)
    out['errors'] = rec.errors
    out['npz'] = npz
    return out


# ------------------------------------------------------------------------------------------
# sub 'ienv': environments / transfer matrix of infinite MPS (entangled states)
# ------------------------------------------------------------------------------------------
def run_ienv(case, npz):
    from tenpy.networks.mpo import MPOEnvironment, MPOTransferMatrix, MPOEnvironmentBuilder
    rec = Rec()
    out = rec.out
    L = case['L']
    site = make_site(case['site'])
    sites = [site] * L
    common_head(case, rec, sites)
    rng = np.random.default_rng(case['seed'])
    H = build_operand(sites, case['A'], 'infinite')
    out['meta'] = meta(H)
    rec.mats['W/H'] = dense_any(H, case['N'])
    Lp = case['psi_L']
    psi = make_psi([site] * Lp, case['state'], 'infinite', rng, out)
    if case.get('entangle'):
        entangle(psi, case['seed'], case['entangle'])
    out['psi_chi'] = [int(x) for x in psi.chi]
    per = int(np.lcm(L, Lp))
    out['period'] = per
    # reduced state of a window (canonical form: theta with the singular values on both ends)
    n_th = per + case['reach']
    rec.mats['theta'] = dense_state_any(psi, 0, n_th)
    out['n_theta'] = n_th
    for nm, kw in (('expectation_value', {}), ('expectation_value_TM', {}), ('expectation_value_power', {}),
                   ('expectation_value_power_tol', {'tol': 1e-6, 'max_range': 50})):
        def ev(nm=nm, kw=kw):
            f = getattr(H, nm.replace('_tol', ''))
            out[nm] = cnum(f(psi, **kw))
        rec.run(nm, ev)
    envs = {}
    for meth in ('iter', 'TM', None):
        if meth == 'iter' and Lp != L:
            continue            # (asserted precondition of MPOEnvironmentBuilder: equal unit cells)

        def mk(meth=meth):
            env = MPOEnvironment(psi, H, psi, force_init_method=meth)
            envs[str(meth)] = env
            out['full_contraction/' + str(meth)] = [cnum(env.full_contraction(i)) for i in range(per)]
        rec.run('MPOEnvironment:' + str(meth), mk)
    k = case['start_env_sites']

    def mk_start():
        env = MPOEnvironment(psi, H, psi, start_env_sites=k)
        out['full_contraction/start'] = cnum(env.full_contraction(0))
        rec.mats['theta_start'] = dense_state_any(psi, -k, per + 2 * k)
    rec.run('MPOEnvironment:start_env_sites', mk_start)

    def tm():
        data, Es, E0 = MPOTransferMatrix.find_init_LP_RP(H, psi, calc_E=True)
        out['TM_Es'] = [cnum(x) for x in Es]
        out['TM_E0'] = cnum(E0)
        out['TM_guess'] = cnum(H.expectation_value_TM(psi, init_env_data=data))
        data2 = MPOTransferMatrix.find_init_LP_RP(H, psi, guess_init_env_data=data, _subtraction_gauge='trace')
        env = MPOEnvironment(psi, H, psi, **data2)
        v = [env.full_contraction(i) for i in range(per)]
        out['full_contraction_diff/trace_gauge'] = [cnum(v[i + 1] - v[i]) for i in range(per - 1)]
    rec.run('MPOTransferMatrix', tm)

    def it():
        b = MPOEnvironmentBuilder(H, psi)
        data, envs_, Es = b.init_LP_RP_iterative('both', calc_E=True)
        out['iter_Es'] = [cnum(x) for x in Es]
    if Lp == L:
        rec.run('MPOEnvironmentBuilder', it)

    def ied():
        # documented option of expectation_value: "init_env_data : dict  Optional environment data, if known."
        data = envs['None'].get_initialization_data() if 'None' in envs else MPOEnvironment(psi, H, psi).get_initialization_data()
        try:
            out['expectation_value_init_env_data'] = cnum(H.expectation_value(psi, init_env_data=data))
        except TypeError as e:
            out['expectation_value_init_env_data_raises'] = 'TypeError: ' + str(e)[:150]
    rec.run('expectation_value:init_env_data', ied)

    def badguess():
        # a guess with incompatible MPO legs (environments of H + H): documented to be dropped with a warning
        data2 = MPOTransferMatrix.find_init_LP_RP(H + H, psi)
        out['TM_badguess'] = cnum(H.expectation_value_TM(psi, init_env_data=data2))
    rec.run('expectation_value_TM:incompatible-guess', badguess)

    def noncanon():
        # the same state in a non-canonical gauge (B0 -> B0 D, B1 -> D^-1 B1): the routines re-canonicalise a copy / warn and canonicalise
        p2 = psi.copy()
        if max(p2.chi) > 1 and p2.L >= 2:
            B0, B1 = p2.get_B(0, 'B'), p2.get_B(1, 'B')
            dd = rng.uniform(0.5, 2.0, size=B0.get_leg('vR').ind_len)
            p2.set_B(0, B0.scale_axis(dd, 'vR'), 'B')
            p2.set_B(1, B1.scale_axis(1. / dd, 'vL'), 'B')
            out['noncanonical_norm_err'] = float(np.linalg.norm(p2.norm_test()))
            out['expectation_value_TM_noncanonical'] = cnum(H.expectation_value_TM(p2))
            env = MPOEnvironment(p2, H, p2, force_init_method='TM')
            out['full_contraction/noncanonical'] = [cnum(env.full_contraction(i)) for i in range(per)]
    rec.run('noncanonical', noncanon)

    def graph_reuse():
        # H carries the graph / ordering built by the iterative initialisation: second call on the same object, then
        # sort_legcharges and enlarge_mps_unit_cell, which must carry the graph along
        es = lambda H_, p_: [cnum(x) for x in MPOEnvironmentBuilder(H_, p_).init_LP_RP_iterative('both', calc_E=True)[2]]
        out['iter_Es_second'] = es(H, psi)
        out['had_graph'] = H._graph is not None
        H.sort_legcharges()
        rec.mats['W/H_sorted'] = dense_any(H, case['N'])
        out['iter_Es_sorted'] = es(H, psi)
        out['expectation_value_sorted'] = cnum(H.expectation_value(psi))
        H.enlarge_mps_unit_cell(2)
        p2 = psi.copy()
        p2.enlarge_mps_unit_cell(2)
        out['iter_Es_enlarged'] = es(H, p2)
    if Lp == L and case.get('graph_reuse'):
        rec.run('graph_reuse', graph_reuse)
    np.savez(npz, **rec.mats)
    out['errors'] = rec.errors
    out['npz'] = npz
    return out


# ------------------------------------------------------------------------------------------
# sub 'opts': documented options and refusals of single routines
# ------------------------------------------------------------------------------------------
def run_opts(case, npz):
    from tenpy.networks.mpo import MPO, MPOTransferMatrix
    from tenpy.networks.mps import MPS
    rec = Rec()
    out = rec.out
    L = case['L']
    site = make_site(case['site'])
    sites = [site] * L
    common_head(case, rec, sites)
    rng = np.random.default_rng(case['seed'])
    var = case['variant']
    if var == 'refusals':
        Hf = build_from_terms(sites, case['terms'], 'finite')
        Hi = build_from_terms(sites, case['terms_inf'], 'infinite')
        Hflag = I.with_range(build_from_terms(sites, case['terms'], 'finite'), 'known', 'ctor', plus_hc=True)
        pf = I.random_state(sites, {'kind': 'product'}, rng)
        pi_ = make_psi(sites, {}, 'infinite', rng, {})
        big = {'chi_max': 50}
        from tenpy.networks.mpo import MPOEnvironment
        pf2 = I.random_state(sites[:-1], {'kind': 'product'}, rng)
        Hnomark = MPO(sites, [Hi.get_W(i) for i in range(L)], 'infinite', None, None, mps_unit_cell_width=L)
        Hnomark_f = MPO(sites, [Hf.get_W(i) for i in range(L)], 'finite', None, None, mps_unit_cell_width=L)

        def evo3():
            from tenpy.models.model import MPOModel
            from tenpy.models.lattice import Chain
            from tenpy.algorithms.mpo_evolution import ExpMPOEvolution
            M = MPOModel(Chain(L, site, bc='open', bc_MPS='finite'), Hf)
            return ExpMPOEvolution(pf.copy(), M, {'dt': 0.1, 'N_steps': 1, 'order': 3, 'compression_method': 'SVD', 'trunc_params': big}).run()
        Wf = [Hf.get_W(i).itranspose(['p', 'p*', 'wL', 'wR']).to_ndarray() for i in range(L)]
        calls = {
            'make_U:unknown-approximation': lambda: Hf.make_U(0.1, 'III'),
            'make_U_I:explicit_plus_hc': lambda: Hflag.make_U_I(0.1),
            'make_U_II:explicit_plus_hc': lambda: Hflag.make_U_II(0.1),
            'variance:explicit_plus_hc': lambda: Hflag.variance(pf),
            'variance:infinite': lambda: Hi.variance(pi_),
            'plus_identity:infinite': lambda: Hi.plus_identity(1., 1.),
            'plus_identity:explicit_plus_hc': lambda: Hflag.plus_identity(1., 1.),
            'plus_identity:sites-outside': lambda: Hf.plus_identity(1., 1., sites=[L]),
            'plus_identity:sites-non-contiguous': lambda: Hf.plus_identity(1., 1., sites=[0, 2]),
            'apply:unknown-method': lambda: Hf.apply(pf.copy(), {'compression_method': 'nope', 'trunc_params': big}),
            'apply_naively:bc-mismatch': lambda: Hi.apply_naively(pf.copy()),
            'apply_naively:explicit_plus_hc': lambda: Hflag.apply_naively(pf.copy()),
            'apply_zipup:infinite': lambda: Hi.apply_zipup(pi_.copy(), {'trunc_params': big}),
            'apply_zipup:explicit_plus_hc': lambda: Hflag.apply_zipup(pf.copy(), {'trunc_params': big}),
            'overlap:finite-vs-infinite': lambda: Hf.overlap(Hi),
            'add:different-flags': lambda: Hf + Hflag,
            'from_Wflat:wrong-length': lambda: MPO.from_Wflat(sites, Wf[:-1], 'finite', IdL=list(Hf.IdL), IdR=list(Hf.IdR)),
            'MPO:IdL-wrong-length': lambda: MPO(sites, [Hf.get_W(i) for i in range(L)], 'finite', [0] * L, list(Hf.IdR), mps_unit_cell_width=L),
            'expectation_value_TM:finite-psi': lambda: Hi.expectation_value_TM(pf),
            'expectation_value_power:finite-psi': lambda: Hi.expectation_value_power(pf),
            'enlarge_mps_unit_cell:factor-1': lambda: Hi.copy().enlarge_mps_unit_cell(1),
            'enlarge_mps_unit_cell:non-integer': lambda: Hi.copy().enlarge_mps_unit_cell(1.5),
            'enlarge_mps_unit_cell:finite': lambda: Hf.copy().enlarge_mps_unit_cell(2),
            'MPOTransferMatrix:finite': lambda: MPOTransferMatrix(Hf, pf),
            'variance:L-mismatch': lambda: Hf.variance(pf2),
            'apply_naively:L-mismatch': lambda: Hf.apply_naively(pf2.copy()),
            'apply_zipup:L-mismatch': lambda: Hf.apply_zipup(pf2.copy(), {'trunc_params': big}),
            'apply_zipup:bc-mismatch': lambda: Hi.apply_zipup(pf.copy(), {'trunc_params': big}),
            'MPOTransferMatrix:no-markers': lambda: MPOTransferMatrix(Hnomark, pi_),
            'MPOEnvironment:no-IdL-marker': lambda: MPOEnvironment(pf, Hnomark_f, pf),
            'ExpMPOEvolution:order-3': lambda: evo3(),
        }
        out['refusals'] = {}
        for nm, f in calls.items():
            try:
                res = f()
                out['refusals'][nm] = 'returned ' + type(res).__name__
            except Exception as e:
                out['refusals'][nm] = type(e).__name__
    elif var == 'expdecay':
        # H = sum_{i<j} lam^(j-i-1) a_i b_j + h: infinite range, given by grids (max_range None / inf)
        lam = case['lam']
        grid = [[('str', 'Id'), ('list', [[case['opa'], [1.0, 0.0]]]), ('list', [[case['oph'], case['h']]])],
                [None, ('list', [['Id', [lam, 0.0]]]), ('str', case['opb'])],
                [None, None, ('str', 'Id')]]
        grids = [[[grid_entry(site, e) for e in row] for row in grid] for _ in range(L)]
        mrange = {'none': None, 'inf': np.inf}[case['range']]
        H = MPO.from_grids(sites, grids, 'infinite', 0, -1, max_range=mrange, mps_unit_cell_width=L)
        out['meta'] = meta(H)
        psi = make_psi([site] * case['psi_L'], case['state'], 'infinite', rng, out)
        for nm, f in (('expectation_value', lambda: H.expectation_value(psi)), ('expectation_value_TM', lambda: H.expectation_value_TM(psi)),
                      ('expectation_value_power', lambda: H.expectation_value_power(psi, tol=1e-12, max_range=400 // L))):
            rec.run(nm, lambda nm=nm, f=f: out.__setitem__(nm, cnum(f())))

        def short():
            with warnings.catch_warnings(record=True) as wl:
                warnings.simplefilter('always')
                out['power_short'] = cnum(H.expectation_value_power(psi, tol=1e-12, max_range=case['short']))
                out['power_short_warned'] = any('not reached' in str(w_.message) for w_ in wl)
        rec.run('expectation_value_power:short', short)
        rec.run('is_hermitian', lambda: out.__setitem__('is_hermitian', bool(H.is_hermitian())))

        def ttl():
            tl = H.to_TermList(I.BASIS[case['site']['type']], max_range=case['ttl_range'], cutoff=case['cutoff'], ignore=['Id'])
            out['to_TermList'] = [[[[op, int(i)] for op, i in t], cnum(s_)] for t, s_ in zip(tl.terms, tl.strength)]
        rec.run('to_TermList', ttl)
        rec.run('prefactor', lambda: out.__setitem__('prefactor', [cnum(H.prefactor(i, ops)) for i, ops in case['prefactors']]))
    elif var == 'single_site':
        # boundary of the quantifier: a finite chain of ONE site (first and last site coincide)
        H = build_operand(sites, case['A'], 'finite')
        out['meta'] = meta(H)
        rec.mats['W/H'] = dense_any(H, 1)
        psi = I.random_state(sites, {'kind': 'product'}, rng)
        rec.mats['psi'] = I.dense_state(psi)
        rec.run('expectation_value', lambda: out.__setitem__('expectation_value', cnum(H.expectation_value(psi))))
        rec.run('variance', lambda: out.__setitem__('variance', cnum(H.variance(psi))))
        rec.run('dagger', lambda: rec.mats.__setitem__('W/dagger', dense_any(H.dagger(), 1)))
        rec.run('add', lambda: rec.mats.__setitem__('W/add', dense_any(H + H.dagger(), 1)))
        rec.run('is_hermitian', lambda: out.__setitem__('is_hermitian', bool(H.is_hermitian())))
        rec.run('is_equal', lambda: out.__setitem__('is_equal', [bool(H.is_equal(H.dagger())), bool(H.is_equal(H + H)), bool((H + H).is_equal(H + H))]))
        rec.run('overlap', lambda: out.__setitem__('overlap', cnum(H.overlap(H.dagger()))))

        def ttl():
            tl = H.to_TermList(I.BASIS[case['site']['type']], ignore=['Id'])
            out['to_TermList'] = [[[[op, int(i)] for op, i in t], cnum(s_)] for t, s_ in zip(tl.terms, tl.strength)]
        rec.run('to_TermList', ttl)
        for which in ('I', 'II'):
            for q, dt in enumerate(case['dts']):
                rec.run('make_U_%s:%d' % (which, q), lambda which=which, q=q, dt=dt: rec.mats.__setitem__('U/%s/%d' % (which, q), dense_any(H.make_U(cplx(dt), which), 1)))
        try:
            rec.mats['W/plus_identity'] = dense_any(H.plus_identity(cplx(case['alpha']), cplx(case['beta'])), 1)
        except ValueError as e:
            out['plus_identity_raises'] = 'ValueError: ' + str(e)[:100]
        out['apply'] = {}
        for meth in ('naive', 'SVD', 'zip_up'):
            def ap(meth=meth):
                p2 = psi.copy()
                if meth == 'naive':
                    H.apply_naively(p2)
                else:
                    H.apply(p2, {'compression_method': meth, 'trunc_params': {'chi_max': 10}})
                out['apply'][meth] = {'chi_outer': [int(p2.get_B(0).get_leg('vL').ind_len), int(p2.get_B(0).get_leg('vR').ind_len)]}
                B = p2.get_B(0, form=None).itranspose(['vL', 'p', 'vR']).to_ndarray()
                rec.mats['apply/' + meth] = B.reshape(-1) * p2.norm
            rec.run('apply:' + meth, ap)
    elif var == 'is_equal_eps':
        bc = case['bc']
        A = build_from_terms(sites, case['terms'], bc)
        B = build_from_terms(sites, case['terms_b'], bc)
        rec.mats['W/A'] = dense_any(A, case['N'])
        rec.mats['W/B'] = dense_any(B, case['N'])
        out['meta'] = [meta(A), meta(B)]
        out['is_equal'] = {}
        for eps in case['eps']:
            rec.run('is_equal:%g' % eps, lambda eps=eps: out['is_equal'].__setitem__('%g' % eps, [bool(A.is_equal(B, eps=eps)), bool(B.is_equal(A, eps))]))
        out['is_hermitian'] = {}
        for eps in case['eps']:
            rec.run('is_hermitian:%g' % eps, lambda eps=eps: out['is_hermitian'].__setitem__('%g' % eps, bool(B.is_hermitian(eps=eps))))

        def ttl():
            tl = A.to_TermList(I.BASIS[case['site']['type']])         # default `ignore`
            out['to_TermList_default'] = [[[[op, int(i)] for op, i in t], cnum(s_)] for t, s_ in zip(tl.terms, tl.strength)]
            st_ = case['start'] if len(case['start']) > 1 else case['start'][0]         # (documented: "(list of) int")
            tl = A.to_TermList(I.BASIS[case['site']['type']], start=st_, ignore=['Id'])
            out['to_TermList_start'] = [[[[op, int(i)] for op, i in t], cnum(s_)] for t, s_ in zip(tl.terms, tl.strength)]
            tl = A.to_TermList(I.BASIS[case['site']['type']], cutoff=case['cutoff'], ignore=['Id'])
            out['to_TermList_cutoff'] = [[[[op, int(i)] for op, i in t], cnum(s_)] for t, s_ in zip(tl.terms, tl.strength)]
        rec.run('to_TermList', ttl)
    np.savez(npz, **rec.mats)
    out['errors'] = rec.errors
    out['npz'] = npz
    return out


def run_ext(case, npz):
    import time
    t0 = time.time()
    out = globals()['run_' + case['sub']](case, npz)
    out['secs'] = round(time.time() - t0, 3)
    return out
