"""Runs tenpy.linalg.krylov_based / sparse on the cases of harness/c16.py (fresh interpreter).
The Lanczos runs are instrumented from outside (H.matvec, iadd_prefactor_other, iscale_prefactor,
_to_cache, _result_krylov) to record which Krylov vector is combined with which coefficient."""
import json
import os
import sys
import traceback
import warnings

import numpy as np

warnings.simplefilter('ignore')
sys.path.insert(0, os.path.join(os.environ.get('VERIF_DIR', '/verif'), 'harness'))
import c16_gen as G  # noqa: E402
import c16x_impl as X  # noqa: E402


def make_leg(npc, leg):
    mods = leg['mods']
    chinfo = npc.ChargeInfo(list(mods))
    sizes = leg['sizes']
    ch = np.array(leg['charges'], dtype=int).reshape(len(sizes), len(mods))
    if mods:
        ch = chinfo.make_valid(ch)
    return npc.LegCharge.from_qind(chinfo, np.cumsum([0] + sizes), ch, leg['qconj'])


def to_npc_vec(npc, v, leg, cplx, sector=None):
    qtotal = None
    if sector is not None:
        qtotal = leg.get_charge(sector)       # charge of the block `sector` (including qconj)
    v = np.asarray(v)
    a = npc.Array.from_ndarray(np.asarray(v if cplx else v.real, dtype=complex if cplx else float), [leg], labels=['v'],
                               cutoff=0., qtotal=qtotal)
    return a


def to_npc_op(npc, M, leg):
    return npc.Array.from_ndarray(M, [leg, leg.conj()], labels=['v', 'v*'], cutoff=0.)


class TF(float):
    pass


class TC(complex):
    pass


class TaggedVec:
    """stands in for _result_krylov during _calc_result_full: indexing returns tagged scalars."""

    def __init__(self, a):
        self.a = np.asarray(a)

    def __len__(self):
        return len(self.a)

    def __getitem__(self, k):
        x = self.a[k]
        k = int(k)
        if k < 0:
            k += len(self.a)
        t = TC(x) if np.iscomplexobj(x) else TF(x)
        t.idx = k
        return t


class TracedOp:
    def __init__(self, op, tr):
        self.op = op
        self.tr = tr

    def matvec(self, vec):
        k = self.tr.index(vec)
        out = self.op.matvec(vec)
        self.tr.register(out, k + 1)
        self.tr.ev.append(['mv', k])
        return out


class Tracer:
    def __init__(self, lan):
        self.lan = lan
        self.ids = {}
        self.keep = []
        self.ev = []
        self.register(lan.psi0, 0)
        lan.H = TracedOp(lan.H, self)
        orig_to_cache = lan._to_cache
        orig_full = lan._calc_result_full
        # ---- accesses to the small matrix h = _h_krylov, in program order with the other events
        self.hlog_on = True
        self.hvals = {}
        self.hproblems = []
        self.h_root = None
        tracer = self

        class LoggedH(np.ndarray):
            def __setitem__(s, key, val):
                if s is tracer.h_root and tracer.hlog_on:
                    tracer.h_set(key, val)
                np.ndarray.__setitem__(s, key, val)

            def __getitem__(s, key):
                out = np.ndarray.__getitem__(s, key)
                if s is tracer.h_root and tracer.hlog_on:
                    out = tracer.h_get(key, out)
                return out
        self.h_root = lan._h_krylov.view(LoggedH)
        lan._h_krylov = self.h_root
        orig_conv = lan._converged

        def conv(k):
            self.ev.append(['cv', int(k)])
            return orig_conv(k)
        lan._converged = conv

        def to_cache(psi):
            orig_to_cache(psi)
            c = lan._cache
            self.ev.append(['ca', self.index(psi), len(c), self.index(c[0]), [self.index(x) for x in c]])

        def iadd(w, alpha, v):
            self.ev.append(['ax', self.index(w), self.index(v), getattr(alpha, 'idx', None),
                            [float(np.real(alpha)), float(np.imag(alpha))]])
            type(lan).iadd_prefactor_other(lan, w, alpha, v)

        def iscale(w, s):
            self.ev.append(['sc', self.index(w)])
            type(lan).iscale_prefactor(lan, w, s)

        def full(N):
            import tenpy.linalg.np_conserved as npc
            lan._result_krylov = TaggedVec(lan._result_krylov)
            tracer = self

            class TracedArray(npc.Array):
                def __mul__(s, other):
                    if hasattr(other, 'idx'):
                        tracer.ev.append(['mul', other.idx, tracer.index(s)])
                    return npc.Array.__mul__(s, other)
            lan.psi0.__class__ = TracedArray
            try:
                return orig_full(N)
            finally:
                lan.psi0.__class__ = npc.Array
        lan._to_cache = to_cache
        lan.iadd_prefactor_other = iadd
        lan.iscale_prefactor = iscale
        lan._calc_result_full = full

    def register(self, obj, k):
        self.ids[id(obj)] = k
        self.keep.append(obj)

    @staticmethod
    def _int2(key):
        return isinstance(key, tuple) and len(key) == 2 and all(isinstance(x, (int, np.integer)) for x in key)

    def h_set(self, key, val):
        if not self._int2(key):
            self.hproblems.append('h written with key %r' % (key,))
            return
        i, j = int(key[0]), int(key[1])
        self.ev.append(['hw', i, j])
        self.hvals[(i, j)] = float(np.real(val))

    def h_get(self, key, out):
        if self._int2(key):
            i, j = int(key[0]), int(key[1])
            self.ev.append(['hr', i, j])
            if (i, j) not in self.hvals:
                self.hproblems.append('h[%d,%d] read before it was written' % (i, j))
            elif float(out) != self.hvals[(i, j)]:
                self.hproblems.append('h[%d,%d] read: not the value written' % (i, j))
            return out
        if isinstance(key, tuple) and len(key) == 2 and all(isinstance(x, slice) for x in key) and \
                all(x.start is None and x.step is None and isinstance(x.stop, (int, np.integer)) for x in key) and \
                key[0].stop == key[1].stop:
            n = int(key[0].stop)
            self.ev.append(['hrb', n])
            # the block that is diagonalised: symmetric tridiagonal, every band entry written before, nothing else
            expect = np.zeros([n, n])
            for i in range(n):
                for j in range(max(0, i - 1), min(n, i + 2)):
                    if (i, j) not in self.hvals:
                        self.hproblems.append('block h[:%d,:%d] read before h[%d,%d] was written' % (n, n, i, j))
                    else:
                        expect[i, j] = self.hvals[(i, j)]
            blk = np.asarray(out)
            if blk.shape != (n, n) or not np.array_equal(blk, expect) or not np.array_equal(expect, expect.T):
                self.hproblems.append('block h[:%d,:%d] is not the symmetric tridiagonal matrix of the written alpha/beta' % (n, n))
            return out.view(np.ndarray)
        self.hproblems.append('h read with key %r' % (key,))
        return out

    def index(self, obj):
        return self.ids.get(id(obj), -1)

    def events(self, reortho):
        """canonical (tag, a, b, c) events and the (coef, vector) terms of the result."""
        self.hlog_on = False
        h = np.asarray(self.lan._h_krylov)
        out = []
        terms = []
        problems = []
        self.hout = []
        self.cv_calls = []
        hcode = {'hw': 7, 'hrb': 8, 'hr': 9}
        for e in self.ev:
            n_before = len(out)
            self._one_event(e, h, reortho, out, terms, problems)
            self.hout += out[n_before:]
            if e[0] in hcode:
                self.hout.append([hcode[e[0]]] + (list(e[1:]) + [0, 0, 0])[:3])
            elif e[0] == 'cv':
                self.cv_calls.append(e[1])
        return out, terms, problems

    def _one_event(self, e, h, reortho, out, terms, problems):
        if True:
            if e[0] == 'sc':
                out.append([0, e[1], 0, 0] if e[1] >= 0 else [5, 0, 0, 0])
            elif e[0] == 'ca':
                out.append([1, e[1], e[2], e[3]])
                if e[4] != list(range(e[4][0], e[4][0] + len(e[4]))) or e[4][-1] != e[1]:
                    problems.append('cache content %s after caching v_%d' % (e[4], e[1]))
            elif e[0] == 'mv':
                out.append([2, e[1], 0, 0])
            elif e[0] == 'mul':
                out.append([6, e[1] if e[1] is not None else 999, e[2], 0])
                terms.append([e[1] if e[1] is not None else 999, e[2]])
            elif e[0] == 'ax':
                _, t, v, ci, (ar, ai) = e
                if t == -1:          # target psif
                    out.append([4, ci if ci is not None else 999, v, 0])
                    terms.append([ci if ci is not None else 999, v])
                else:
                    if v < 0:
                        cls = 8
                    elif v == t - 1:
                        cls = 0 if (ai == 0 and ar == -h[v, v].real) else 9
                    elif reortho:
                        cls = 2
                    else:
                        cls = 1 if (ai == 0 and ar == -h[v, v + 1].real) else 9
                    out.append([3, t, v, cls])


def build_operator(npc, sparse, case, M, leg):
    """returns (operator given to the solver, description of the dense matrix it should represent)."""
    H = to_npc_op(npc, M, leg)
    wrap = case.get('wrap')
    if wrap == 'shift':
        return sparse.ShiftNpcLinearOperator(H, case['wrap_shift'])
    if wrap == 'sum':
        M2 = G.dense_operator(dict(case['spec'], seed=case['spec']['seed'] + 5))
        return sparse.SumNpcLinearOperator(H, to_npc_op(npc, M2, leg))
    if wrap == 'ortho':
        ovs = G.extra_vectors(case['spec'], M, case['n_ortho'], tag=2)
        if case.get('ortho_dependent') and len(ovs) > 1:
            ovs[1] = 2.0 * ovs[0]
        ovn = [to_npc_vec(npc, o, leg, case['spec']['cplx']) for o in ovs]
        return sparse.OrthogonalNpcLinearOperator(H, ovn)
    if wrap == 'tree':
        return X.build_tree(npc, sparse, case['spec'], case['tree'], leg)
    return H


def vec_out(a):
    return G.enc(a.to_ndarray())


def run_lanczos(case):
    import tenpy.linalg.np_conserved as npc
    from tenpy.linalg import krylov_based, sparse
    spec = case['spec']
    M = G.dense_operator(spec)
    leg = make_leg(npc, spec['leg'])
    v0 = G.dec(case['v0']) if 'v0' in case else G.start_vector(spec, M)
    if not spec['cplx']:
        v0 = v0.real
    opts = {k: v for k, v in case['opts'].items() if v is not None}
    evo = case.get('evo')
    out = {}

    psi0_cplx = bool(spec['cplx'] and not (case.get('real_psi0') and np.all(v0.imag == 0)))

    def as_delta(d, how):
        if how == 'complex':
            return complex(*d)
        if how == 'numpy':
            return np.complex128(complex(*d)) if d[1] != 0 else np.float64(d[0])
        return complex(*d) if d[1] != 0 else d[0]

    def one(options, trace):
        op = build_operator(npc, sparse, case, M, leg)
        psi0 = to_npc_vec(npc, v0, leg, psi0_cplx)
        psi0_before = psi0.to_ndarray().copy()
        if evo is None:
            lan = krylov_based.LanczosGroundState(op, psi0, dict(options))
        else:
            lan = krylov_based.LanczosEvolution(op, psi0, dict(options))
        tr = Tracer(lan) if trace else None
        if evo is None:
            E, psi, N = lan.run()
        else:
            if evo.get('normalize_kw', True):
                psi, N = lan.run(as_delta(evo['delta'], evo.get('delta_as')), evo['normalize'])
            else:
                psi, N = lan.run(as_delta(evo['delta'], evo.get('delta_as')))      # the documented default of `normalize`
            E = 0.
        if tr is not None:
            tr.hlog_on = False
        r = {'E': float(np.real(E)), 'psi': vec_out(psi), 'N': int(N), 'qtotal_ok': bool(np.all(psi.qtotal == psi0.qtotal)),
             'alpha': [float(lan._h_krylov[k, k].real) for k in range(N)],
             'beta': [float(lan._h_krylov[k, k + 1].real) for k in range(N)],
             'psi0_untouched': bool(np.array_equal(psi0.to_ndarray(), psi0_before) and psi0.dtype == psi0_before.dtype),
             'psi_norm_obj': float(npc.norm(psi))}
        if evo is None and case.get('rerun_same') and not trace:
            # a second run() of the same solver object
            try:
                E2, psi2, N2 = lan.run()
                r['rerun_same'] = {'E': float(np.real(E2)), 'psi': vec_out(psi2), 'N': int(N2)}
            except Exception as e:
                r['rerun_same'] = {'error': type(e).__name__ + ': ' + str(e)[:200]}
        if trace:
            evs, terms, problems = tr.events(bool(options.get('reortho', False)))
            r['events'] = evs
            r['terms'] = terms
            r['trace_problems'] = problems + tr.hproblems
            r['hevents'] = tr.hout
            # cv[k]: LanczosGroundState._converged(k) (which reads h[k,k+1]) was called; LanczosEvolution._converged does not read h
            r['cv'] = [bool(evo is None and k in tr.cv_calls) for k in range(int(N))]
        if evo is not None and case.get('rerun'):
            d2 = case['rerun']
            psi2, N2 = lan.run(as_delta(d2, evo.get('delta_as')), evo['normalize'])
            r['rerun'] = {'psi': vec_out(psi2), 'N': int(N2)}
        return r
    try:
        out['plain'] = one(opts, False)
    except Exception as e:
        return {'error': type(e).__name__ + ': ' + str(e)[:200]}
    out['traced'] = one(opts, True)
    if 'N_cache' in opts:
        o2 = dict(opts)
        del o2['N_cache']
        out['allcache'] = one(o2, False)
    if case.get('twice') and evo is None:
        # the same operator object used for two solver instances (E_shift must not accumulate)
        op = build_operator(npc, sparse, case, M, leg)
        res = []
        for _ in range(2):
            psi0 = to_npc_vec(npc, v0, leg, psi0_cplx)
            E, psi, N = krylov_based.LanczosGroundState(op, psi0, dict(opts)).run()
            res.append({'E': float(np.real(E)), 'psi': vec_out(psi), 'N': int(N)})
        out['twice'] = res
    return out


def run_arnoldi(case):
    import tenpy.linalg.np_conserved as npc
    from tenpy.linalg import krylov_based, sparse
    spec = case['spec']
    M = G.dense_operator(spec)
    leg = make_leg(npc, spec['leg'])
    v0 = G.dec(case['v0']) if 'v0' in case else G.start_vector(spec, M)
    if not spec['cplx']:
        v0 = v0.real
    opts = {k: v for k, v in case['opts'].items() if v is not None}
    op = build_operator(npc, sparse, case, M, leg)
    psi0 = to_npc_vec(npc, v0, leg, bool(spec['cplx'] or np.any(np.asarray(v0).imag != 0)))
    psi0_before = psi0.to_ndarray().copy()
    try:
        if case.get('evo') is None:
            eng = krylov_based.Arnoldi(op, psi0, dict(opts))
            Es, psis, N = eng.run()
            out = {'Es': G.enc(np.asarray(Es, dtype=complex)), 'psis': [vec_out(p) for p in psis], 'N': int(N),
                   'psi0_untouched': bool(np.array_equal(psi0.to_ndarray(), psi0_before)),
                   'qtotal_ok': bool(all(np.all(p.qtotal == psi0.qtotal) for p in psis))}
            if case.get('rerun_same'):
                try:
                    Es2, psis2, N2 = eng.run()
                    out['rerun_same'] = {'Es': G.enc(np.asarray(Es2, dtype=complex)), 'psis': [vec_out(p) for p in psis2], 'N': int(N2)}
                except Exception as e:
                    out['rerun_same'] = {'error': type(e).__name__ + ': ' + str(e)[:200]}
            return out
        evo = case['evo']
        eng = krylov_based.ArnoldiEvolution(op, psi0, dict(opts))
        res = []
        for d in evo['deltas']:
            delta = complex(*d) if (d[1] != 0 or evo.get('delta_as') == 'complex') else d[0]
            if evo.get('normalize_kw', True):
                psi, N = eng.run(delta, evo['normalize'])
            else:
                psi, N = eng.run(delta)
            res.append({'psi': vec_out(psi), 'N': int(N)})
        return {'runs': res}
    except Exception as e:
        return {'error': type(e).__name__ + ': ' + str(e)[:200], 'tb': traceback.format_exc()[-600:]}


def run_gmres(case):
    import tenpy.linalg.np_conserved as npc
    from tenpy.linalg import krylov_based
    spec = case['spec']
    M = G.dense_operator(spec)
    n = M.shape[0]
    M = M + case['diag_shift'] * np.eye(n)
    leg = make_leg(npc, spec['leg'])
    b = G.start_vector(spec, M)
    x0 = G.extra_vectors(spec, M, 1, tag=3)[0] * case['x0_scale']
    A = to_npc_op(npc, M.astype(complex), leg)
    if case.get('A_wrap'):
        from tenpy.linalg import sparse
        A = sparse.ShiftNpcLinearOperator(to_npc_op(npc, (M - case['diag_shift'] * np.eye(n)).astype(complex), leg), case['diag_shift'])
    opts = {k: v for k, v in case['opts'].items() if v is not None}
    try:
        x, res, total_error, iters = krylov_based.GMRES(A, to_npc_vec(npc, x0, leg, True, spec['sector']), to_npc_vec(npc, b, leg, True, spec['sector']),
                                                        dict(opts)).run()
    except Exception as e:
        return {'error': type(e).__name__ + ': ' + str(e)[:200], 'tb': traceback.format_exc()[-600:]}
    return {'x': vec_out(x), 'res': float(res), 'total_error': [[float(np.real(e)) for e in te] for te in total_error],
            'iters': [int(i) for i in iters]}


class CountingOp:
    """stands in for A: logs every matvec call as an event of Model/KrylovGmres.v (which vector, in which phase)."""

    def __init__(self, A, ev):
        self.A = A
        self.ev = ev
        self.sol = None
        self.in_reset = False

    def matvec(self, v):
        sol = self.sol
        if sol is None:                       # GMRES.__init__: residual of the initial guess
            self.ev.append([14, 0, 0, 0])
        elif self.in_reset:                   # residual of the current x for the next cycle
            self.ev.append([14 if v is sol.x else 99, len(sol.total_iters), 0, 0])
        elif v is sol.qs[-1]:                 # Arnoldi step k of cycle c on len(qs) Krylov vectors
            self.ev.append([11, len(sol.total_iters), len(sol.total_error[-1]) - 1, len(sol.qs)])
        elif v is sol.x:                      # the returned residual
            self.ev.append([15, 0, 0, 0])
        else:
            self.ev.append([99, 0, 0, 0])
        return self.A.matvec(v)


def run_gmres_restart(case):
    """GMRES with restarts, observed from outside: the solver object is run once plainly and once with `reset`
    wrapped (instance attribute) and a counting operator; recorded per cycle: x after the update, Gram matrix of
    the Krylov vectors qs, and the state after every (re)start (qs, r_norm, e1, H, sine, cosine)."""
    import tenpy.linalg.np_conserved as npc
    from tenpy.linalg import krylov_based
    spec = case['spec']
    M = G.dense_operator(spec)
    n = M.shape[0]
    cplx = bool(spec['cplx'] or case['diag_shift'][1] != 0)
    M = M + complex(*case['diag_shift']) * np.eye(n)
    leg = make_leg(npc, spec['leg'])
    b = G.start_vector(spec, M) * case['b_scale']
    x0 = G.extra_vectors(spec, M, 1, tag=3)[0] * case['x0_scale']
    npc_cplx = cplx or not case.get('real_dtype')
    if not npc_cplx:
        M = M.real
    A = to_npc_op(npc, M.astype(complex) if npc_cplx else M, leg)
    opts = {k: v for k, v in case['opts'].items() if v is not None}

    def dense(a):
        return G.enc(a.to_ndarray())

    def gram_dev(qs):
        """max |<q_i|q_j> - delta_ij| for all leading sub-lists: dev[l] belongs to qs[:l+1]"""
        Q = np.array([q.to_ndarray() for q in qs])
        Gm = Q.conj() @ Q.T - np.eye(len(qs))
        return [float(np.max(np.abs(Gm[:l + 1, :l + 1]))) for l in range(len(qs))]

    def start_state(sol):
        e1 = sol.e1.to_ndarray()
        return {'n_qs': len(sol.qs), 'q0': dense(sol.qs[0]), 'r_norm': float(np.real(sol.r_norm)),
                'r_norm_imag': float(np.imag(sol.r_norm)), 'e1': G.enc(e1), 'len_e1': int(len(e1)),
                'H_zero': bool(np.all(sol.H.to_ndarray() == 0)), 'H_shape': [int(s) for s in sol.H.shape],
                'sc_zero': bool(np.all(sol.sine == 0) and np.all(sol.cosine == 0)),
                'len_sc': [int(len(sol.sine)), int(len(sol.cosine))],
                'n_rs': len(sol.rs), 'last_error': [float(np.real(e)) for e in sol.total_error[-1]]}

    def start_code(sol, cycle):
        """bit mask of the violated restart invariants (0 = the state Model/KrylovGmres.v calls a fresh start)"""
        r = sol.rs[-1]
        nr = npc.norm(r)
        N_max = sol.N_max
        code = 0
        if len(sol.qs) != 1:
            code |= 1
        if not (sol.r_norm == nr):                                   # the ABSOLUTE norm of the residual (same float)
            code |= 2
        e1 = sol.e1.to_ndarray()
        if not (e1.shape == (N_max + 1,) and e1[0] == sol.r_norm and np.all(e1[1:] == 0)):
            code |= 4
        q0 = r.copy()
        q0.iscale_prefactor(1.0 / nr)
        if not np.array_equal(sol.qs[0].to_ndarray(), q0.to_ndarray()):
            code |= 8
        H = sol.H.to_ndarray()
        if not (H.shape == (N_max + 1, N_max) and np.all(H == 0) and sol.sine.shape == (N_max,) and np.all(sol.sine == 0)
                and sol.cosine.shape == (N_max,) and np.all(sol.cosine == 0)):
            code |= 16
        if not (len(sol.rs) == cycle + 1 and len(sol.total_error) == cycle + 1 and len(sol.total_error[-1]) == 1
                and sol.total_error[-1][0] == nr / sol.b_norm):
            code |= 32
        return code

    def one(trace):
        xv = to_npc_vec(npc, x0, leg, npc_cplx, spec['sector'])
        bv = to_npc_vec(npc, b, leg, npc_cplx, spec['sector'])
        ev = []
        op = CountingOp(A, ev) if trace else A
        sol = krylov_based.GMRES(op, xv, bv, dict(opts))
        rec = {}
        if trace:
            op.sol = sol
            ev.append([10, 0, start_code(sol, 0), 0])
            rec['starts'] = [start_state(sol)]
            rec['cycles'] = []
            orig_reset = sol.reset

            def reset():
                c = len(sol.total_iters) - 1
                ev.append([13, c, 0, 0])
                rec['cycles'].append({'x': dense(sol.x), 'gram': gram_dev(sol.qs), 'n_qs': len(sol.qs)})
                op.in_reset = True
                try:
                    orig_reset()
                finally:
                    op.in_reset = False
                ev.append([10, c + 1, start_code(sol, c + 1), 0])
                rec['starts'].append(start_state(sol))
            sol.reset = reset
            orig_arnoldi = sol.arnoldi
            rec['breakdown'] = []

            def arnoldi(k):
                n0 = npc.norm(A.matvec(sol.qs[-1]))      # (the operator itself: not counted as an event)
                orig_arnoldi(k)
                # breakdown: nothing but rounding noise is left of A q_k after the orthogonalisation - the Krylov space is exhausted
                if not (abs(sol.H[k + 1, k]) > 1.e-14 * n0):
                    rec['breakdown'].append([len(sol.total_iters), int(k)])
            sol.arnoldi = arnoldi

            class TracedX(npc.Array):
                def iadd_prefactor_other(s, prefactor, other):
                    idx = [i for i, q in enumerate(sol.qs) if q is other]
                    ev.append([12, len(sol.total_iters) - 1, idx[0] if idx else 99, 0])
                    return npc.Array.iadd_prefactor_other(s, prefactor, other)
            sol.x.__class__ = TracedX
        try:
            x, res, total_error, iters = sol.run()
        finally:
            if trace:
                sol.x.__class__ = npc.Array
        rec.update({'x': dense(x), 'res': float(np.real(res)), 'iters': [int(i) for i in iters],
                    'total_error': [[float(np.real(e)) for e in te] for te in total_error],
                    'x_is_solver_x': bool(x is sol.x), 'qtotal_ok': bool(np.all(x.qtotal == bv.qtotal)),
                    'b_untouched': bool(np.array_equal(bv.to_ndarray(), b if npc_cplx else b.real)),
                    'x0_untouched': bool(np.array_equal(xv.to_ndarray(), x0 if npc_cplx else x0.real))})
        if trace:
            rec['events'] = [[int(v) for v in e] for e in ev]
            if len(rec['cycles']) < len(iters):     # the last cycle converged: no reset was executed after it
                rec['cycles'].append({'x': dense(sol.x), 'gram': gram_dev(sol.qs), 'n_qs': len(sol.qs)})
        return rec
    try:
        plain = one(False)
    except Exception as e:
        return {'error': type(e).__name__ + ': ' + str(e)[:200], 'tb': traceback.format_exc()[-600:]}
    return {'plain': plain, 'traced': one(True)}


def run_gs(case):
    import tenpy.linalg.np_conserved as npc
    from tenpy.linalg import krylov_based
    spec = case['spec']
    M = G.dense_operator(spec)
    leg = make_leg(npc, spec['leg'])
    vs = G.extra_vectors(spec, M, case['count'], tag=4)
    for (i, j, c) in case.get('dependent', []):
        if i < len(vs) and j < len(vs):
            vs[i] = c * vs[j] + (vs[i - 1] if (i - 1 >= 0 and i - 1 != j and case.get('combo')) else 0)
    for i in case.get('zero', []):
        if i < len(vs):
            vs[i] = vs[i] * 0
    for i, sc in enumerate(case.get('scales') or []):
        if i < len(vs):
            vs[i] = vs[i] * sc
    if case.get('real_first') and vs:
        vs[0] = vs[0].real.astype(vs[0].dtype)
    vn = [to_npc_vec(npc, v, leg, bool(spec['cplx'] and not (case.get('real_first') and i == 0)), spec['sector']) for i, v in enumerate(vs)]
    kw = {} if case.get('rcond') is None else {'rcond': case['rcond']}
    res = krylov_based.gram_schmidt(vn, **kw)
    return {'inputs': [G.enc(v) for v in vs], 'out': [vec_out(r) for r in res],
            'inplace': bool(all(any(r is v for v in vn) for r in res)),
            'kept_idx': [[i for i, v in enumerate(vn) if r is v][0] if any(r is v for v in vn) else -1 for r in res],
            'dropped_unchanged_object': bool(all(isinstance(v, npc.Array) for v in vn))}


def run_flat(case):
    import tenpy.linalg.np_conserved as npc
    from tenpy.linalg import sparse
    spec = case['spec']
    M = G.dense_operator(spec)
    leg = make_leg(npc, spec['leg'])
    H = to_npc_op(npc, M, leg)
    out = {}
    rs = np.random.RandomState(spec['seed'] % 1000 + 3)
    if case['mode'] == 'array':
        if case.get('unlabelled'):
            H.iset_leg_labels([None, None])
        cs = case['charge_sector']
        if cs == 'block':
            cs = [int(v) for v in leg.get_charge(spec['sector'])]    # qtotal of a vector living in that block
        kw = {}
        if case.get('compact_flat') is not None:
            kw['compact_flat'] = case['compact_flat']
        try:
            op = sparse.FlatLinearOperator.from_NpcArray(H, charge_sector=cs, **kw)
        except ValueError as e:
            return {'valueerror': str(e)[:100], 'blocked': bool(leg.is_blocked())}
        n = op.shape[0]
        x = rs.standard_normal(n) + (1j * rs.standard_normal(n) if spec['cplx'] else 0)
        try:
            y = op.matvec(x)
        except (ValueError, KeyError) as e:
            return {'matvec_error': type(e).__name__ + ': ' + str(e)[:100], 'shape': int(n), 'blocked': bool(leg.is_blocked() and leg.is_sorted()),
                    'compact': bool(op.compact_flat)}
        a = op.flat_to_npc(x)
        back = op.npc_to_flat(a)
        full = a.to_ndarray()
        out = {'shape': n, 'x': G.enc(x), 'y': G.enc(y), 'back': G.enc(back), 'full': G.enc(full),
               'mask_idx': [int(i) for i in (np.arange(leg.ind_len)[op._mask] if isinstance(op._mask, slice) else np.nonzero(op._mask)[0])],
               'compact': bool(op.compact_flat), 'blocked': bool(leg.is_blocked()), 'count': int(op.matvec_count)}
        if cs is None:
            out['full'] = G.enc(a.to_ndarray().sum(axis=1))
            # flat_to_npc_None_sector: a flat vector living in one sector (plus noise below the cutoff elsewhere)
            try:
                I = G.sector_indices(spec['leg'], spec['sector'])
                e = np.zeros(n, dtype=x.dtype)
                e[I] = x[I]
                noise = np.zeros(n)
                if len(I) < n:
                    noise[[i for i in range(n) if i not in I][0]] = 1e-13
                kw2 = {} if case.get('none_cutoff') is None else {'cutoff': case['none_cutoff']}
                an = op.flat_to_npc_None_sector(e + noise, **kw2)
                out['none_sector'] = {'vec': G.enc(an.to_ndarray()), 'emb': G.enc(e), 'qtotal': [int(q) for q in an.qtotal],
                                      'want_qtotal': [int(q) for q in leg.chinfo.make_valid(leg.get_charge(spec['sector']))], 'labels': list(an.get_leg_labels())}
            except Exception as e:
                out['none_sector'] = {'error': type(e).__name__ + ': ' + str(e)[:200]}
        else:
            # an exactly zero npc vector (no block stored) of the sector
            try:
                z = npc.zeros([leg], x.dtype, op.charge_sector, labels=[op.vec_label])
                out['zero_flat'] = G.enc(op.npc_to_flat(z))
            except Exception as e:
                out['zero_flat'] = {'error': type(e).__name__ + ': ' + str(e)[:200]}
            y2 = op.matvec(x)
            out['y2'] = G.enc(y2)
            out['count2'] = int(op.matvec_count)
        return out
    # mode 'pipe': an operator acting on a two-leg vector  theta[a, b];  K = kron(MA, 1) + kron(1, MB)
    spec2 = case['spec2']
    MA, MB = M, G.dense_operator(spec2)
    legB = make_leg(npc, spec2['leg'])
    HA = H.copy()
    HA.iset_leg_labels(['a', 'a*'])
    HB = to_npc_op(npc, MB, legB)
    HB.iset_leg_labels(['b', 'b*'])
    guess = np.outer(G.start_vector(spec, MA), G.start_vector(spec2, MB))
    theta = npc.Array.from_ndarray(guess, [leg, legB], labels=['a', 'b'], cutoff=0.)

    def matvec(th):
        r = npc.tensordot(HA, th, axes=['a*', 'a']) + npc.tensordot(HB, th, axes=['b*', 'b']).itranspose(['a', 'b'])
        return r
    cls = sparse.FlatHermitianOperator if case.get('herm_cls') else sparse.FlatLinearOperator
    kwp = {}
    if case.get('dtype') is not None:
        kwp['dtype'] = {'complex': np.complex128, 'float': np.float64}[case['dtype']]
    if case.get('compact_flat_kw', True):
        kwp['compact_flat'] = case['compact_flat']
    op, gflat = cls.from_guess_with_pipe(matvec, theta, labels_split=case.get('labels_split'), **kwp)
    n = op.shape[0]
    x = rs.standard_normal(n) + (1j * rs.standard_normal(n) if (spec['cplx'] or spec2['cplx']) else 0)
    y = op.matvec(x)
    a = op.flat_to_npc(x)
    back = op.npc_to_flat(a)
    a2 = a.split_legs(0).itranspose(['a', 'b'])
    g_back = op.flat_to_npc(gflat).split_legs(0).itranspose(['a', 'b'])
    ya = op.flat_to_npc(y).split_legs(0).itranspose(['a', 'b'])
    # the wrapper also accepts the multi-leg form (legs not combined) and returns it that way
    ml = op.npc_matvec(a2.copy())
    return {'shape': n, 'x_full': G.enc(a2.to_ndarray()), 'y_full': G.enc(ya.to_ndarray()), 'back': G.enc(back),
            'x': G.enc(x), 'guess_back': G.enc(g_back.to_ndarray()), 'guess': G.enc(guess),
            'multileg': G.enc(ml.transpose(['a', 'b']).to_ndarray()), 'multileg_rank': int(ml.rank),
            'op_dtype': str(np.dtype(op.dtype)), 'compact': bool(op.compact_flat), 'count': int(op.matvec_count)}


def run_argsort(case):
    from tenpy.tools.misc import argsort
    z = np.array([complex(a, b) for a, b in case['z']])
    if case.get('real'):
        z = z.real
    p = argsort(z, case['which'])
    return {'p': [int(i) for i in p]}


def main():
    payload = json.load(open(sys.argv[1]))
    how = X.start_monitor()
    if payload.get('kind') == 'reflect':
        json.dump({'reflect': X.reflect()}, open(sys.argv[2], 'w'))
        return
    f = {'lanczos': run_lanczos, 'arnoldi': run_arnoldi, 'gmres': run_gmres, 'gmresr': run_gmres_restart, 'gs': run_gs,
         'flat': run_flat, 'argsort': run_argsort, 'wrapper': X.run_wrapper, 'flateig': X.run_flateig, 'arpack': X.run_arpack}
    res = []
    for c in payload['cases']:
        try:
            res.append(f[c['kind']](c))
        except Exception:
            res.append({'runner_error': traceback.format_exc()[-1200:]})
    json.dump({'res': res, 'lines': X.hit_lines(), 'trace': how}, open(sys.argv[2], 'w'),
              default=lambda o: o.item() if hasattr(o, 'item') else str(o))


if __name__ == '__main__':
    main()
