"""Runs the tenpy tree under test on the cases of harness/c12.py (fresh interpreter, JSON in/out)."""
import json
import os
import sys
import traceback
import warnings

import numpy as np

warnings.simplefilter('ignore')
sys.path.insert(0, os.path.join(os.environ.get('VERIF_DIR', '/verif'), 'harness'))
import c12_oracle as orc  # noqa: E402
import c08_gen as gen  # noqa: E402


def cjson(m):
    m = np.asarray(m, dtype=complex)
    return [[[float(z.real), float(z.imag)] for z in row] for row in m]


def run_table(case):
    """dump one site configuration (own code, independent of the exporter's helper)"""
    site = gen.make_site([case['class'], case['kwargs']])
    site.test_sanity()
    out = {'dim': int(site.dim), 'perm': [int(x) for x in site.perm],
           'labels': {str(k): int(v) for k, v in site.state_labels.items()},
           'mod': [int(x) for x in site.leg.chinfo.mod], 'charges': [[int(x) for x in r] for r in site.leg.to_qflat()],
           'need_JW': sorted(site.need_JW_string), 'hc': {str(a): str(b) for a, b in site.hc_ops.items()},
           'jw_exp': [float(x) for x in np.asarray(site.JW_exponent).reshape(-1)],
           'ops': {n: {'m': cjson(site.get_op(n).to_ndarray()), 'q': [int(x) for x in site.get_op(n).qtotal]}
                   for n in sorted(site.opnames)}}
    return out


def run_terms(case):
    """order_combine_term / (multi_)coupling_term_handle_JW on a term + dense check of the returned term"""
    from tenpy.networks.terms import order_combine_term, CouplingTerms, MultiCouplingTerms
    ch = gen.Chain(case['sites'])
    L = len(ch.sites)
    term = [(str(a), int(b)) for a, b in case['term']]
    out = {'flags': [bool(ch.sites[i % L].op_needs_JW(op)) for op, i in term]}
    comb, sign = order_combine_term(list(term), ch.sites)
    out['combined'] = [[str(a), int(b)] for a, b in comb]
    out['sign'] = int(sign)
    out['comb_flags'] = [bool(ch.sites[i % L].op_needs_JW(op)) for op, i in comb]
    if len(comb) >= 2:
        try:
            mc = MultiCouplingTerms(L)
            s, ijkl, ops, opstr = mc.multi_coupling_term_handle_JW(1.0, [tuple(t) for t in comb], ch.sites)
            out['multi'] = {'ijkl': [int(x) for x in ijkl], 'ops': [str(x) for x in ops], 'opstr': [str(x) for x in opstr]}
        except ValueError as e:
            out['multi'] = {'error': str(e)[:80]}
    if len(comb) == 2:
        try:
            ct = CouplingTerms(L)
            s, i, j, op_i, op_j, opstr = ct.coupling_term_handle_JW(1.0, [tuple(t) for t in comb], ch.sites)
            out['coupling'] = {'i': int(i), 'j': int(j), 'op_i': str(op_i), 'op_j': str(op_j), 'opstr': str(opstr)}
        except ValueError as e:
            out['coupling'] = {'error': str(e)[:80]}
    # dense: sign * (product of the returned per-site operators and strings, in the site bases) vs oracle product of the term
    if case.get('dense') and 'multi' in out and 'ijkl' in out['multi'] and min(i for _, i in term) >= 0 and max(i for _, i in term) < L:
        ijkl, ops, opstr = out['multi']['ijkl'], out['multi']['ops'], out['multi']['opstr']
        words = [[] for _ in range(L)]
        for x, (i, op) in enumerate(zip(ijkl, ops)):
            words[i] = op.split()
            if x + 1 < len(ijkl):
                for k in range(i + 1, ijkl[x + 1]):
                    words[k] = [opstr[x]]
        got = sign * orc.product_op(ch.docs, words)
        want = orc.term_op(ch.docs, term)
        out['dense_diff'] = float(np.max(np.abs(got - want)))
        out['dense_norm'] = float(np.max(np.abs(want)))
    return out


def mpo_dense(H):
    L = H.L
    T = None
    for i in range(L):
        W = H.get_W(i).itranspose(['wL', 'wR', 'p', 'p*']).to_ndarray()
        if T is None:
            T = W[H.get_IdL(0)]                      # (wR, p, p*)
        else:
            T = np.einsum('wab,wvpq->vapbq', T, W)
            s = T.shape
            T = T.reshape(s[0], s[1] * s[2], s[3] * s[4])
    return T[H.get_IdR(L - 1)]


def basis_change(ch):
    """permutation matrix U with  M_doc = U M_site U^T  for the chain (kron of the site -> doc maps)"""
    U = np.eye(1)
    for m in ch.maps:
        P = np.zeros((len(m), len(m)))
        P[m, np.arange(len(m))] = 1.0
        U = np.kron(U, P)
    return U


def run_mpo(case):
    """every term -> TermList -> MPOGraph.from_term_list -> MPO -> dense;  compare with the oracle product, and the
    anticommutator of reversed pairs with the local anticommutator"""
    from tenpy.networks.terms import TermList
    from tenpy.networks.mpo import MPOGraph
    ch = gen.Chain(case['sites'])
    L = len(ch.sites)
    U = basis_change(ch)
    res = []

    # ONE prefactor array shared by every TermList of the case (as a user looping over terms with a fixed coupling
    # array would do): building a TermList / MPO must not write into it
    g = np.array([1.0])

    def dense_of(term):
        tl = TermList([[(str(a), int(b)) for a, b in term]], g)
        H = MPOGraph.from_term_list(tl, ch.sites, 'finite', unit_cell_width=L).build_MPO()
        return U @ mpo_dense(H) @ U.T

    for term in case['terms']:
        r = {}
        try:
            term = [(str(a), int(b)) for a, b in term]
            D = dense_of(term)
            want = orc.term_op(ch.docs, term)
            r['diff'] = float(np.max(np.abs(D - want)))
            r['norm'] = float(np.max(np.abs(want)))
            r['g'] = float(g[0])
            if len(term) == 2 and case.get('anticomm'):
                (a, i), (b, j) = term
                D2 = dense_of([(b, j), (a, i)])
                if i == j:
                    loc = ch.docs[i].op(a) @ ch.docs[i].op(b) + ch.docs[i].op(b) @ ch.docs[i].op(a)
                    mats = [d.ops['Id'] for d in ch.docs]
                    mats[i] = loc
                    exp = orc.kron_all(mats)
                else:
                    exp = np.zeros_like(D)
                r['anti_diff'] = float(np.max(np.abs(D + D2 - exp)))
        except Exception as e:
            r['error'] = '%s: %s' % (type(e).__name__, str(e)[:150])
        res.append(r)
    return res


def run_grouped(case):
    """GroupedSite of heterogeneous sites with a charges policy: every operator vs kron with the JW of the left sites folded in"""
    import tenpy.networks.site as S
    ch = gen.Chain(case['sites'])
    sites = ch.sites
    pol = case['charges']
    labels = case.get('labels')
    out = {}
    if case.get('share'):
        # equal specs = the SAME Site object several times (the common `[site] * n` use)
        for k in range(len(sites)):
            for j in range(k):
                if case['sites'][j] == case['sites'][k]:
                    sites[k] = sites[j]
                    break
    try:
        if case.get('common') and not all(s.leg.chinfo == sites[0].leg.chinfo and s.leg.chinfo.names == sites[0].leg.chinfo.names
                                          for s in sites):
            # GroupedSite(charges='same') requires a common ChargeInfo: documented way is set_common_charges beforehand
            S.set_common_charges(_unique(sites), case['common'])
            ch.maps = [gen.site_to_doc_index(s, d) for s, d in zip(sites, ch.docs)]
            out['used_common'] = True
        snaps = [snapshot(s) for s in sites]
        gs = S.GroupedSite(sites, labels=labels, charges=pol)
        gs.test_sanity()
        out['originals_changed'] = [[k, snapshot_diff(sn, snapshot(s))] for k, (s, sn) in enumerate(zip(sites, snaps)) if snapshot_diff(sn, snapshot(s))]
    except Exception as e:
        return {'error': type(e).__name__, 'msg': str(e)[:200], 'tb': traceback.format_exc()[-600:],
                'used_common': out.get('used_common', False)}
    labs = labels or [str(i) for i in range(len(sites))]
    dims = [d.dim for d in ch.docs]
    D = int(np.prod(dims))
    # basis map via the state labels of the grouped site: doc tuple -> index of the grouped site
    idx = np.empty(D, dtype=int)
    for flat in range(D):
        t = np.unravel_index(flat, dims)
        lab = ' '.join(ch.docs[k].labels[t[k]] + '_' + labs[k] for k in range(len(sites)))
        idx[flat] = gs.state_labels[lab]
    if sorted(idx) != list(range(D)):
        return {'error': 'labels', 'msg': 'state labels of the grouped site are not a bijection'}
    probs = []
    nops = 0
    # the sites handed in are documented to be left alone (copied when charges != 'same'; only their charges adjusted by
    # set_common_charges): re-verify every one of them through its own state labels
    for k, dd in out.get('originals_changed', []):
        probs.append('GroupedSite changed the %s of the site #%d handed in (documented: copied before use / nothing to do)' % (', '.join(dd), k))
    for k, s in enumerate(sites):
        p = verify_site(s, mirror_of_spec(case['sites'][k]))
        if p:
            probs.append('original site %d (%s) after the grouping: %s' % (k, case['sites'][k][0], '; '.join(p[:2])))
    for k, d in enumerate(ch.docs):
        for name in sorted(sites[k].opnames):
            if name == 'Id':
                continue
            full = name + labs[k]
            if full not in gs.opnames:
                probs.append('operator %s missing' % full)
                continue
            got = gs.get_op(full).to_ndarray()[np.ix_(idx, idx)]
            want = orc.mb_op(ch.docs, name, k)
            nops += 1
            if np.max(np.abs(got - want)) > 1e-12:
                probs.append('operator %s differs from kron with JW of the left sites (max diff %.2e)' % (full, np.max(np.abs(got - want))))
            if bool(gs.op_needs_JW(full)) != d.needs_JW(name):
                probs.append('need_JW flag of %s' % full)
            hc = gs.hc_ops.get(full)
            if hc is not None and np.max(np.abs(gs.get_op(hc).to_ndarray() - gs.get_op(full).to_ndarray().conj().T)) > 1e-12:
                probs.append('hc_ops pairs %s with %s' % (full, hc))
    JW = gs.JW.to_ndarray()[np.ix_(idx, idx)]
    if np.max(np.abs(JW - orc.kron_all([d.ops['JW'] for d in ch.docs]))) > 1e-12:
        probs.append('JW of the grouped site is not the product of the JWs')
    # charges consistent
    q = gs.leg.to_qflat()
    mod = gs.leg.chinfo.mod
    for name in sorted(gs.opnames):
        op = gs.get_op(name)
        m = op.to_ndarray()
        rr, cc = np.nonzero(np.abs(m) > 1e-14)
        for r, c in zip(rr, cc):
            dq = q[r] - q[c] - op.qtotal
            if any((x != 0) if mm == 1 else (x % mm != 0) for x, mm in zip(dq, mod)):
                probs.append('charge rule violated by %s' % name)
                break
    out['problems'] = probs
    out['nops'] = nops
    out['dim'] = D
    out['qnumber'] = int(gs.leg.chinfo.qnumber)
    return out


def run_corr(case):
    """correlation_function(autoJW) of fermionic operators on a random state vs dense <psi| A_i B_j |psi>"""
    rng = np.random.default_rng(case['seed'])
    ch = gen.Chain(case['sites'])
    L = len(ch.sites)
    psi, q = gen.random_finite_mps(rng, ch, cplx=True)
    th = gen.window_to_doc(ch, gen.dense_window(psi, 0, L), 0)
    res = []
    for (a, b) in case['pairs']:
        r = {'a': a, 'b': b}
        try:
            C = psi.correlation_function(a, b, **case.get('kwargs', {}))
            s1 = case.get('kwargs', {}).get('sites1', list(range(L)))
            s2 = case.get('kwargs', {}).get('sites2', list(range(L)))
            want = np.empty((len(s1), len(s2)), dtype=complex)
            for x, i in enumerate(s1):
                for y, j in enumerate(s2):
                    want[x, y] = gen.expect_window(th, orc.term_op(ch.docs, [(a, i), (b, j)]), th)
            r['diff'] = float(np.max(np.abs(C - want)))
            r['arg'] = [int(x) for x in np.unravel_index(np.argmax(np.abs(C - want)), C.shape)]
            r['norm'] = float(np.max(np.abs(want)))
        except Exception as e:
            r['error'] = '%s: %s' % (type(e).__name__, str(e)[:150])
        res.append(r)
    return res


# ---------------------------------------------------------------------------------------------------------------------
# basis bookkeeping: "mirrors" = what the documentation says a site IS (doc-basis state labels + operator matrices in the doc
# basis), maintained next to the real Site objects through every site-transforming call, and re-verified through the
# state labels (label -> basis index -> matrix elements)
# ---------------------------------------------------------------------------------------------------------------------
class Mirror:
    def __init__(self, labels, ops, simple, tag):
        self.labels = list(labels)          # primary state label per doc-basis index
        self.ops = dict(ops)                # name -> (matrix in the doc basis, needs_JW)
        self.simple = simple                # a predefined site (Site.perm is documented) / a GroupedSite
        self.tag = tag

    def copy(self, tag=None):
        return Mirror(self.labels, self.ops, self.simple, tag or self.tag)


def mirror_of_spec(spec):
    cls, kw = spec
    kw = {k: v for k, v in kw.items() if not k.startswith('_')}
    doc = orc.doc_site(cls, kw)
    excl = orc.excluded_ops(cls, kw)
    ops = {n: (m, n in doc.need_JW) for n, m in doc.ops.items() if n not in excl}
    return Mirror(doc.labels, ops, True, '%s(%s)' % (cls, ', '.join('%s=%r' % kv for kv in sorted(spec[1].items()))))


def grouped_mirror(mirs, labs, tag):
    import itertools
    dims = [len(m.labels) for m in mirs]
    labels = [' '.join(m.labels[t[k]] + '_' + labs[k] for k, m in enumerate(mirs)) for t in itertools.product(*[range(d) for d in dims])]
    JWs = [m.ops['JW'][0] for m in mirs]
    Ids = [np.eye(d, dtype=complex) for d in dims]
    ops = {'Id': (orc.kron_all(Ids), False), 'JW': (orc.kron_all(JWs), True)}
    for k, m in enumerate(mirs):
        for n, (M, jw) in m.ops.items():
            if n == 'Id':
                continue
            mats = [(JWs[x] if jw else Ids[x]) if x < k else (M if x == k else Ids[x]) for x in range(len(mirs))]
            ops[n + labs[k]] = (orc.kron_all(mats), jw)
    return Mirror(labels, ops, False, tag)


def label_index(site, mir):
    """idx[k] = basis index of `site` of the state the documentation calls mir.labels[k]; (None, problem) when not a bijection"""
    idx = []
    for lab in mir.labels:
        if lab not in site.state_labels:
            return None, 'state label %r missing' % lab
        idx.append(int(site.state_labels[lab]))
    if sorted(idx) != list(range(len(mir.labels))):
        return None, 'state labels %s -> %s are not a bijection onto the basis' % (mir.labels[:6], idx[:6])
    return idx, None


def verify_site(site, mir):
    """all that the documentation says about `site`, read through its state labels"""
    probs = []
    d = len(mir.labels)
    if int(site.dim) != d:
        return ['dimension %d, documented %d' % (site.dim, d)]
    try:
        site.test_sanity()
    except Exception as e:
        probs.append('test_sanity raised %s: %s' % (type(e).__name__, str(e)[:120]))
    idx, p = label_index(site, mir)
    if idx is None:
        return probs + [p]
    if mir.simple:
        perm = [int(x) for x in site.perm]
        if sorted(perm) != list(range(d)):
            probs.append('perm %s is not a permutation' % perm)
        else:
            for k, lab in enumerate(mir.labels):
                if perm[idx[k]] != k:
                    probs.append('perm[state_labels[%r]] = %d, documented basis index %d' % (lab, perm[idx[k]], k))
                    break
    names = set(site.opnames)
    if names != set(mir.ops):
        probs.append('operator names differ from the expected ones by %s' % sorted(names ^ set(mir.ops))[:6])
    ix = np.ix_(idx, idx)
    for n in sorted(names & set(mir.ops)):
        M, jw = mir.ops[n]
        try:
            got = site.get_op(n).to_ndarray()[ix]
        except Exception as e:
            probs.append('get_op(%r) raised %s: %s' % (n, type(e).__name__, str(e)[:100]))
            continue
        diff = np.abs(got - M)
        if np.max(diff) > 1e-12:
            r, c = np.unravel_index(np.argmax(diff), diff.shape)
            probs.append('<%s|%s|%s> = %s through the state labels, documented value %s'
                         % (mir.labels[r], n, mir.labels[c], complex(np.round(got[r, c], 12)), complex(np.round(M[r, c], 12))))
        if bool(site.op_needs_JW(n)) != bool(jw):
            probs.append('op_needs_JW(%r) = %s, documented %s' % (n, bool(site.op_needs_JW(n)), bool(jw)))
    for a, b in site.hc_ops.items():
        if a in mir.ops and b in mir.ops and np.max(np.abs(mir.ops[a][0].conj().T - mir.ops[b][0])) > 1e-12:
            probs.append('hc_ops pairs %s with %s' % (a, b))
        if a not in names or b not in names:
            probs.append('hc_ops mentions %s/%s which is not an operator' % (a, b))
    return probs


def snapshot(site):
    """everything a call that is documented NOT to touch `site` must leave as it is"""
    leg = site.leg
    return {'mod': [int(x) for x in leg.chinfo.mod], 'charge names': [str(x) for x in leg.chinfo.names],
            'charges': [[int(x) for x in r] for r in leg.to_qflat()], 'qconj': int(leg.qconj), 'perm': [int(x) for x in site.perm],
            'state_labels': sorted((str(k), int(v)) for k, v in site.state_labels.items()), 'opnames': sorted(site.opnames),
            'need_JW_string': sorted(site.need_JW_string), 'hc_ops': sorted((str(a), str(b)) for a, b in site.hc_ops.items()),
            'charge_to_JW_parity': None if getattr(site, 'charge_to_JW_parity', None) is None else [int(x) for x in site.charge_to_JW_parity]}


def snapshot_diff(a, b):
    return [k for k in a if a[k] != b[k]]


def _same_chinfo(sites):
    return all(s.leg.chinfo == sites[0].leg.chinfo and s.leg.chinfo.names == sites[0].leg.chinfo.names for s in sites)


def _unique(objs):
    out = []
    for o in objs:
        if not any(o is x for x in out):
            out.append(o)
    return out


def run_book(case):
    """a sequence of site-transforming calls on a pool of sites; after EVERY call all sites of the pool (originals, deep copies,
    grouped sites) are re-verified against their mirrors.  Steps address the predefined sites (and their deep copies) by index
    and the grouped sites created so far by ['g', r] (r modulo their number)."""
    import copy
    import tenpy.networks.site as S
    import tenpy.linalg.np_conserved as npc
    rng = np.random.default_rng(case.get('seed', 0))
    simple = [[gen.make_site(spec), mirror_of_spec(spec)] for spec in case['sites']]
    grouped = []
    out = {'problems': [], 'applied': [], 'verified': 0, 'permuted': False}

    def everything():
        return simple + grouped

    def tgt(ref):
        if isinstance(ref, int):
            return simple[ref]
        return grouped[ref[1] % len(grouped)] if grouped else None

    def verify_all(si, step):
        for k, (s, m) in enumerate(everything()):
            p = verify_site(s, m)
            out['verified'] += 1
            if p:
                out['problems'].append({'step': si, 'op': step, 'site': k, 'tag': m.tag, 'probs': p[:3]})

    verify_all(-1, 'construction')
    if out['problems']:
        return out
    for si, step in enumerate(case['steps']):
        kind = step[0]
        status = 'ok'
        before = [dict(s.state_labels) for s, _ in everything()]
        snaps = [(s, m, snapshot(s)) for s, m in everything()]
        touched = []            # sites the call is allowed to modify
        try:
            if kind in ('group', 'group_sites'):
                idxs, pol, labels = step[1], step[2], step[3]
                sites = [simple[i][0] for i in idxs]
                mirs = [simple[i][1] for i in idxs]
                if pol == 'same' and not _same_chinfo(sites):
                    touched = _unique(sites)
                    try:
                        S.set_common_charges(_unique(sites), 'same')
                    except ValueError as e:
                        if 'different `mod` nature' not in str(e):
                            raise
                        status = 'skipped'
                if status == 'ok' and kind == 'group':
                    labs = labels or [str(i) for i in range(len(sites))]
                    gs = S.GroupedSite(sites, labels=labels, charges=pol)
                    grouped.append([gs, grouped_mirror(mirs, labs, 'GroupedSite(%s, %r)' % ([m.tag for m in mirs], pol))])
                elif status == 'ok':
                    n = 2
                    labs = labels or [str(i) for i in range(n)]
                    gss = S.group_sites(sites, n=n, labels=labels, charges=pol)
                    if len(gss) != (len(sites) - 1) // n + 1:
                        raise AssertionError('group_sites returned %d sites' % len(gss))
                    for g, gs in enumerate(gss):
                        mm = mirs[g * n:(g + 1) * n]
                        grouped.append([gs, grouped_mirror(mm, labs[:len(mm)], 'group_sites(%s, %r)[%d]' % ([m.tag for m in mirs], pol, g))])
            elif kind == 'set_common':
                idxs, pol, sort = step[1], step[2], step[3]
                sites = [simple[i][0] for i in idxs]
                touched = sites
                new = pol
                if pol in ('sum', 'diff'):
                    chs = [s.leg.chinfo for s in sites]
                    if any(c.qnumber < 1 for c in chs) or len(set(int(c.mod[0]) for c in chs)) != 1 or (pol == 'diff' and int(chs[0].mod[0]) != 1):
                        status = 'skipped'
                    new = [[(1 if (k == 0 or pol == 'sum') else -1, k, 0) for k in range(len(sites))]]
                if status == 'ok':
                    try:
                        S.set_common_charges(sites, new, sort_charge=bool(sort))
                    except ValueError as e:
                        if 'different `mod` nature' not in str(e):
                            raise
                        status = 'skipped'
            elif kind == 'change_charge':
                site, mir = simple[step[1]]
                touched = [site]
                mode = step[2]
                if mode == 'drop':
                    site.change_charge(None)
                elif mode == 'perm':
                    p = rng.permutation(site.dim)
                    leg = site.leg
                    site.change_charge(npc.LegCharge.from_qflat(leg.chinfo, leg.to_qflat()[p], leg.qconj), p)
                elif mode == 'mod':
                    old = site.leg
                    if old.chinfo.qnumber < 1 or any(int(m) != 1 for m in old.chinfo.mod):
                        status = 'skipped'
                    else:
                        N = int(step[3])
                        chinfo = npc.ChargeInfo([N] * old.chinfo.qnumber, [str(n) + '_mod_%d' % N for n in old.chinfo.names])
                        site.change_charge(npc.LegCharge.from_qflat(chinfo, np.mod(old.to_qflat(), N), old.qconj))
                else:
                    raise ValueError(mode)
            elif kind == 'deepcopy':
                site, mir = simple[step[1]]
                simple.append([copy.deepcopy(site), mir.copy(mir.tag + ' deep copy')])
            elif kind in ('sort_charge', 'add_op', 'rename_op', 'remove_op'):
                t = tgt(step[1])
                if t is None:
                    status = 'skipped'
                else:
                    site, mir = t
                    touched = [site]
                    cand = sorted(n for n in mir.ops if n not in ('Id', 'JW'))
                    if kind == 'sort_charge':
                        site.sort_charge()
                    elif kind == 'add_op':
                        allc = sorted(mir.ops)
                        a, b = allc[step[2] % len(allc)], allc[step[3] % len(allc)]
                        M = mir.ops[a][0] @ mir.ops[b][0]
                        jw = bool(mir.ops[a][1]) != bool(mir.ops[b][1])
                        name = 'A%dx' % si
                        if step[4] and mir.simple:
                            # dense matrix in the conserve=None basis, permuted by Site.perm as documented (permute_dense=True)
                            site.add_op(name, M, need_JW=jw, hc=False, permute_dense=True)
                        else:
                            idx, p = label_index(site, mir)
                            Ms = np.zeros_like(M)
                            Ms[np.ix_(idx, idx)] = M
                            site.add_op(name, Ms, need_JW=jw, hc=False, permute_dense=False)
                        mir.ops[name] = (M, jw)
                        step = list(step) + ['%s.%s' % (a, b)]
                    elif not cand:
                        status = 'skipped'
                    elif kind == 'rename_op':
                        old = cand[step[2] % len(cand)]
                        name = 'R%dx' % si
                        site.rename_op(old, name)
                        mir.ops[name] = mir.ops.pop(old)
                        step = list(step) + [old]
                    else:
                        old = cand[step[2] % len(cand)]
                        site.remove_op(old)
                        mir.ops.pop(old)
                        step = list(step) + [old]
            else:
                raise ValueError('unknown step ' + str(kind))
        except Exception as e:
            out['error'] = {'step': si, 'op': step, 'error': type(e).__name__, 'msg': str(e)[:200], 'tb': traceback.format_exc()[-700:]}
            out['applied'].append('raised')
            break
        out['applied'].append(status)
        if any(dict(s_.state_labels) != b for (s_, _, _), b in zip(snaps, before)):
            out['permuted'] = True
        for k, (s_, m_, sn) in enumerate(snaps):
            if not any(s_ is t_ for t_ in touched):
                dd = snapshot_diff(sn, snapshot(s_))
                if dd:
                    out['problems'].append({'step': si, 'op': step, 'site': k, 'tag': m_.tag,
                                            'probs': ['the call is documented not to modify this site, but it changed its %s' % ', '.join(dd)]})
        verify_all(si, step)
        if out['problems']:
            break
    out['pool'] = len(simple) + len(grouped)
    return out


# ---------------------------------------------------------------------------------------------------------------------
# MPS-level consumers of _term_to_ops_list
# ---------------------------------------------------------------------------------------------------------------------
def _cl(z):
    z = complex(z)
    return [float(z.real), float(z.imag)]


def run_mpsterm(case):
    """every MPS-level consumer of MPS._term_to_ops_list on a random state of a (fermionic) chain, vs the dense operators built with
    explicit Jordan-Wigner strings; and the (ops, i_min, has_extra_JW) triple of _term_to_ops_list itself as operator names"""
    import copy
    from tenpy.networks.mps import MPS
    from tenpy.networks.terms import TermList
    rng = np.random.default_rng(case['seed'])
    ch = gen.Chain(case['sites'])
    L = len(ch.sites)
    docs = ch.docs
    psi, q = gen.random_finite_mps(rng, ch, cplx=True)
    vec = gen.window_to_doc(ch, gen.dense_window(psi, 0, L), 0).reshape(-1)

    def ev(term):
        return complex(np.vdot(vec, orc.term_op(docs, term) @ vec))

    def par(term):
        return sum(1 for a, i in term if docs[i].needs_JW(a)) % 2

    def T(term, off=0):
        return [(str(a), int(i) + off) for a, i in term]

    nsites = [copy.copy(s) for s in ch.sites]
    for s in nsites:
        s.multiply_operators = (lambda ops: list(ops))       # _term_to_ops_list then returns the operator NAMES per site
    psin = MPS.from_product_state(nsites, [0] * L, unit_cell_width=L)
    res = []
    for job in case['jobs']:
        f = job['f']
        r = {}
        try:
            if f == 'ops_list':
                term = T(job['term'])
                ops, imin, extra = psin._term_to_ops_list(term, job['autoJW'], 0, job['jfr'])
                words = [[str(x) for x in w] for w in ops]
                r = {'ops': words, 'imin': int(imin), 'extra': bool(extra)}
                if job['autoJW']:
                    imax = imin + len(words) - 1
                    from_right = bool(extra) if job['jfr'] is None else bool(job['jfr'])
                    left = False if job['jfr'] is None else bool(extra)
                    full = [['JW'] if left else [] for _ in range(imin)] + words + [[] for _ in range(imax + 1, L)]
                    got = orc.product_op(docs, full)
                    want = orc.term_op(docs, term)
                    if from_right:
                        want = want @ orc.product_op(docs, [['JW'] if k <= imax else [] for k in range(L)])
                    r['dense_diff'] = float(np.max(np.abs(got - want)))
                    r['parity'] = par(term)
            elif f == 'ev_term':
                term = T(job['term'])
                r['parity'] = par(term)
                r['want'] = [_cl(ev(term))]
                r['got'] = [_cl(psi.expectation_value_term(term))]
            elif f == 'terms_sum':
                terms = [T(t) for t in job['terms']]
                st = [complex(*z) for z in job['strength']]
                r['want'] = [_cl(sum(s_ * ev(t) for t, s_ in zip(terms, st)))]
                r['got'] = [_cl(psi.expectation_value_terms_sum(TermList(terms, st))[0])]
            elif f == 'tcf_right':
                tL, tR = T(job['term_L']), T(job['term_R'])
                r['parity'] = (par(T(tL, job['i_L'])) + par(T(tR, job['j_R'][0]))) % 2
                r['want'] = [_cl(ev(T(tL, job['i_L']) + T(tR, j))) for j in sorted(job['j_R'])]
                r['got'] = [_cl(x) for x in psi.term_correlation_function_right(tL, tR, job['i_L'], job['j_R'])]
            elif f == 'tcf_left':
                tL, tR = T(job['term_L']), T(job['term_R'])
                r['parity'] = (par(T(tL, job['i_L'][0])) + par(T(tR, job['j_R']))) % 2
                r['want'] = [_cl(ev(T(tL, i) + T(tR, job['j_R']))) for i in sorted(job['i_L'], reverse=True)]
                r['got'] = [_cl(x) for x in psi.term_correlation_function_left(tL, tR, job['i_L'], job['j_R'])]
            elif f == 'tlcf_right':
                # documented assumption: pairs of terms with an odd TOTAL number of Jordan-Wigner operators do not contribute
                tLs, tRs = [T(t) for t in job['terms_L']], [T(t) for t in job['terms_R']]
                sL, sR = [complex(*z) for z in job['strength_L']], [complex(*z) for z in job['strength_R']]
                want = []
                for j in sorted(job['j_R']):
                    tot = 0.0
                    for ta, sa in zip(tLs, sL):
                        for tb, sb in zip(tRs, sR):
                            a, b = T(ta, job['i_L']), T(tb, j)
                            if par(a) == par(b):
                                tot += sa * sb * ev(a + b)
                    want.append(_cl(tot))
                r['want'] = want
                r['got'] = [_cl(x) for x in psi.term_list_correlation_function_right(TermList(tLs, sL), TermList(tRs, sR), job['i_L'], job['j_R'])]
            elif f == 'apply':
                term = T(job['term'])
                r['parity'] = par(term)
                wv = orc.term_op(docs, term) @ vec
                r['want_norm'] = float(np.linalg.norm(wv))
                psi2 = psi.copy()
                psi2.apply_local_term(term, canonicalize=bool(job.get('canonicalize', True)))
                v2 = gen.window_to_doc(ch, gen.dense_window(psi2, 0, L), 0).reshape(-1) * psi2.norm
                r['diff'] = float(np.max(np.abs(v2 - wv)))
            else:
                raise KeyError(f)
        except ValueError as e:
            r['error'] = 'ValueError: ' + str(e)[:160]
        except Exception as e:
            r['error'] = '%s: %s' % (type(e).__name__, str(e)[:160])
            r['tb'] = traceback.format_exc()[-500:]
        res.append(r)
    return res


def main():
    payload = json.load(open(sys.argv[1]))
    f = {'table': run_table, 'terms': run_terms, 'mpo': run_mpo, 'grouped': run_grouped, 'corr': run_corr, 'book': run_book, 'mpsterm': run_mpsterm}[payload['kind']]
    res = []
    for c in payload['cases']:
        try:
            res.append(f(c))
        except Exception:
            res.append({'runner_error': traceback.format_exc()[-1200:]})
    json.dump(res, open(sys.argv[2], 'w'))


if __name__ == '__main__':
    main()
