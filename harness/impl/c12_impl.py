"""Runs the tenpy tree under test on the cases of harness/c12.py (fresh interpreter, JSON in/out)."""
import json
import os
import sys
import traceback
import warnings

import numpy as np

warnings.simplefilter('ignore')
sys.path.insert(0, os.path.join(os.environ.get('VERIF_DIR', '/verif'), 'harness'))
import c12_oracle as orc  # noqa: E402
import c08_gen as gen  # noqa: E402


def cjson(m):
    m = np.asarray(m, dtype=complex)
    return [[[float(z.real), float(z.imag)] for z in row] for row in m]


def run_table(case):
    """dump one site configuration (own code, independent of the exporter's helper)"""
    site = gen.make_site([case['class'], case['kwargs']])
    site.test_sanity()
    out = {'dim': int(site.dim), 'perm': [int(x) for x in site.perm],
           'labels': {str(k): int(v) for k, v in site.state_labels.items()},
           'mod': [int(x) for x in site.leg.chinfo.mod], 'charges': [[int(x) for x in r] for r in site.leg.to_qflat()],
           'need_JW': sorted(site.need_JW_string), 'hc': {str(a): str(b) for a, b in site.hc_ops.items()},
           'jw_exp': [float(x) for x in np.asarray(site.JW_exponent).reshape(-1)],
           'ops': {n: {'m': cjson(site.get_op(n).to_ndarray()), 'q': [int(x) for x in site.get_op(n).qtotal]}
                   for n in sorted(site.opnames)}}
    return out


def run_terms(case):
    """order_combine_term / (multi_)coupling_term_handle_JW on a term + dense check of the returned term"""
    from tenpy.networks.terms import order_combine_term, CouplingTerms, MultiCouplingTerms
    ch = gen.Chain(case['sites'])
    L = len(ch.sites)
    term = [(str(a), int(b)) for a, b in case['term']]
    out = {'flags': [bool(ch.sites[i % L].op_needs_JW(op)) for op, i in term]}
    comb, sign = order_combine_term(list(term), ch.sites)
    out['combined'] = [[str(a), int(b)] for a, b in comb]
    out['sign'] = int(sign)
    out['comb_flags'] = [bool(ch.sites[i % L].op_needs_JW(op)) for op, i in comb]
    if len(comb) >= 2:
        try:
            mc = MultiCouplingTerms(L)
            s, ijkl, ops, opstr = mc.multi_coupling_term_handle_JW(1.0, [tuple(t) for t in comb], ch.sites)
            out['multi'] = {'ijkl': [int(x) for x in ijkl], 'ops': [str(x) for x in ops], 'opstr': [str(x) for x in opstr]}
        except ValueError as e:
            out['multi'] = {'error': str(e)[:80]}
    if len(comb) == 2:
        try:
            ct = CouplingTerms(L)
            s, i, j, op_i, op_j, opstr = ct.coupling_term_handle_JW(1.0, [tuple(t) for t in comb], ch.sites)
            out['coupling'] = {'i': int(i), 'j': int(j), 'op_i': str(op_i), 'op_j': str(op_j), 'opstr': str(opstr)}
        except ValueError as e:
            out['coupling'] = {'error': str(e)[:80]}
    # dense: sign * (product of the returned per-site operators and strings, in the site bases) vs oracle product of the term
    if case.get('dense') and 'multi' in out and 'ijkl' in out['multi'] and min(i for _, i in term) >= 0 and max(i for _, i in term) < L:
        ijkl, ops, opstr = out['multi']['ijkl'], out['multi']['ops'], out['multi']['opstr']
        words = [[] for _ in range(L)]
        for x, (i, op) in enumerate(zip(ijkl, ops)):
            words[i] = op.split()
            if x + 1 < len(ijkl):
                for k in range(i + 1, ijkl[x + 1]):
                    words[k] = [opstr[x]]
        got = sign * orc.product_op(ch.docs, words)
        want = orc.term_op(ch.docs, term)
        out['dense_diff'] = float(np.max(np.abs(got - want)))
        out['dense_norm'] = float(np.max(np.abs(want)))
    return out


def mpo_dense(H):
    L = H.L
    T = None
    for i in range(L):
        W = H.get_W(i).itranspose(['wL', 'wR', 'p', 'p*']).to_ndarray()
        if T is None:
            T = W[H.get_IdL(0)]                      # (wR, p, p*)
        else:
            T = np.einsum('wab,wvpq->vapbq', T, W)
            s = T.shape
            T = T.reshape(s[0], s[1] * s[2], s[3] * s[4])
    return T[H.get_IdR(L - 1)]


def basis_change(ch):
    """permutation matrix U with  M_doc = U M_site U^T  for the chain (kron of the site -> doc maps)"""
    U = np.eye(1)
    for m in ch.maps:
        P = np.zeros((len(m), len(m)))
        P[m, np.arange(len(m))] = 1.0
        U = np.kron(U, P)
    return U


def run_mpo(case):
    """every term -> TermList -> MPOGraph.from_term_list -> MPO -> dense;  compare with the oracle product, and the
    anticommutator of reversed pairs with the local anticommutator"""
    from tenpy.networks.terms import TermList
    from tenpy.networks.mpo import MPOGraph
    ch = gen.Chain(case['sites'])
    L = len(ch.sites)
    U = basis_change(ch)
    res = []

    # ONE prefactor array shared by every TermList of the case (as a user looping over terms with a fixed coupling
    # array would do): building a TermList / MPO must not write into it
    g = np.array([1.0])

    def dense_of(term):
        tl = TermList([[(str(a), int(b)) for a, b in term]], g)
        H = MPOGraph.from_term_list(tl, ch.sites, 'finite', unit_cell_width=L).build_MPO()
        return U @ mpo_dense(H) @ U.T

    for term in case['terms']:
        r = {}
        try:
            term = [(str(a), int(b)) for a, b in term]
            D = dense_of(term)
            want = orc.term_op(ch.docs, term)
            r['diff'] = float(np.max(np.abs(D - want)))
            r['norm'] = float(np.max(np.abs(want)))
            r['g'] = float(g[0])
            if len(term) == 2 and case.get('anticomm'):
                (a, i), (b, j) = term
                D2 = dense_of([(b, j), (a, i)])
                if i == j:
                    loc = ch.docs[i].op(a) @ ch.docs[i].op(b) + ch.docs[i].op(b) @ ch.docs[i].op(a)
                    mats = [d.ops['Id'] for d in ch.docs]
                    mats[i] = loc
                    exp = orc.kron_all(mats)
                else:
                    exp = np.zeros_like(D)
                r['anti_diff'] = float(np.max(np.abs(D + D2 - exp)))
        except Exception as e:
            r['error'] = '%s: %s' % (type(e).__name__, str(e)[:150])
        res.append(r)
    return res


def run_grouped(case):
    """GroupedSite of heterogeneous sites with a charges policy: every operator vs kron with the JW of the left sites folded in"""
    import tenpy.networks.site as S
    ch = gen.Chain(case['sites'])
    sites = ch.sites
    pol = case['charges']
    labels = case.get('labels')
    out = {}
    try:
        if case.get('common') and not all(s.leg.chinfo == sites[0].leg.chinfo and s.leg.chinfo.names == sites[0].leg.chinfo.names
                                          for s in sites):
            # GroupedSite(charges='same') requires a common ChargeInfo: documented way is set_common_charges beforehand
            S.set_common_charges(sites, case['common'])
            ch.maps = [gen.site_to_doc_index(s, d) for s, d in zip(sites, ch.docs)]
            out['used_common'] = True
        gs = S.GroupedSite(sites, labels=labels, charges=pol)
        gs.test_sanity()
    except Exception as e:
        return {'error': type(e).__name__, 'msg': str(e)[:200], 'tb': traceback.format_exc()[-600:],
                'used_common': out.get('used_common', False)}
    labs = labels or [str(i) for i in range(len(sites))]
    dims = [d.dim for d in ch.docs]
    D = int(np.prod(dims))
    # basis map via the state labels of the grouped site: doc tuple -> index of the grouped site
    idx = np.empty(D, dtype=int)
    for flat in range(D):
        t = np.unravel_index(flat, dims)
        lab = ' '.join(ch.docs[k].labels[t[k]] + '_' + labs[k] for k in range(len(sites)))
        idx[flat] = gs.state_labels[lab]
    if sorted(idx) != list(range(D)):
        return {'error': 'labels', 'msg': 'state labels of the grouped site are not a bijection'}
    probs = []
    nops = 0
    for k, d in enumerate(ch.docs):
        for name in sorted(sites[k].opnames):
            if name == 'Id':
                continue
            full = name + labs[k]
            if full not in gs.opnames:
                probs.append('operator %s missing' % full)
                continue
            got = gs.get_op(full).to_ndarray()[np.ix_(idx, idx)]
            want = orc.mb_op(ch.docs, name, k)
            nops += 1
            if np.max(np.abs(got - want)) > 1e-12:
                probs.append('operator %s differs from kron with JW of the left sites (max diff %.2e)' % (full, np.max(np.abs(got - want))))
            if bool(gs.op_needs_JW(full)) != d.needs_JW(name):
                probs.append('need_JW flag of %s' % full)
            hc = gs.hc_ops.get(full)
            if hc is not None and np.max(np.abs(gs.get_op(hc).to_ndarray() - gs.get_op(full).to_ndarray().conj().T)) > 1e-12:
                probs.append('hc_ops pairs %s with %s' % (full, hc))
    JW = gs.JW.to_ndarray()[np.ix_(idx, idx)]
    if np.max(np.abs(JW - orc.kron_all([d.ops['JW'] for d in ch.docs]))) > 1e-12:
        probs.append('JW of the grouped site is not the product of the JWs')
    # charges consistent
    q = gs.leg.to_qflat()
    mod = gs.leg.chinfo.mod
    for name in sorted(gs.opnames):
        op = gs.get_op(name)
        m = op.to_ndarray()
        rr, cc = np.nonzero(np.abs(m) > 1e-14)
        for r, c in zip(rr, cc):
            dq = q[r] - q[c] - op.qtotal
            if any((x != 0) if mm == 1 else (x % mm != 0) for x, mm in zip(dq, mod)):
                probs.append('charge rule violated by %s' % name)
                break
    out['problems'] = probs
    out['nops'] = nops
    out['dim'] = D
    out['qnumber'] = int(gs.leg.chinfo.qnumber)
    return out


def run_corr(case):
    """correlation_function(autoJW) of fermionic operators on a random state vs dense <psi| A_i B_j |psi>"""
    rng = np.random.default_rng(case['seed'])
    ch = gen.Chain(case['sites'])
    L = len(ch.sites)
    psi, q = gen.random_finite_mps(rng, ch, cplx=True)
    th = gen.window_to_doc(ch, gen.dense_window(psi, 0, L), 0)
    res = []
    for (a, b) in case['pairs']:
        r = {'a': a, 'b': b}
        try:
            C = psi.correlation_function(a, b, **case.get('kwargs', {}))
            s1 = case.get('kwargs', {}).get('sites1', list(range(L)))
            s2 = case.get('kwargs', {}).get('sites2', list(range(L)))
            want = np.empty((len(s1), len(s2)), dtype=complex)
            for x, i in enumerate(s1):
                for y, j in enumerate(s2):
                    want[x, y] = gen.expect_window(th, orc.term_op(ch.docs, [(a, i), (b, j)]), th)
            r['diff'] = float(np.max(np.abs(C - want)))
            r['arg'] = [int(x) for x in np.unravel_index(np.argmax(np.abs(C - want)), C.shape)]
            r['norm'] = float(np.max(np.abs(want)))
        except Exception as e:
            r['error'] = '%s: %s' % (type(e).__name__, str(e)[:150])
        res.append(r)
    return res


def main():
    payload = json.load(open(sys.argv[1]))
    f = {'table': run_table, 'terms': run_terms, 'mpo': run_mpo, 'grouped': run_grouped, 'corr': run_corr}[payload['kind']]
    res = []
    for c in payload['cases']:
        try:
            res.append(f(c))
        except Exception:
            res.append({'runner_error': traceback.format_exc()[-1200:]})
    json.dump(res, open(sys.argv[2], 'w'))


if __name__ == '__main__':
    main()
