"""Runs the tenpy tree under test on the cases of harness/c12.py (fresh interpreter, JSON in/out)."""
import json
import os
import sys
import traceback
import warnings

import numpy as np

warnings.simplefilter('ignore')
sys.path.insert(0, os.path.join(os.environ.get('VERIF_DIR', '/verif'), 'harness'))
import c12_oracle as orc  # noqa: E402
import c08_gen as gen  # noqa: E402


def cjson(m):
    m = np.asarray(m, dtype=complex)
    return [[[float(z.real), float(z.imag)] for z in row] for row in m]


def run_table(case):
    """dump one site configuration (own code, independent of the exporter's helper)"""
    site = gen.make_site([case['class'], case['kwargs']])
    site.test_sanity()
    out = {'dim': int(site.dim), 'perm': [int(x) for x in site.perm],
           'labels': {str(k): int(v) for k, v in site.state_labels.items()},
           'mod': [int(x) for x in site.leg.chinfo.mod], 'charges': [[int(x) for x in r] for r in site.leg.to_qflat()],
           'need_JW': sorted(site.need_JW_string), 'hc': {str(a): str(b) for a, b in site.hc_ops.items()},
           'jw_exp': [float(x) for x in np.asarray(site.JW_exponent).reshape(-1)],
           'ops': {n: {'m': cjson(site.get_op(n).to_ndarray()), 'q': [int(x) for x in site.get_op(n).qtotal]}
                   for n in sorted(site.opnames)}}
    if case.get('api'):
        # every documented state label (aliases) + the read-only accessors on products of operator names, through the mirror
        mir = mirror_of_spec([case['class'], case['kwargs']], site)
        rng = np.random.default_rng(case.get('seed', 0))
        out['api_problems'] = verify_site(site, mir) + verify_api(site, mir, rng, int(case.get('nwords', 8)))
    return out


def run_ctor(case):
    """constructor options outside the table: falsy `conserve` values (documented `str | None`), invalid values"""
    import tenpy.networks.site as S
    cls = getattr(S, case['class'])
    try:
        site = cls(**case['kwargs'])
    except Exception as e:
        return {'raised': type(e).__name__, 'msg': str(e)[:120]}
    site.test_sanity()
    return {'raised': None, 'perm': [int(x) for x in site.perm], 'labels': {str(k): int(v) for k, v in site.state_labels.items()},
            'mod': [int(x) for x in site.leg.chinfo.mod], 'charges': [[int(x) for x in r] for r in site.leg.to_qflat()],
            'ops': {n: cjson(site.get_op(n).to_ndarray()) for n in sorted(site.opnames)},
            'attrs': {k: (v if isinstance(v, (str, int, float)) else repr(v)) for k, v in vars(site).items()
                      if k in ('conserve', 'cons_N', 'cons_Sz', 'filling', 'S', 'Nmax', 'q')}}


def run_terms(case):
    """order_combine_term / (multi_)coupling_term_handle_JW on a term + dense check of the returned term"""
    from tenpy.networks.terms import order_combine_term, CouplingTerms, MultiCouplingTerms
    ch = gen.Chain(case['sites'])
    L = len(ch.sites)
    term = [(str(a), int(b)) for a, b in case['term']]
    out = {'flags': [bool(ch.sites[i % L].op_needs_JW(op)) for op, i in term]}
    comb, sign = order_combine_term(list(term), ch.sites)
    out['combined'] = [[str(a), int(b)] for a, b in comb]
    out['sign'] = int(sign)
    out['comb_flags'] = [bool(ch.sites[i % L].op_needs_JW(op)) for op, i in comb]
    if len(comb) >= 2:
        try:
            mc = MultiCouplingTerms(L)
            s, ijkl, ops, opstr = mc.multi_coupling_term_handle_JW(1.0, [tuple(t) for t in comb], ch.sites)
            out['multi'] = {'ijkl': [int(x) for x in ijkl], 'ops': [str(x) for x in ops], 'opstr': [str(x) for x in opstr]}
        except ValueError as e:
            out['multi'] = {'error': str(e)[:80]}
    if len(comb) == 2:
        try:
            ct = CouplingTerms(L)
            s, i, j, op_i, op_j, opstr = ct.coupling_term_handle_JW(1.0, [tuple(t) for t in comb], ch.sites)
            out['coupling'] = {'i': int(i), 'j': int(j), 'op_i': str(op_i), 'op_j': str(op_j), 'opstr': str(opstr)}
        except ValueError as e:
            out['coupling'] = {'error': str(e)[:80]}
    # the documented option op_string: an explicit string equal to the one auto-determination finds gives the same result; a plain
    # 'JW' "just applies a string on each segment" (operators unchanged)
    rel = []
    cf = out['comb_flags']
    ct = [tuple(t) for t in comb]
    if 'multi' in out and 'ijkl' in out['multi']:
        mc = MultiCouplingTerms(L)
        if not any(cf):
            s2, ij2, ops2, str2 = mc.multi_coupling_term_handle_JW(0.5, list(ct), ch.sites, 'Id')
            if s2 != 0.5 or [int(x) for x in ij2] != out['multi']['ijkl'] or list(ops2) != out['multi']['ops'] or list(str2) != out['multi']['opstr']:
                rel.append("multi_coupling_term_handle_JW(op_string='Id') = %s differs from the auto-determined result" % ((ij2, ops2, str2),))
    if len(comb) >= 2 and any(cf):
        mc = MultiCouplingTerms(L)
        s2, ij2, ops2, str2 = mc.multi_coupling_term_handle_JW(2.0, list(ct), ch.sites, 'JW')
        shift = ij2[0] - comb[0][1]
        if s2 != 2.0 or list(ops2) != [a for a, _ in comb] or list(str2) != ['JW'] * (len(comb) - 1) or not 0 <= ij2[0] < L or shift % L \
                or [int(x) - shift for x in ij2] != [b for _, b in comb]:
            rel.append("multi_coupling_term_handle_JW(op_string='JW') = %s: documented to apply the given string on each segment" % ((ij2, ops2, str2),))
    if 'coupling' in out and 'error' not in out['coupling']:
        ctm = CouplingTerms(L)
        r2 = ctm.coupling_term_handle_JW(1.0, list(ct), ch.sites, out['coupling']['opstr'])
        if [int(r2[1]), int(r2[2]), str(r2[3]), str(r2[4]), str(r2[5])] != [out['coupling'][k] for k in ('i', 'j', 'op_i', 'op_j', 'opstr')]:
            rel.append('coupling_term_handle_JW(op_string=%r) = %s differs from the auto-determined result' % (out['coupling']['opstr'], r2[1:]))
    if len(comb) == 2:
        r3 = CouplingTerms(L).coupling_term_handle_JW(1.0, list(ct), ch.sites, 'Id')
        if [str(r3[3]), str(r3[4]), str(r3[5])] != [comb[0][0], comb[1][0], 'Id']:
            rel.append("coupling_term_handle_JW(op_string='Id') = %s: documented to use the given string" % (r3[1:],))
    if len(comb) == 1:
        try:
            MultiCouplingTerms(L).multi_coupling_term_handle_JW(1.0, list(ct), ch.sites)
            rel.append('multi_coupling_term_handle_JW accepted an onsite term')
        except ValueError:
            pass
    out['opstring_problems'] = rel
    # dense: sign * (product of the returned per-site operators and strings, in the site bases) vs oracle product of the term
    if case.get('dense') and 'multi' in out and 'ijkl' in out['multi'] and min(i for _, i in term) >= 0 and max(i for _, i in term) < L:
        ijkl, ops, opstr = out['multi']['ijkl'], out['multi']['ops'], out['multi']['opstr']
        words = [[] for _ in range(L)]
        for x, (i, op) in enumerate(zip(ijkl, ops)):
            words[i] = op.split()
            if x + 1 < len(ijkl):
                for k in range(i + 1, ijkl[x + 1]):
                    words[k] = [opstr[x]]
        got = sign * orc.product_op(ch.docs, words)
        want = orc.term_op(ch.docs, term)
        out['dense_diff'] = float(np.max(np.abs(got - want)))
        out['dense_norm'] = float(np.max(np.abs(want)))
    return out


def mpo_dense(H):
    L = H.L
    T = None
    for i in range(L):
        W = H.get_W(i).itranspose(['wL', 'wR', 'p', 'p*']).to_ndarray()
        if T is None:
            T = W[H.get_IdL(0)]                      # (wR, p, p*)
        else:
            T = np.einsum('wab,wvpq->vapbq', T, W)
            s = T.shape
            T = T.reshape(s[0], s[1] * s[2], s[3] * s[4])
    return T[H.get_IdR(L - 1)]


def basis_change(ch):
    """permutation matrix U with  M_doc = U M_site U^T  for the chain (kron of the site -> doc maps)"""
    U = np.eye(1)
    for m in ch.maps:
        P = np.zeros((len(m), len(m)))
        P[m, np.arange(len(m))] = 1.0
        U = np.kron(U, P)
    return U


def run_mpo(case):
    """every term -> TermList -> MPOGraph.from_term_list -> MPO -> dense;  compare with the oracle product, and the
    anticommutator of reversed pairs with the local anticommutator"""
    from tenpy.networks.terms import TermList
    from tenpy.networks.mpo import MPOGraph
    ch = gen.Chain(case['sites'])
    L = len(ch.sites)
    U = basis_change(ch)
    res = []

    # ONE prefactor array shared by every TermList of the case (as a user looping over terms with a fixed coupling
    # array would do): building a TermList / MPO must not write into it
    g = np.array([1.0])

    def dense_of(term):
        tl = TermList([[(str(a), int(b)) for a, b in term]], g)
        H = MPOGraph.from_term_list(tl, ch.sites, 'finite', unit_cell_width=L).build_MPO()
        return U @ mpo_dense(H) @ U.T

    for term in case['terms']:
        r = {}
        try:
            term = [(str(a), int(b)) for a, b in term]
            D = dense_of(term)
            want = orc.term_op(ch.docs, term)
            r['diff'] = float(np.max(np.abs(D - want)))
            r['norm'] = float(np.max(np.abs(want)))
            r['g'] = float(g[0])
            if len(term) == 2 and case.get('anticomm'):
                (a, i), (b, j) = term
                D2 = dense_of([(b, j), (a, i)])
                if i == j:
                    loc = ch.docs[i].op(a) @ ch.docs[i].op(b) + ch.docs[i].op(b) @ ch.docs[i].op(a)
                    mats = [d.ops['Id'] for d in ch.docs]
                    mats[i] = loc
                    exp = orc.kron_all(mats)
                else:
                    exp = np.zeros_like(D)
                r['anti_diff'] = float(np.max(np.abs(D + D2 - exp)))
        except Exception as e:
            r['error'] = '%s: %s' % (type(e).__name__, str(e)[:150])
        res.append(r)
    return res


def run_grouped(case):
    """GroupedSite of heterogeneous sites with a charges policy: every operator vs kron with the JW of the left sites folded in"""
    import tenpy.networks.site as S
    ch = gen.Chain(case['sites'])
    sites = ch.sites
    pol = case['charges']
    labels = case.get('labels')
    out = {}
    if case.get('share'):
        # equal specs = the SAME Site object several times (the common `[site] * n` use)
        for k in range(len(sites)):
            for j in range(k):
                if case['sites'][j] == case['sites'][k]:
                    sites[k] = sites[j]
                    break
    try:
        if case.get('common') and not all(s.leg.chinfo == sites[0].leg.chinfo and s.leg.chinfo.names == sites[0].leg.chinfo.names
                                          for s in sites):
            # GroupedSite(charges='same') requires a common ChargeInfo: documented way is set_common_charges beforehand
            S.set_common_charges(_unique(sites), case['common'])
            ch.maps = [gen.site_to_doc_index(s, d) for s, d in zip(sites, ch.docs)]
            out['used_common'] = True
        snaps = [snapshot(s) for s in sites]
        mirs_in = [mirror_of_spec(sp, s) for sp, s in zip(case['sites'], sites)]
        gs = S.GroupedSite(sites, labels=labels, charges=pol)
        gs.test_sanity()
        out['originals_changed'] = [[k, snapshot_diff(sn, snapshot(s))] for k, (s, sn) in enumerate(zip(sites, snaps)) if snapshot_diff(sn, snapshot(s))]
    except Exception as e:
        return {'error': type(e).__name__, 'msg': str(e)[:200], 'tb': traceback.format_exc()[-600:],
                'used_common': out.get('used_common', False)}
    labs = labels or [str(i) for i in range(len(sites))]
    dims = [d.dim for d in ch.docs]
    D = int(np.prod(dims))
    # basis map via the state labels of the grouped site: doc tuple -> index of the grouped site
    idx = np.empty(D, dtype=int)
    for flat in range(D):
        t = np.unravel_index(flat, dims)
        lab = ' '.join(ch.docs[k].labels[t[k]] + '_' + labs[k] for k in range(len(sites)))
        idx[flat] = gs.state_labels[lab]
    if sorted(idx) != list(range(D)):
        return {'error': 'labels', 'msg': 'state labels of the grouped site are not a bijection'}
    probs = []
    nops = 0
    # the sites handed in are documented to be left alone (copied when charges != 'same'; only their charges adjusted by
    # set_common_charges): re-verify every one of them through its own state labels
    for k, dd in out.get('originals_changed', []):
        probs.append('GroupedSite changed the %s of the site #%d handed in (documented: copied before use / nothing to do)' % (', '.join(dd), k))
    for k, s in enumerate(sites):
        p = verify_site(s, mirror_of_spec(case['sites'][k]))
        if p:
            probs.append('original site %d (%s) after the grouping: %s' % (k, case['sites'][k][0], '; '.join(p[:2])))
    for k, d in enumerate(ch.docs):
        for name in sorted(sites[k].opnames):
            if name == 'Id':
                continue
            full = name + labs[k]
            if full not in gs.opnames:
                probs.append('operator %s missing' % full)
                continue
            got = gs.get_op(full).to_ndarray()[np.ix_(idx, idx)]
            want = orc.mb_op(ch.docs, name, k)
            nops += 1
            if np.max(np.abs(got - want)) > 1e-12:
                probs.append('operator %s differs from kron with JW of the left sites (max diff %.2e)' % (full, np.max(np.abs(got - want))))
            if bool(gs.op_needs_JW(full)) != d.needs_JW(name):
                probs.append('need_JW flag of %s' % full)
            hc = gs.hc_ops.get(full)
            if hc is not None and np.max(np.abs(gs.get_op(hc).to_ndarray() - gs.get_op(full).to_ndarray().conj().T)) > 1e-12:
                probs.append('hc_ops pairs %s with %s' % (full, hc))
    JW = gs.JW.to_ndarray()[np.ix_(idx, idx)]
    if np.max(np.abs(JW - orc.kron_all([d.ops['JW'] for d in ch.docs]))) > 1e-12:
        probs.append('JW of the grouped site is not the product of the JWs')
    # charges consistent
    q = gs.leg.to_qflat()
    mod = gs.leg.chinfo.mod
    for name in sorted(gs.opnames):
        op = gs.get_op(name)
        m = op.to_ndarray()
        rr, cc = np.nonzero(np.abs(m) > 1e-14)
        for r, c in zip(rr, cc):
            dq = q[r] - q[c] - op.qtotal
            if any((x != 0) if mm == 1 else (x % mm != 0) for x, mm in zip(dq, mod)):
                probs.append('charge rule violated by %s' % name)
                break
    # the grouped site against its mirror: every state label (products of ALL labels of the sites, aliases included), hc_ops entries,
    # charges of the product states per policy, accessors on products of operator names
    rng = np.random.default_rng(int(case.get('seed', 0)) + 7)
    gm = grouped_mirror(mirs_in, labs, 'GroupedSite', pol)
    pv = verify_site(gs, gm)
    probs += ['grouped site: ' + x for x in (pv or verify_api(gs, gm, rng, 2))[:2]]
    if list(gs.labels) != list(labs) or gs.n_sites != len(sites) or gs.charges != pol:
        probs.append('attributes labels / n_sites / charges of the GroupedSite')
    # kron(*ops, group) and GroupedSite.kroneckerproduct: plain Kronecker products (no Jordan-Wigner strings) of operators of the sites
    if _same_chinfo(sites):
        pick = [sorted(s_.opnames)[int(rng.integers(len(s_.opnames)))] for s_ in sites]
        arrs = [s_.get_op(n) for s_, n in zip(sites, pick)]
        dense = [a.to_ndarray() for a in arrs]
        n = len(sites)
        T = dense[0]
        for m_ in dense[1:]:
            T = np.multiply.outer(T, m_)                # legs p0, p0*, p1, p1*, ...
        try:
            K0 = S.kron(*arrs, group=False)
            want_l = [x for i in range(n) for x in ('p%d' % i, 'p%d*' % i)]
            if list(K0.get_leg_labels()) != want_l or np.max(np.abs(K0.to_ndarray() - T)) > 1e-13:
                probs.append('kron(%s, group=False): labels %s / entries differ from the outer product' % (pick, list(K0.get_leg_labels())))
            K1 = S.kron(*arrs, group=True)
            want_g = ['(' + '.'.join('p%d' % i for i in range(n)) + ')', '(' + '.'.join('p%d*' % i for i in range(n)) + ')']
            if list(K1.get_leg_labels()) != want_g:
                probs.append('kron(%s, group=True) has the labels %s, documented %s' % (pick, list(K1.get_leg_labels()), want_g))
            else:
                K1s = K1.split_legs().itranspose(want_l)
                if np.max(np.abs(K1s.to_ndarray() - T)) > 1e-13 or K1.legs[0].qconj != 1 or K1.legs[1].qconj != -1:
                    probs.append('kron(%s, group=True) differs from the outer product of the operators' % pick)
            out['kron'] = 1
        except Exception as e:
            probs.append('kron(%s) raised %s: %s' % (pick, type(e).__name__, str(e)[:100]))
        if pol == 'same':
            try:
                KP = gs.kroneckerproduct(arrs).to_ndarray()[np.ix_(idx, idx)]
                want = orc.kron_all([np.asarray(dm)[np.ix_(np.argsort(mp), np.argsort(mp))] for dm, mp in zip(dense, ch.maps)])
                if np.max(np.abs(KP - want)) > 1e-13:
                    probs.append('GroupedSite.kroneckerproduct(%s) differs from the Kronecker product of the operators' % pick)
            except Exception as e:
                probs.append('kroneckerproduct(%s) raised %s: %s' % (pick, type(e).__name__, str(e)[:100]))
    out['problems'] = probs
    out['nops'] = nops
    out['dim'] = D
    out['qnumber'] = int(gs.leg.chinfo.qnumber)
    return out


def run_species(case):
    """spin_half_species(SpeciesSite, cons_N, cons_Sz): the two FermionSites, their charges N_up + N_down / N_up - N_down, and the
    result USED: grouped with charges='same' it must be the SpinHalfFermionSite with the same options (states, Cu/Cd, charges)"""
    import tenpy.networks.site as S
    cn, cs = case['cons_N'], case['cons_Sz']
    kw = dict(case.get('kwargs', {}))
    Sp = S.FermionSite if case.get('as_class') else 'FermionSite'
    try:
        sites, names = S.spin_half_species(Sp, cn, cs, **kw)
    except Exception as e:
        if case.get('refused') and isinstance(e, ValueError) and 'invalid `cons_' in str(e):
            return {'problems': []}
        return {'error': '%s: %s' % (type(e).__name__, str(e)[:150]), 'tb': traceback.format_exc()[-500:]}
    if case.get('refused'):
        return {'problems': ['invalid option accepted']}
    probs = []
    if list(names) != ['up', 'down'] or len(sites) != 2 or sites[0] is sites[1]:
        probs.append('returned species names %r / %d sites' % (names, len(sites)))
    rng = np.random.default_rng(case.get('seed', 0))
    cnn, css = cn or 'None', cs or 'None'
    spec = ['FermionSite', dict(kw, conserve='None')]
    mod, cols = [], []           # documented charges: total N (parity: mod 2), 2*Sz = N_up - N_down (parity: mod 4)
    if cnn != 'None':
        mod.append(1 if cnn == 'N' else 2)
        cols.append((1, 1))
    if css != 'None':
        mod.append(1 if css == 'Sz' else 4)
        cols.append((1, -1))
    mirs = []
    for k, st in enumerate(sites):
        m = mirror_of_spec(spec)
        m.q = np.array([[n * c[k] for c in cols] for n in (0, 1)], dtype=np.int64).reshape(2, len(cols))
        m.mod = list(mod)
        m.names = [str(x) for x in st.leg.chinfo.names]
        if len(m.names) != len(mod):
            probs.append('site %d has the charges %s' % (k, m.names))
            m.q = None
        mirs.append(m)
        pv = verify_site(st, m) or verify_api(st, m, rng, 3)
        probs += ['%s species site: %s' % (names[k] if k < len(names) else k, x) for x in pv[:2]]
    if probs:
        return {'problems': probs}
    try:
        gs = S.GroupedSite(list(sites), charges='same')
        gm = grouped_mirror(mirs, ['0', '1'], 'GroupedSite(spin_half_species)', 'same')
        pv = verify_site(gs, gm) or verify_api(gs, gm, rng, 2)
        probs += ['grouped species sites: ' + x for x in pv[:2]]
        sf = S.SpinHalfFermionSite(cnn, css, **kw)
        lab = {'empty': 'empty_0 empty_1', 'up': 'full_0 empty_1', 'down': 'empty_0 full_1', 'full': 'full_0 full_1'}
        si = [sf.state_labels[a] for a in lab]
        gi = [gs.state_labels[b] for b in lab.values()]
        for a, b in [('Cu', 'C0'), ('Cd', 'C1'), ('Cdu', 'Cd0'), ('Cdd', 'Cd1'), ('Nu', 'N0'), ('Nd', 'N1'), ('JW', 'JW')]:
            if np.max(np.abs(sf.get_op(a).to_ndarray()[np.ix_(si, si)] - gs.get_op(b).to_ndarray()[np.ix_(gi, gi)])) > 1e-14:
                probs.append('operator %s of the grouped species sites is not %s of SpinHalfFermionSite(%r, %r)' % (b, a, cnn, css))
        qs, qg = sf.leg.to_qflat()[si], gs.leg.to_qflat()[gi]
        ms = [int(x) for x in sf.leg.chinfo.mod]
        if ms != [int(x) for x in gs.leg.chinfo.mod] or any(((x - y) % m_ if m_ > 1 else x - y) != 0 for r1, r2 in zip(qs, qg) for x, y, m_ in zip(r1, r2, ms)):
            probs.append('charges of the grouped species sites %s (mod %s) differ from those of SpinHalfFermionSite(%r, %r) %s'
                         % (qg.tolist(), list(gs.leg.chinfo.mod), cnn, css, qs.tolist()))
    except Exception as e:
        probs.append('using the species sites raised %s: %s' % (type(e).__name__, str(e)[:150]))
    return {'problems': probs}


def run_corr(case):
    """correlation_function(autoJW) of fermionic operators on a random state vs dense <psi| A_i B_j |psi>"""
    rng = np.random.default_rng(case['seed'])
    ch = gen.Chain(case['sites'])
    L = len(ch.sites)
    psi, q = gen.random_finite_mps(rng, ch, cplx=True)
    th = gen.window_to_doc(ch, gen.dense_window(psi, 0, L), 0)
    res = []
    for (a, b) in case['pairs']:
        r = {'a': a, 'b': b}
        try:
            kw = dict(case.get('kwargs', {}))
            if case.get('oplists'):
                # operators given as lists: ops1[i] acts on site i
                a_, b_ = a, b
                a = [a_[i % len(a_)] for i in range(L)]
                b = [b_[i % len(b_)] for i in range(L)]
                r['a'], r['b'] = a_, b_
            if case.get('arrays'):
                # operators handed in as npc arrays (documented; the Jordan-Wigner string can then not be determined: bosonic operators only)
                C = psi.correlation_function(ch.sites[0].get_op(a), ch.sites[0].get_op(b), **kw)
            else:
                C = psi.correlation_function(a, b, **kw)

            def rng_(x):
                return list(range(L)) if x is None else (list(range(x)) if isinstance(x, int) else sorted(x))
            s1, s2 = rng_(kw.get('sites1')), rng_(kw.get('sites2'))
            oa = (lambda i: a[i]) if isinstance(a, list) else (lambda i: a)
            ob = (lambda j: b[j]) if isinstance(b, list) else (lambda j: b)
            want = np.empty((len(s1), len(s2)), dtype=complex)
            for x, i in enumerate(s1):
                for y, j in enumerate(s2):
                    want[x, y] = gen.expect_window(th, orc.term_op(ch.docs, [(oa(i), i), (ob(j), j)]), th)
            r['diff'] = float(np.max(np.abs(C - want))) if C.shape == want.shape else 1e9
            r['arg'] = [int(x) for x in np.unravel_index(np.argmax(np.abs(C - want)), C.shape)] if C.shape == want.shape else list(C.shape)
            r['norm'] = float(np.max(np.abs(want)))
            if case.get('refuse') and not isinstance(a, list) and ch.docs[0].needs_JW(a) and ch.docs[0].needs_JW(b):
                # documented refusals: only one of the two operators needs a string / a string is needed but str_on_first=False
                for what, f_ in [('mixed', lambda: psi.correlation_function(a, 'N' if 'N' in ch.sites[0].opnames else 'Ntot')),
                                 ('str_on_first=False', lambda: psi.correlation_function(a, b, str_on_first=False))]:
                    try:
                        f_()
                        r['not_refused'] = what
                    except ValueError:
                        pass
                # the explicit string opstr='JW' is what autoJW inserts
                C2 = psi.correlation_function(a, b, opstr='JW', **kw)
                r['opstr_diff'] = float(np.max(np.abs(C2 - C)))
        except Exception as e:
            r['error'] = '%s: %s' % (type(e).__name__, str(e)[:150])
        res.append(r)
    return res


# ---------------------------------------------------------------------------------------------------------------------
# basis bookkeeping: "mirrors" = what the documentation says a site IS (doc-basis state labels + operator matrices in the doc
# basis), maintained next to the real Site objects through every site-transforming call, and re-verified through the
# state labels (label -> basis index -> matrix elements)
# ---------------------------------------------------------------------------------------------------------------------
class Mirror:
    def __init__(self, labels, ops, simple, tag, alias=None, hc=None, q=None, mod=None, names=None):
        self.labels = list(labels)          # primary state label per doc-basis index
        self.ops = dict(ops)                # name -> (matrix in the doc basis, needs_JW)
        self.simple = simple                # a predefined site (Site.perm is documented) / a GroupedSite
        self.tag = tag
        self.alias = dict(alias or {})      # additional documented state label -> doc-basis index
        # name -> True (hc_ops must have an entry) / False (must not: added with hc=False) / None (either)
        self.hc = None if hc is None else dict(hc)
        # charges of the states in the doc basis (None = not tracked), one column per charge
        self.q = None if q is None else np.array(q, dtype=np.int64).reshape(len(self.labels), -1)
        self.mod = None if mod is None else [int(x) for x in mod]
        self.names = None if names is None else [str(x) for x in names]

    def copy(self, tag=None):
        return Mirror(self.labels, self.ops, self.simple, tag or self.tag, self.alias, self.hc, self.q, self.mod, self.names)

    def charges_from(self, site):
        """trust the charges of a freshly constructed predefined site (their consistency with the operators is what the table stream
        and T12_charges_consistent check); every later transformation of them is predicted from the documentation"""
        idx, p = label_index(site, self)
        if idx is None:
            return self
        self.q = np.array(site.leg.to_qflat(), dtype=np.int64).reshape(len(self.labels), -1)[idx]
        self.mod = [int(x) for x in site.leg.chinfo.mod]
        self.names = [str(x) for x in site.leg.chinfo.names]
        return self

    def drop_charges(self):
        self.q, self.mod, self.names = np.zeros((len(self.labels), 0), dtype=np.int64), [], []


def mirror_of_spec(spec, site=None):
    cls, kw = spec
    kw = {k: v for k, v in kw.items() if not k.startswith('_')}
    doc = orc.doc_site(cls, kw)
    excl = orc.excluded_ops(cls, kw)
    ops = {n: (m, n in doc.need_JW) for n, m in doc.ops.items() if n not in excl}
    alias = {a: doc.labels.index(b) for a, b in orc.doc_aliases(cls, kw).items()}
    # every operator of the predefined sites has its hermitian conjugate among the operators of the site
    mir = Mirror(doc.labels, ops, True, '%s(%s)' % (cls, ', '.join('%s=%r' % kv for kv in sorted(spec[1].items()))), alias=alias,
                 hc={n: True for n in ops})
    if site is not None:
        mir.charges_from(site)
    return mir


def grouped_mirror(mirs, labs, tag, pol=None):
    import itertools
    dims = [len(m.labels) for m in mirs]
    tuples = list(itertools.product(*[range(d) for d in dims]))
    labels = [' '.join(m.labels[t[k]] + '_' + labs[k] for k, m in enumerate(mirs)) for t in tuples]
    # "set state labels for ' '.join(state[i]+'_'+labels[i])": for EVERY state label of the sites, aliases included
    alias = {}
    per_site = [[(lab, k) for k, lab in enumerate(m.labels)] + list(m.alias.items()) for m in mirs]
    for combo in itertools.product(*per_site):
        lab = ' '.join(c[0] + '_' + labs[k] for k, c in enumerate(combo))
        alias[lab] = int(np.ravel_multi_index([c[1] for c in combo], dims))
    for lab in labels:
        alias.pop(lab)
    JWs = [m.ops['JW'][0] for m in mirs]
    Ids = [np.eye(d, dtype=complex) for d in dims]
    ops = {'Id': (orc.kron_all(Ids), False), 'JW': (orc.kron_all(JWs), True)}
    hc = {'Id': True, 'JW': True}
    for k, m in enumerate(mirs):
        for n, (M, jw) in m.ops.items():
            if n == 'Id':
                continue
            mats = [(JWs[x] if jw else Ids[x]) if x < k else (M if x == k else Ids[x]) for x in range(len(mirs))]
            ops[n + labs[k]] = (orc.kron_all(mats), jw)
            hc[n + labs[k]] = None if m.hc is None else m.hc.get(n)
    g = Mirror(labels, ops, False, tag, alias=alias, hc=hc)
    if pol is not None and all(m.q is not None for m in mirs):
        if pol == 'drop':
            g.drop_charges()
        elif pol == 'same':
            # "the total charge is the sum of the charges on the individual sites" (common ChargeInfo)
            if all(m.mod == mirs[0].mod and m.names == mirs[0].names for m in mirs):
                g.q = np.array([sum(m.q[t[k]] for k, m in enumerate(mirs)) for t in tuples], dtype=np.int64).reshape(len(tuples), -1)
                g.mod, g.names = list(mirs[0].mod), list(mirs[0].names)
        elif pol == 'independent':
            # "the charges are conserved separately"
            g.q = np.array([np.concatenate([m.q[t[k]] for k, m in enumerate(mirs)]) for t in tuples], dtype=np.int64).reshape(len(tuples), -1)
            g.mod = [x for m in mirs for x in m.mod]
            g.names = [x for m in mirs for x in m.names]
    return g


def predict_common_charges(mirs, new_charges, new_names=None, new_mod=None):
    """set_common_charges on the mirrors, from its documentation.  Returns 'ok' / 'mod' (documented ValueError: charges of a
    different mod nature get combined) / 'unknown' (charges of some mirror are not tracked)"""
    if any(m.q is None for m in mirs):
        for m in mirs:
            m.q = m.mod = m.names = None
        return 'unknown'
    if new_charges == 'same':
        # charges with the same name match, charges with different names are independently conserved
        order = []
        for s, m in enumerate(mirs):
            for i, n in enumerate(m.names):
                if n not in order:
                    order.append(n)
        new_charges = [[(1, s, i) for s, m in enumerate(mirs) for i, n in enumerate(m.names) if n == name] for name in order]
    elif new_charges == 'drop':
        new_charges = []
    elif new_charges == 'independent':
        new_charges = [[(1, s, i)] for s, m in enumerate(mirs) for i in range(len(m.names))]
    res = []
    for lst in new_charges:
        lst = [(f, s, (mirs[s].names.index(i) if isinstance(i, str) else i)) for f, s, i in lst]
        res.append(lst)
    names = list(new_names) if new_names is not None else [mirs[lst[0][1]].names[lst[0][2]] for lst in res]
    if new_mod is None:
        mod = [mirs[lst[0][1]].mod[lst[0][2]] for lst in res]
        if any(mirs[s].mod[i] != mod[k] for k, lst in enumerate(res) for _, s, i in lst):
            return 'mod'
    else:
        mod = [int(x) for x in new_mod]
    for s, m in enumerate(mirs):
        q = np.zeros((len(m.labels), len(res)), dtype=np.int64)
        for k, lst in enumerate(res):
            for f, s2, i in lst:
                if s2 == s:
                    q[:, k] += np.array(np.rint(f * m.q[:, i]), dtype=np.int64)
        m.q, m.mod, m.names = q, list(mod), list(names)
    return 'ok'


def label_index(site, mir):
    """idx[k] = basis index of `site` of the state the documentation calls mir.labels[k]; (None, problem) when not a bijection"""
    idx = []
    for lab in mir.labels:
        if lab not in site.state_labels:
            return None, 'state label %r missing' % lab
        idx.append(int(site.state_labels[lab]))
    if sorted(idx) != list(range(len(mir.labels))):
        return None, 'state labels %s -> %s are not a bijection onto the basis' % (mir.labels[:6], idx[:6])
    return idx, None


def _cols(q, mod, names):
    q = np.asarray(q).reshape(len(q), -1) if len(q) else np.zeros((0, len(mod)), dtype=np.int64)
    out = []
    for k, (m, n) in enumerate(zip(mod, names)):
        col = q[:, k]
        out.append((str(n), int(m), tuple(int(x) % int(m) if int(m) > 1 else int(x) for x in col)))
    return sorted(out)


def verify_site(site, mir):
    """all that the documentation says about `site`, read through its state labels"""
    probs = []
    d = len(mir.labels)
    if int(site.dim) != d:
        return ['dimension %d, documented %d' % (site.dim, d)]
    try:
        site.test_sanity()
    except Exception as e:
        probs.append('test_sanity raised %s: %s' % (type(e).__name__, str(e)[:120]))
    idx, p = label_index(site, mir)
    if idx is None:
        return probs + [p]
    # every documented label (aliases included) names the documented state, and there are no other labels
    want = {lab: idx[k] for k, lab in enumerate(mir.labels)}
    want.update({a: idx[k] for a, k in mir.alias.items()})
    got = {str(k): int(v) for k, v in site.state_labels.items()}
    if got != want:
        bad = sorted(k for k in set(got) | set(want) if got.get(k) != want.get(k))[:4]
        probs.append('state labels %s: the site has %s, documented (alias of the same state) %s'
                     % (bad, [got.get(k) for k in bad], [want.get(k) for k in bad]))
    if mir.simple:
        perm = [int(x) for x in site.perm]
        if sorted(perm) != list(range(d)):
            probs.append('perm %s is not a permutation' % perm)
        else:
            for k, lab in enumerate(mir.labels):
                if perm[idx[k]] != k:
                    probs.append('perm[state_labels[%r]] = %d, documented basis index %d' % (lab, perm[idx[k]], k))
                    break
    names = set(site.opnames)
    if names != set(mir.ops):
        probs.append('operator names differ from the expected ones by %s' % sorted(names ^ set(mir.ops))[:6])
    ix = np.ix_(idx, idx)
    for n in sorted(names & set(mir.ops)):
        M, jw = mir.ops[n]
        try:
            got = site.get_op(n).to_ndarray()[ix]
        except Exception as e:
            probs.append('get_op(%r) raised %s: %s' % (n, type(e).__name__, str(e)[:100]))
            continue
        diff = np.abs(got - M)
        if np.max(diff) > 1e-12:
            r, c = np.unravel_index(np.argmax(diff), diff.shape)
            probs.append('<%s|%s|%s> = %s through the state labels, documented value %s'
                         % (mir.labels[r], n, mir.labels[c], complex(np.round(got[r, c], 12)), complex(np.round(M[r, c], 12))))
        if bool(site.op_needs_JW(n)) != bool(jw):
            probs.append('op_needs_JW(%r) = %s, documented %s' % (n, bool(site.op_needs_JW(n)), bool(jw)))
    for a, b in site.hc_ops.items():
        if a in mir.ops and b in mir.ops and np.max(np.abs(mir.ops[a][0].conj().T - mir.ops[b][0])) > 1e-12:
            probs.append('hc_ops pairs %s with %s' % (a, b))
        if a not in names or b not in names:
            probs.append('hc_ops mentions %s/%s which is not an operator' % (a, b))
    if mir.hc is not None:
        for n in sorted(names & set(mir.hc)):
            if mir.hc[n] is True and n not in site.hc_ops:
                probs.append('operator %s lost its hc_ops entry' % n)
            elif mir.hc[n] is False and n in site.hc_ops:
                probs.append('operator %s (added with hc=False) has the hc_ops entry %r' % (n, site.hc_ops[n]))
    if mir.q is not None:
        ch = site.leg.chinfo
        qs = np.array(site.leg.to_qflat(), dtype=np.int64).reshape(d, -1)[idx]
        got = _cols(qs, [int(x) for x in ch.mod], [str(x) for x in ch.names])
        want = _cols(mir.q, mir.mod, mir.names)
        if got != want:
            probs.append('charges of the states %s (name, mod, values): the site has %s, the documentation of the calls made gives %s'
                         % (mir.labels[:6], got, want))
    return probs


def verify_api(site, mir, rng, nwords=3):
    """the read-only accessors of Site on `site`: state_index / state_indices, get_op / op_needs_JW / valid_opname /
    get_hc_op_name / multiply_op_names / multiply_operators on PRODUCTS of operator names, onsite_ops, charge_to_JW_signs"""
    probs = []
    idx, p = label_index(site, mir)
    if idx is None:
        return [p]
    d = len(idx)
    ix = np.ix_(idx, idx)
    want = {lab: idx[k] for k, lab in enumerate(mir.labels)}
    want.update({a: idx[k] for a, k in mir.alias.items()})
    labs = sorted(want)
    for lab in labs:
        try:
            g = site.state_index(lab)
        except Exception as e:
            g = '%s' % type(e).__name__
        if g != want[lab]:
            probs.append('state_index(%r) = %r, documented state has index %d' % (lab, g, want[lab]))
            break
    k = int(rng.integers(d))
    if site.state_index(k) != k or site.state_index(np.int64(k)) != k:
        probs.append('state_index(%d) = %r' % (k, site.state_index(k)))
    mixed = [labs[int(rng.integers(len(labs)))] if rng.random() < 0.7 else int(rng.integers(d)) for _ in range(4)]
    try:
        gi = [int(x) for x in site.state_indices(mixed)]
        if gi != [want.get(x, x) for x in mixed]:
            probs.append('state_indices(%r) = %r, documented %r' % (mixed, gi, [want.get(x, x) for x in mixed]))
    except Exception as e:
        probs.append('state_indices(%r) raised %s' % (mixed, type(e).__name__))
    try:
        site.state_index('no such state')
        probs.append("state_index('no such state') did not raise KeyError")
    except KeyError:
        pass
    except Exception as e:
        probs.append("state_index('no such state') raised %s instead of KeyError" % type(e).__name__)
    names = sorted(set(site.opnames) & set(mir.ops))
    if sorted(site.onsite_ops) != sorted(site.opnames) or any(site.onsite_ops[n] is not getattr(site, n) for n in site.opnames):
        probs.append('onsite_ops is not {name: attribute} of opnames')
    for bogus in ['NoSuchOp', names[0] + ' NoSuchOp', 'NoSuchOp ' + names[0]]:
        if site.valid_opname(bogus):
            probs.append('valid_opname(%r) is True' % bogus)
        try:
            site.get_op(bogus)
            probs.append('get_op(%r) did not raise' % bogus)
        except ValueError:
            pass
        except Exception as e:
            probs.append('get_op(%r) raised %s instead of ValueError' % (bogus, type(e).__name__))
    if site.multiply_op_names([]) != 'Id' or np.max(np.abs(site.multiply_operators([]).to_ndarray() - np.eye(d))) > 0:
        probs.append('empty product is not Id')
    for w_ in range(nwords):
        n = int(rng.integers(1, 4)) if w_ else 2
        word = [names[int(rng.integers(len(names)))] for _ in range(n)]
        name = ' '.join(word)
        M = np.eye(d, dtype=complex)
        jw = False
        for x in word:
            M = M @ mir.ops[x][0]
            jw = jw != bool(mir.ops[x][1])

        def cmp(what, arr):
            diff = np.abs(arr.to_ndarray()[ix] - M)
            if np.max(diff) > 1e-11:
                r, c = np.unravel_index(np.argmax(diff), diff.shape)
                probs.append('%s: <%s|.|%s> = %s, the product of the documented operators (right-most acts first) gives %s'
                             % (what, mir.labels[r], mir.labels[c], complex(np.round(arr.to_ndarray()[ix][r, c], 12)), complex(np.round(M[r, c], 12))))
        try:
            cmp('get_op(%r)' % name, site.get_op(name))
            if bool(site.op_needs_JW(name)) != jw:
                probs.append('op_needs_JW(%r) = %s, documented parity of the factors %s' % (name, site.op_needs_JW(name), jw))
            if not site.valid_opname(name):
                probs.append('valid_opname(%r) is False' % name)
            nm = site.multiply_op_names(list(word))
            cmp('get_op(multiply_op_names(%r) = %r)' % (word, nm), site.get_op(nm))
            mix = [x if rng.random() < 0.5 else site.get_op(x) for x in word]
            cmp('multiply_operators(%r, some given as arrays)' % word, site.multiply_operators(mix))
            if mir.hc is not None:
                st = [mir.hc.get(x) for x in word]
                if all(x is True for x in st):
                    hn = site.get_hc_op_name(name)
                    H = site.get_op(hn).to_ndarray()[ix]
                    if np.max(np.abs(H - M.conj().T)) > 1e-11 or not site.valid_opname(hn):
                        probs.append('get_hc_op_name(%r) = %r, which is not the hermitian conjugate of the product' % (name, hn))
                elif any(x is False for x in st):
                    try:
                        hn = site.get_hc_op_name(name)
                        probs.append('get_hc_op_name(%r) = %r although a factor was added with hc=False' % (name, hn))
                    except ValueError:
                        pass
        except Exception as e:
            probs.append('accessors on the product %r raised %s: %s' % (name, type(e).__name__, str(e)[:100]))
    # charge_to_JW_signs: when the site defines charge_to_JW_parity, the charges of the states give the diagonal of JW
    JWd = np.real(np.diag(mir.ops['JW'][0]))
    q = np.asarray(site.leg.to_qflat())
    if getattr(site, 'charge_to_JW_parity', None) is not None:
        try:
            sg = np.asarray(site.charge_to_JW_signs(q))[idx]
            s1 = np.array([site.charge_to_JW_signs(q[i]) for i in idx])
            if sg.shape != (d,) or np.max(np.abs(sg - JWd)) > 1e-14 or np.max(np.abs(s1 - JWd)) > 1e-14:
                probs.append('charge_to_JW_signs(charges of the states) = %s, diagonal of JW %s' % (list(sg), list(JWd)))
        except Exception as e:
            probs.append('charge_to_JW_signs raised %s: %s' % (type(e).__name__, str(e)[:80]))
    else:
        try:
            site.charge_to_JW_signs(q)
            probs.append('charge_to_JW_signs did not raise although charge_to_JW_parity is not defined')
        except ValueError:
            pass
    return probs


def snapshot(site):
    """everything a call that is documented NOT to touch `site` must leave as it is"""
    leg = site.leg
    return {'mod': [int(x) for x in leg.chinfo.mod], 'charge names': [str(x) for x in leg.chinfo.names],
            'charges': [[int(x) for x in r] for r in leg.to_qflat()], 'qconj': int(leg.qconj), 'perm': [int(x) for x in site.perm],
            'state_labels': sorted((str(k), int(v)) for k, v in site.state_labels.items()), 'opnames': sorted(site.opnames),
            'need_JW_string': sorted(site.need_JW_string), 'hc_ops': sorted((str(a), str(b)) for a, b in site.hc_ops.items()),
            'charge_to_JW_parity': None if getattr(site, 'charge_to_JW_parity', None) is None else [int(x) for x in site.charge_to_JW_parity]}


def snapshot_diff(a, b):
    return [k for k in a if a[k] != b[k]]


def _same_chinfo(sites):
    return all(s.leg.chinfo == sites[0].leg.chinfo and s.leg.chinfo.names == sites[0].leg.chinfo.names for s in sites)


def _unique(objs):
    out = []
    for o in objs:
        if not any(o is x for x in out):
            out.append(o)
    return out


def _hc_state(mir, M):
    """what add_op(hc=None) is documented to find for the matrix M (doc basis): True / False / None (numerically undecided)"""
    dh = np.max(np.abs(M - M.conj().T))
    ds = [np.max(np.abs(X.conj().T - M)) for X, _ in mir.ops.values()]
    dmin = min([dh] + ds)
    if dmin < 1e-15:
        return True
    if dmin > 1e-12:
        return False
    return None


def _perm_return_problem(what, perm, before, after):
    """the returned permutation of the physical leg: new index k holds the state that had index perm[k]"""
    try:
        perm = [int(x) for x in perm]
        if sorted(perm) != list(range(len(perm))):
            return '%s returned %s, not a permutation' % (what, perm)
        for lab, old in before.items():
            if perm[after[lab]] != old:
                return ('%s returned perm=%s, but the state %r moved from index %d to index %d (perm[%d] = %d)'
                        % (what, perm, lab, old, after[lab], after[lab], perm[after[lab]]))
    except Exception as e:
        return '%s returned %r (%s)' % (what, perm, type(e).__name__)
    return None


def _bad_call(S, npc, site, mir, which):
    """calls documented to be refused (ValueError) or to do nothing: returns (description, problem or None, applicable)"""
    names = sorted(n for n in mir.ops if n not in ('Id', 'JW'))
    d = len(mir.labels)
    which = which % 15
    calls = {
        0: ('add_op(existing name)', lambda: site.add_op(names[0], np.eye(d), hc=False), ValueError),
        1: ("add_op('not valid!')", lambda: site.add_op('not valid!', np.eye(d), hc=False), ValueError),
        2: ('add_op(wrong shape)', lambda: site.add_op('W1x', np.eye(d + 1), hc=False), ValueError),
        3: ('rename_op(to an existing name)', lambda: site.rename_op(names[0], names[-1] if len(names) > 1 else 'Id'), ValueError),
        4: ("add_op('leg')", lambda: site.add_op('leg', np.eye(d), hc=False), ValueError),
        6: ('set_common_charges([site, site])', lambda: S.set_common_charges([site, site]), ValueError),
        7: ("GroupedSite(charges='bogus')", lambda: S.GroupedSite([site, site], charges='bogus'), ValueError),
        8: ("set_common_charges(new_charges='bogus')", lambda: S.set_common_charges([site], 'bogus'), ValueError),
        9: ('kron(one operator)', lambda: S.kron(site.Id), ValueError),
        10: ('rename_op(a, a)', lambda: site.rename_op(names[0], names[0]), None),
        13: ("rename_op('JW', tmp); rename_op(tmp, 'JW')", lambda: (site.rename_op('JW', 'JWtmpx'), site.rename_op('JWtmpx', 'JW')), None),
        14: ('add_op(rank-4 array)', lambda: site.add_op('W14x', npc.outer(site.Id, site.Id), hc=False), ValueError),
        11: ('set_common_charges(wrong old_charge_index)', lambda: S.set_common_charges([site], [[(1, 0, site.leg.chinfo.qnumber)]]), ValueError),
    }
    if which == 5:
        # a dense operator that violates the charges of the site
        cand = [n for n in names if np.any(site.get_op(n).qtotal != 0)]
        if not cand:
            return 'add_op(charge violating)', None, False
        idx, _ = label_index(site, mir)
        Ms = np.zeros((d, d), dtype=complex)
        Ms[np.ix_(idx, idx)] = mir.ops[cand[0]][0] + np.eye(d)
        calls[5] = ('add_op(operator violating the charges)', lambda: site.add_op('W5x', Ms, hc=False, permute_dense=False), ValueError)
    if which == 12:
        q = np.asarray(site.leg.to_qflat())
        if q.shape[1] < 1 or not np.any(q[:, 0] % 2):
            return 'set_common_charges(float factor)', None, False
        calls[12] = ('set_common_charges(factor 0.5 -> non-integer charges)', lambda: S.set_common_charges([site], [[(0.5, 0, 0)]]), ValueError)
    what, fn, exc = calls[which]
    try:
        fn()
    except Exception as e:
        if exc is None or not isinstance(e, exc):
            return what, '%s raised %s: %s' % (what, type(e).__name__, str(e)[:100]), True
        return what, None, True
    if exc is not None:
        return what, '%s did not raise %s' % (what, exc.__name__), True
    return what, None, True


def run_book(case):
    """a sequence of site-transforming calls on a pool of sites; after EVERY call all sites of the pool (originals, deep copies,
    grouped sites) are re-verified against their mirrors (operators, every state label incl. aliases, hc_ops entries, charges of the
    states, and the read-only accessors on products of operator names).  Steps address the predefined sites (and their deep copies)
    by index and the grouped sites created so far by ['g', r] (r modulo their number)."""
    import copy
    import tenpy.networks.site as S
    import tenpy.linalg.np_conserved as npc
    rng = np.random.default_rng(case.get('seed', 0))
    simple = []
    for spec in case['sites']:
        st = gen.make_site(spec)
        simple.append([st, mirror_of_spec(spec, st)])
    grouped = []
    out = {'problems': [], 'applied': [], 'verified': 0, 'permuted': False, 'opts': []}

    def everything():
        return simple + grouped

    def tgt(ref):
        if isinstance(ref, int):
            return simple[ref]
        return grouped[ref[1] % len(grouped)] if grouped else None

    def verify_all(si, step):
        for k, (s, m) in enumerate(everything()):
            p = verify_site(s, m)
            if not p:
                p = verify_api(s, m, rng, 2)
            out['verified'] += 1
            if p:
                out['problems'].append({'step': si, 'op': step, 'site': k, 'tag': m.tag, 'probs': p[:3]})

    def common_same(sites, mirs):
        """set_common_charges(.., 'same') as the documented preparation of GroupedSite(charges='same')"""
        us = _unique(sites)
        um = [mirs[[i for i, x in enumerate(sites) if x is u][0]] for u in us]
        snap = [(m.q, m.mod, m.names) for m in um]
        pred = predict_common_charges(um, 'same')
        try:
            S.set_common_charges(us, 'same')
        except ValueError as e:
            if 'different `mod` nature' not in str(e):
                raise
            for m, (q_, mo, na) in zip(um, snap):
                m.q, m.mod, m.names = q_, mo, na
            if pred == 'ok':
                out['problems'].append({'step': -2, 'op': 'set_common_charges same', 'site': 0, 'tag': um[0].tag,
                                        'probs': ['refused charges of one mod nature: ' + str(e)[:80]]})
            return False
        if pred == 'mod':
            out['problems'].append({'step': -2, 'op': 'set_common_charges same', 'site': 0, 'tag': um[0].tag,
                                    'probs': ['combined charges of a different mod nature without the documented ValueError']})
        return True

    verify_all(-1, 'construction')
    if out['problems']:
        return out
    for si, step in enumerate(case['steps']):
        kind = step[0]
        status = 'ok'
        before = [dict(s.state_labels) for s, _ in everything()]
        snaps = [(s, m, snapshot(s)) for s, m in everything()]
        touched = []            # sites the call is allowed to modify
        extra = []
        try:
            if kind in ('group', 'group_sites'):
                idxs, pol, labels = step[1], step[2], step[3]
                # (an entry ['g', r] = a grouped site created earlier: grouped sites of grouped sites)
                tg = [tgt(i) for i in idxs]
                if any(t is None for t in tg) or np.prod([len(t[1].labels) for t in tg]) > 64:
                    out['applied'].append('skipped')
                    continue
                sites = [t[0] for t in tg]
                mirs = [t[1] for t in tg]
                if pol == 'same' and not _same_chinfo(sites):
                    touched = _unique(sites)
                    if not common_same(sites, mirs):
                        status = 'skipped'
                if status == 'ok' and kind == 'group':
                    labs = labels or [str(i) for i in range(len(sites))]
                    gs = S.GroupedSite(sites, labels=labels, charges=pol)
                    if gs.n_sites != len(sites) or list(gs.labels) != list(labs) or gs.charges != pol or any(a_ is not b_ for a_, b_ in zip(gs.sites, sites)):
                        extra.append('attributes n_sites / sites / labels / charges of the GroupedSite are not the arguments')
                    grouped.append([gs, grouped_mirror(mirs, labs, 'GroupedSite(%s, %r)' % ([m.tag for m in mirs], pol), pol)])
                elif status == 'ok':
                    n = 2
                    labs = labels or [str(i) for i in range(n)]
                    gss = S.group_sites(sites, n=n, labels=labels, charges=pol)
                    if len(gss) != (len(sites) - 1) // n + 1:
                        raise AssertionError('group_sites returned %d sites' % len(gss))
                    for g, gs in enumerate(gss):
                        mm = mirs[g * n:(g + 1) * n]
                        grouped.append([gs, grouped_mirror(mm, labs[:len(mm)], 'group_sites(%s, %r)[%d]' % ([m.tag for m in mirs], pol, g), pol)])
            elif kind == 'set_common':
                idxs, pol, sort = step[1], step[2], step[3]
                opts = step[4] if len(step) > 4 else {}
                sites = [simple[i][0] for i in idxs]
                mirs = [simple[i][1] for i in idxs]
                touched = sites
                new = pol
                new_names = new_mod = None
                if pol in ('sum', 'diff'):
                    chs = [s.leg.chinfo for s in sites]
                    if any(c.qnumber < 1 for c in chs) or len(set(int(c.mod[0]) for c in chs)) != 1 or (pol == 'diff' and int(chs[0].mod[0]) != 1):
                        status = 'skipped'
                    else:
                        one = 1.0 if opts.get('float') else 1
                        new = [[(one if (k == 0 or pol == 'sum') else -one, k, (str(chs[k].names[0]) if opts.get('stridx') else 0))
                                for k in range(len(sites))]]
                        if opts.get('second'):
                            # a second new charge: the first old charge of the first site alone
                            new.append([(1, 0, 0)])
                        if opts.get('names'):
                            new_names = ['Q%d' % k for k in range(len(new))]
                        if opts.get('mod') and int(chs[0].mod[0]) == 1:
                            new_mod = [int(opts['mod'])] * len(new)
                        if opts.get('tuple'):
                            new = tuple(tuple(x) for x in new)
                elif opts.get('names') and pol == 'independent':
                    new_names = ['Q%d' % k for k in range(sum(s.leg.chinfo.qnumber for s in sites))]
                if status == 'ok':
                    snapm = [(m.q, m.mod, m.names) for m in mirs]
                    pred = predict_common_charges(mirs, [list(x) for x in new] if not isinstance(new, str) else new, new_names, new_mod)
                    lab0 = [dict(s.state_labels) for s in sites]
                    try:
                        ret = S.set_common_charges(sites, new, new_names, new_mod, sort_charge=bool(sort))
                        if pred == 'mod':
                            extra.append('combined charges of a different mod nature without the documented ValueError')
                        if sort:
                            if ret is None or len(ret) != len(sites):
                                extra.append('set_common_charges(sort_charge=True) returned %r, documented: one permutation per site' % (ret,))
                            else:
                                for k, s_ in enumerate(sites):
                                    pp = _perm_return_problem('set_common_charges for site %d' % k, ret[k], lab0[k], dict(s_.state_labels))
                                    if pp:
                                        extra.append(pp)
                        elif ret is not None:
                            extra.append('set_common_charges(sort_charge=False) returned %r' % (ret,))
                        if not _same_chinfo(sites):
                            extra.append('the sites do not share one ChargeInfo after set_common_charges')
                    except ValueError as e:
                        if 'different `mod` nature' not in str(e):
                            raise
                        for m, (q_, mo, na) in zip(mirs, snapm):
                            m.q, m.mod, m.names = q_, mo, na
                        if pred == 'ok':
                            extra.append('set_common_charges refused charges of one mod nature: ' + str(e)[:80])
                        status = 'skipped'
                        touched = []
            elif kind == 'change_charge':
                site, mir = simple[step[1]]
                touched = [site]
                mode = step[2]
                ret = site
                if mode == 'drop':
                    ret = site.change_charge(None)
                    mir.drop_charges()
                elif mode == 'perm':
                    p = rng.permutation(site.dim)
                    leg = site.leg
                    lab0 = dict(site.state_labels)
                    ret = site.change_charge(npc.LegCharge.from_qflat(leg.chinfo, leg.to_qflat()[p], leg.qconj), p)
                    pp = _perm_return_problem('change_charge(permute=p): p', p, lab0, dict(site.state_labels))
                    if pp:
                        extra.append(pp.replace('returned perm', 'was given permute'))
                elif mode == 'mod':
                    old = site.leg
                    if old.chinfo.qnumber < 1 or any(int(m) != 1 for m in old.chinfo.mod):
                        status = 'skipped'
                    else:
                        N = int(step[3])
                        chinfo = npc.ChargeInfo([N] * old.chinfo.qnumber, [str(n) + '_mod_%d' % N for n in old.chinfo.names])
                        ret = site.change_charge(npc.LegCharge.from_qflat(chinfo, np.mod(old.to_qflat(), N), old.qconj))
                        if mir.q is not None:
                            mir.q, mir.mod, mir.names = np.mod(mir.q, N), [N] * len(mir.mod), [str(n) + '_mod_%d' % N for n in mir.names]
                else:
                    raise ValueError(mode)
                if ret is not site:
                    extra.append('change_charge did not return the modified site itself')
            elif kind == 'deepcopy':
                site, mir = simple[step[1]]
                simple.append([copy.deepcopy(site), mir.copy(mir.tag + ' deep copy')])
            elif kind in ('sort_charge', 'add_op', 'rename_op', 'remove_op', 'bad_call'):
                t = tgt(step[1])
                if t is None:
                    status = 'skipped'
                else:
                    site, mir = t
                    touched = [site]
                    cand = sorted(n for n in mir.ops if n not in ('Id', 'JW'))
                    if kind == 'sort_charge':
                        bunch = bool(step[2]) if len(step) > 2 else True
                        if len(step) > 3 and step[3] and mir.simple and site.dim >= 3:
                            # most sites are sorted already (nothing to do): first permute the basis (a permutation that is not its own
                            # inverse) through the public change_charge, so that sort_charge has to permute it back
                            d_ = site.dim
                            p_ = np.arange(d_)
                            cyc = rng.permutation(d_)[:3]
                            p_[cyc] = p_[np.roll(cyc, 1)]
                            leg_ = site.leg
                            site.change_charge(npc.LegCharge.from_qflat(leg_.chinfo, leg_.to_qflat()[p_], leg_.qconj), p_)
                            step = list(step) + ['scrambled']
                        lab0 = dict(site.state_labels)
                        ret = site.sort_charge(bunch=bunch)
                        pp = _perm_return_problem('sort_charge(bunch=%s)' % bunch, ret, lab0, dict(site.state_labels))
                        if pp:
                            extra.append(pp)
                        if not site.leg.sorted or (bunch and not site.leg.bunched):
                            extra.append('leg not sorted%s after sort_charge(bunch=%s)' % (' / bunched' if bunch else '', bunch))
                        # a second call has nothing left to do
                        lab1 = dict(site.state_labels)
                        ret2 = site.sort_charge(bunch=bunch)
                        if [int(x) for x in ret2] != list(range(site.dim)) or dict(site.state_labels) != lab1:
                            extra.append('second sort_charge(bunch=%s) returned %s / moved the labels again' % (bunch, list(ret2)))
                    elif kind == 'bad_call':
                        touched = []           # must leave everything as it is
                        what, pp, appl = _bad_call(S, npc, site, mir, int(step[2]))
                        step = list(step) + [what]
                        if not appl:
                            status = 'skipped'
                        elif pp:
                            extra.append(pp)
                    elif kind == 'add_op':
                        opts = step[5] if len(step) > 5 else {}
                        allc = sorted(mir.ops)
                        a, b = allc[step[2] % len(allc)], allc[step[3] % len(allc)]
                        M = mir.ops[a][0] @ mir.ops[b][0]
                        jw = bool(mir.ops[a][1]) != bool(mir.ops[b][1])
                        name = 'A%dx' % si
                        hcmode = opts.get('hc', 'False')
                        arr = opts.get('arr') or ('dense_perm' if (step[4] and mir.simple) else 'dense_noperm')
                        idx, p = label_index(site, mir)
                        inv = np.ix_(idx, idx)

                        def put(nm, Mat, hc):
                            Ms = np.zeros_like(Mat)
                            Ms[inv] = Mat
                            if arr == 'dense_perm' and mir.simple:
                                # dense matrix in the conserve=None basis, permuted by Site.perm as documented (permute_dense=True)
                                site.add_op(nm, Mat, need_JW=jw, hc=hc, permute_dense=True)
                            elif arr == 'dense_default' and (mir.simple or not site.used_sort_charge):
                                # permute_dense=None: "the value of used_sort_charge is used"
                                site.add_op(nm, Mat if site.used_sort_charge else Ms, need_JW=jw, hc=hc)
                            elif arr == 'npc':
                                site.add_op(nm, npc.Array.from_ndarray(Ms, [site.leg, site.leg.conj()]), need_JW=jw, hc=hc, permute_dense=True)
                            else:
                                site.add_op(nm, Ms, need_JW=jw, hc=hc, permute_dense=False)
                        if hcmode == 'auto' and np.max(np.abs(M - M.conj().T)) > 1e-15 and any(
                                np.max(np.abs(X.conj().T - M)) < 1e-12 and bool(f_) != jw for X, f_ in mir.ops.values()):
                            # the only candidates for the conjugate carry the other need_JW flag (e.g. M = Z.JW on a site whose JW is
                            # the identity): as operators with strings they are NOT conjugates; such a declaration would be inconsistent
                            hcmode = 'False'
                        if hcmode == 'str':
                            # declared pair, the partner is added afterwards (as ClockSite does)
                            name2 = 'A%dy' % si
                            put(name, 2. * M, name2)
                            put(name2, 2. * M.conj().T, name)
                            mir.ops[name] = (2. * M, jw)
                            mir.ops[name2] = (2. * M.conj().T, jw)
                            if mir.hc is not None:
                                mir.hc[name] = mir.hc[name2] = True
                        else:
                            st = _hc_state(mir, M) if hcmode == 'auto' else False
                            put(name, M, None if hcmode == 'auto' else False)
                            if mir.hc is not None:
                                if hcmode == 'auto' and st is not False:
                                    # the operator found as the conjugate gets (or keeps) an entry as well
                                    for n2, (M2, _) in mir.ops.items():
                                        if mir.hc.get(n2) is False and np.max(np.abs(M2.conj().T - M)) < 1e-12:
                                            mir.hc[n2] = None
                                mir.hc[name] = st
                            mir.ops[name] = (M, jw)
                        step = list(step) + ['%s.%s' % (a, b)]
                    elif not cand:
                        status = 'skipped'
                    elif kind == 'rename_op':
                        old = cand[step[2] % len(cand)]
                        name = 'R%dx' % si
                        site.rename_op(old, name)
                        mir.ops[name] = mir.ops.pop(old)
                        if mir.hc is not None:
                            mir.hc[name] = mir.hc.pop(old, None)
                        step = list(step) + [old]
                    else:
                        old = cand[step[2] % len(cand)]
                        # (hc_ops is not symmetric when add_op(hc=None) paired a new operator with the conjugate of an existing pair)
                        asym = any(v == old and site.hc_ops.get(old) != k_ for k_, v in site.hc_ops.items())
                        site.remove_op(old)
                        Mo = mir.ops.pop(old)[0]
                        if mir.hc is not None:
                            mir.hc.pop(old, None)
                            # the entries of operators paired with the removed one go as well (or stay, when paired with another one)
                            for n2, (M2, _) in mir.ops.items():
                                if np.max(np.abs(M2.conj().T - Mo)) < 1e-12:
                                    mir.hc[n2] = None
                        step = list(step) + [old, 'hc_ops asymmetric before' if asym else 'hc_ops symmetric before']
            else:
                raise ValueError('unknown step ' + str(kind))
        except Exception as e:
            out['error'] = {'step': si, 'op': step, 'error': type(e).__name__, 'msg': str(e)[:200], 'tb': traceback.format_exc()[-4000:]}
            out['applied'].append('raised')
            break
        out['applied'].append(status)
        if any(dict(s_.state_labels) != b for (s_, _, _), b in zip(snaps, before)):
            out['permuted'] = True
        for pp in extra:
            out['problems'].append({'step': si, 'op': step, 'site': -1, 'tag': kind, 'probs': [pp]})
        for k, (s_, m_, sn) in enumerate(snaps):
            if not any(s_ is t_ for t_ in touched):
                dd = snapshot_diff(sn, snapshot(s_))
                if dd:
                    out['problems'].append({'step': si, 'op': step, 'site': k, 'tag': m_.tag,
                                            'probs': ['the call is documented not to modify this site, but it changed its %s' % ', '.join(dd)]})
        verify_all(si, step)
        if out['problems']:
            break
    out['pool'] = len(simple) + len(grouped)
    return out


# ---------------------------------------------------------------------------------------------------------------------
# MPS-level consumers of _term_to_ops_list
# ---------------------------------------------------------------------------------------------------------------------
def _cl(z):
    z = complex(z)
    return [float(z.real), float(z.imag)]


def run_mpsterm(case):
    """every MPS-level consumer of MPS._term_to_ops_list on a random state of a (fermionic) chain, vs the dense operators built with
    explicit Jordan-Wigner strings; and the (ops, i_min, has_extra_JW) triple of _term_to_ops_list itself as operator names"""
    import copy
    from tenpy.networks.mps import MPS
    from tenpy.networks.terms import TermList
    rng = np.random.default_rng(case['seed'])
    ch = gen.Chain(case['sites'])
    L = len(ch.sites)
    docs = ch.docs
    psi, q = gen.random_finite_mps(rng, ch, cplx=True)
    vec = gen.window_to_doc(ch, gen.dense_window(psi, 0, L), 0).reshape(-1)

    def ev(term):
        return complex(np.vdot(vec, orc.term_op(docs, term) @ vec))

    def par(term):
        return sum(1 for a, i in term if docs[i].needs_JW(a)) % 2

    def T(term, off=0):
        return [(str(a), int(i) + off) for a, i in term]

    nsites = [copy.copy(s) for s in ch.sites]
    for s in nsites:
        s.multiply_operators = (lambda ops: list(ops))       # _term_to_ops_list then returns the operator NAMES per site
    psin = MPS.from_product_state(nsites, [0] * L, unit_cell_width=L)
    res = []
    for job in case['jobs']:
        f = job['f']
        r = {}
        try:
            if f == 'ops_list':
                term = T(job['term'])
                off = int(job.get('off', 0))       # i_offset: "offset to be added to the site-indices in the term"
                ops, imin, extra = psin._term_to_ops_list(T(term, -off), job['autoJW'], off, job['jfr'])
                words = [[str(x) for x in w] for w in ops]
                r = {'ops': words, 'imin': int(imin), 'extra': bool(extra)}
                if job['autoJW']:
                    imax = imin + len(words) - 1
                    from_right = bool(extra) if job['jfr'] is None else bool(job['jfr'])
                    left = False if job['jfr'] is None else bool(extra)
                    full = [['JW'] if left else [] for _ in range(imin)] + words + [[] for _ in range(imax + 1, L)]
                    got = orc.product_op(docs, full)
                    want = orc.term_op(docs, term)
                    if from_right:
                        want = want @ orc.product_op(docs, [['JW'] if k <= imax else [] for k in range(L)])
                    r['dense_diff'] = float(np.max(np.abs(got - want)))
                    r['parity'] = par(term)
            elif f == 'ev_term':
                term = T(job['term'])
                r['parity'] = par(term)
                r['want'] = [_cl(ev(term))]
                r['got'] = [_cl(psi.expectation_value_term(term))]
            elif f == 'terms_sum':
                terms = [T(t) for t in job['terms']]
                st = [complex(*z) for z in job['strength']]
                r['want'] = [_cl(sum(s_ * ev(t) for t, s_ in zip(terms, st)))]
                r['got'] = [_cl(psi.expectation_value_terms_sum(TermList(terms, st))[0])]
            elif f == 'tcf_right':
                tL, tR = T(job['term_L']), T(job['term_R'])
                r['parity'] = (par(T(tL, job['i_L'])) + par(T(tR, job['j_R'][0]))) % 2
                jR = job['j_R']
                if job.get('default_j_R'):
                    # j_R=None: "defaults to range(j0, L) where j0 is chosen such that term_R starts one site right of term_L" (as far as
                    # term_R stays on the chain)
                    j0 = job['i_L'] + max(i for _, i in tL) + 1 - min(i for _, i in tR)
                    jR = [j for j in range(j0, L) if j + max(i for _, i in tR) < L]
                    if not jR:          # (an empty default range: nothing documented; use the explicit list)
                        jR = job['j_R']
                        job = dict(job, default_j_R=False)
                r['want'] = [_cl(ev(T(tL, job['i_L']) + T(tR, j))) for j in sorted(jR)]
                r['got'] = [_cl(x) for x in psi.term_correlation_function_right(tL, tR, job['i_L'], None if job.get('default_j_R') else jR)]
            elif f == 'tcf_left':
                tL, tR = T(job['term_L']), T(job['term_R'])
                r['parity'] = (par(T(tL, job['i_L'][0])) + par(T(tR, job['j_R']))) % 2
                r['want'] = [_cl(ev(T(tL, i) + T(tR, job['j_R']))) for i in sorted(job['i_L'], reverse=True)]
                r['got'] = [_cl(x) for x in psi.term_correlation_function_left(tL, tR, job['i_L'], job['j_R'])]
            elif f == 'tlcf_right':
                # documented assumption: pairs of terms with an odd TOTAL number of Jordan-Wigner operators do not contribute
                tLs, tRs = [T(t) for t in job['terms_L']], [T(t) for t in job['terms_R']]
                sL, sR = [complex(*z) for z in job['strength_L']], [complex(*z) for z in job['strength_R']]
                want = []
                for j in sorted(job['j_R']):
                    tot = 0.0
                    for ta, sa in zip(tLs, sL):
                        for tb, sb in zip(tRs, sR):
                            a, b = T(ta, job['i_L']), T(tb, j)
                            if par(a) == par(b):
                                tot += sa * sb * ev(a + b)
                    want.append(_cl(tot))
                r['want'] = want
                r['got'] = [_cl(x) for x in psi.term_list_correlation_function_right(TermList(tLs, sL), TermList(tRs, sR), job['i_L'], job['j_R'])]
            elif f == 'apply':
                term = T(job['term'])
                r['parity'] = par(term)
                wv = orc.term_op(docs, term) @ vec
                r['want_norm'] = float(np.linalg.norm(wv))
                psi2 = psi.copy()
                psi2.apply_local_term(term, canonicalize=bool(job.get('canonicalize', True)))
                v2 = gen.window_to_doc(ch, gen.dense_window(psi2, 0, L), 0).reshape(-1) * psi2.norm
                r['diff'] = float(np.max(np.abs(v2 - wv)))
            elif f == 'apply_op':
                # a single fermionic operator given by NAME to apply_local_op: the open string goes to the virtual leg
                term = [(str(job['op']), int(job['i']))]
                r['parity'] = par(term)
                wv = orc.term_op(docs, term) @ vec
                r['want_norm'] = float(np.linalg.norm(wv))
                psi2 = psi.copy()
                psi2.apply_local_op(int(job['i']), str(job['op']), unitary=job.get('unitary'), renormalize=False)
                v2 = gen.window_to_doc(ch, gen.dense_window(psi2, 0, L), 0).reshape(-1) * psi2.norm
                r['diff'] = float(np.max(np.abs(v2 - wv)))
            else:
                raise KeyError(f)
        except ValueError as e:
            r['error'] = 'ValueError: ' + str(e)[:160]
        except Exception as e:
            r['error'] = '%s: %s' % (type(e).__name__, str(e)[:160])
            r['tb'] = traceback.format_exc()[-500:]
        res.append(r)
    return res


class Tracer:
    """line recording restricted to the anchored source files of the tree under test: which lines of tenpy/networks/site.py,
    terms.py, mps.py were executed by the cases of this payload (coverage table of harness/c12.py).  sys.monitoring (PEP 669): every
    location reports once and is then disabled, so the recording costs next to nothing; sys.settrace as a fallback."""
    FILES = ('tenpy/networks/site.py', 'tenpy/networks/terms.py', 'tenpy/networks/mps.py')

    def __init__(self):
        self.lines = {f: set() for f in self.FILES}
        self.byname = {}
        self.local = {f: self._mk(self.lines[f]) for f in self.FILES}
        self.mon = getattr(sys, 'monitoring', None)

    def _set_of(self, fn):
        st = self.byname.get(fn, 0)
        if st == 0:
            st = None
            f2 = fn.replace(os.sep, '/')
            for f in self.FILES:
                if f2.endswith(f):
                    st = self.lines[f]
            self.byname[fn] = st
        return st

    @staticmethod
    def _mk(s):
        def local(frame, event, arg):
            if event == 'line':
                s.add(frame.f_lineno)
            return local
        return local

    def _glob(self, frame, event, arg):
        st = self._set_of(frame.f_code.co_filename)
        if st is None:
            return None
        st.add(frame.f_code.co_firstlineno)
        return self._mk(st)

    def _on_line(self, code, line):
        st = self._set_of(code.co_filename)
        if st is not None:
            st.add(line)
        return self.mon.DISABLE

    def start(self):
        if self.mon is not None:
            try:
                self.mon.use_tool_id(self.mon.COVERAGE_ID, 'c12cov')
                self.mon.register_callback(self.mon.COVERAGE_ID, self.mon.events.LINE, self._on_line)
                self.mon.set_events(self.mon.COVERAGE_ID, self.mon.events.LINE)
                return
            except Exception:
                self.mon = None
        sys.settrace(self._glob)

    def stop(self):
        if self.mon is not None:
            self.mon.set_events(self.mon.COVERAGE_ID, 0)
            self.mon.free_tool_id(self.mon.COVERAGE_ID)
        else:
            sys.settrace(None)

    def dump(self):
        return {f: sorted(v) for f, v in self.lines.items()}


KINDS = {}


def main():
    payload = json.load(open(sys.argv[1]))
    KINDS.update({'table': run_table, 'terms': run_terms, 'mpo': run_mpo, 'grouped': run_grouped, 'corr': run_corr, 'book': run_book,
                  'mpsterm': run_mpsterm, 'ctor': run_ctor, 'species': run_species})
    f = (lambda c: KINDS[c['_kind']](c)) if payload['kind'] == 'mixed' else KINDS[payload['kind']]
    tr = Tracer() if payload.get('trace') else None
    if tr:
        import tenpy.networks.mps  # noqa: F401   (module-level code is not part of the table)
        tr.start()
    res = []
    for c in payload['cases']:
        try:
            res.append(f(c))
        except Exception:
            res.append({'runner_error': traceback.format_exc()[-1200:]})
    if tr:
        tr.stop()
        res = {'results': res, 'trace': tr.dump()}
    json.dump(res, open(sys.argv[2], 'w'))


if __name__ == '__main__':
    main()
