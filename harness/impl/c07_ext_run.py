"""Executor extensions of check C07 (fresh interpreter, installed by c07_impl.py on top of c07_exec):
  * constructors fed with tensors / local states of DIFFERENT dtypes per site (spec['build']['mixed']),
  * per observation: entanglement_entropy(n, bonds=[...]) / entanglement_entropy(bonds=int) / get_SL / get_SR at all
    requested bond and site indices (want['bonds']).
c07_exec itself is shared with C08 / C09 and stays as it is."""
import os
import sys

import numpy as np

sys.path.insert(0, os.path.join(os.environ.get('VERIF_DIR', '/verif'), 'harness'))
import mps_gen as G  # noqa: E402
import c07_ext as X  # noqa: E402


def raw_tensors(sites, Bstored, legL, bc):
    """npc tensors with legs ('p', 'vL', 'vR') from dense arrays (p, vL, vR) in the stored basis, the charges of the
    right legs detected from the entries, each tensor with the dtype of ITS array"""
    import tenpy.linalg.np_conserved as npc
    ci = sites[0].leg.chinfo
    Bs = []
    for site, B in zip(sites, Bstored):
        B = np.asarray(B)
        legs = npc.detect_legcharge(B, ci, [site.leg, legL, None], None, qconj=-1)
        T = npc.Array.from_ndarray(B, legs, dtype=B.dtype)
        T.iset_leg_labels(['p', 'vL', 'vR'])
        Bs.append(T)
        legL = legs[-1].conj()
    if bc == 'infinite':
        chdiff = Bs[-1].get_leg('vR').charges[0] - Bs[0].get_leg('vL').charges[0]
        Bs[-1] = Bs[-1].gauge_total_charge('vR', ci.make_valid(chdiff))
    return Bs


def build_mixed_finite(spec, SI):
    from tenpy.networks.mps import MPS
    import tenpy.linalg.np_conserved as npc
    sites = [G.make_site(k) for k in spec['sites']]
    L = len(sites)
    b = spec['build']
    D = X.build_data_mixed(spec, SI)
    ci = sites[0].leg.chinfo
    if b['method'] == 'bflat':
        legL = npc.LegCharge.from_qflat(ci, D['qb0']).bunch()[1]
        if b.get('ctor') == 'raw':
            Bs = raw_tensors(sites, D['B_stored'], legL, 'finite')
            if b['form'] is None:
                SVs = [np.ones(c) for c in b['chi']]
            else:
                SVs = D['svs_raw']
            psi = MPS(sites, Bs, SVs, bc='finite', form=b['form'], norm=b['norm0'], unit_cell_width=L)
            if b['form'] is None:
                psi.canonical_form(renormalize=b['renorm'])
            return psi
        return MPS.from_Bflat(sites, D['Bflat'], SVs=D['svs'], bc='finite', permute=b['permute'], form=b['form'],
                              legL=legL, unit_cell_width=L)
    if b['method'] == 'covering':
        covering = []
        for g, v in zip(b['groups'], D['locals']):
            ls = [sites[i] for i in g]
            if len(g) == 1:
                covering.append(MPS.from_product_state(ls, [v.reshape(-1)], dtype=v.dtype, permute=False, unit_cell_width=1))
            else:
                a = npc.Array.from_ndarray(v, [s.leg for s in ls], labels=['p%d' % i for i in range(len(g))])
                loc = MPS.from_full(ls, a, unit_cell_width=len(g))
                if b.get('local_prep') == 'canon':
                    loc.canonical_form()
                covering.append(loc)
        return MPS.from_product_mps_covering(covering, [tuple(g) for g in b['groups']], bc='finite', unit_cell_width=L)
    raise ValueError(b['method'])


def build_mixed_infinite(spec, SI):
    from tenpy.networks.mps import MPS
    import tenpy.linalg.np_conserved as npc
    sites = [G.make_site(k) for k in spec['sites']]
    L = len(sites)
    b = spec['build']
    D = X.build_data_infinite_mixed(spec, SI)
    ci = sites[0].leg.chinfo
    legL = npc.LegCharge.from_qflat(ci, D['qb0']).bunch()[1]
    if b.get('ctor') == 'raw':
        Bs = raw_tensors(sites, D['B_stored'], legL, 'infinite')
        SVs = [np.ones(c) / np.sqrt(c) for c in b['chi']]
        psi = MPS(sites, Bs, SVs, bc='infinite', form=b['form'], unit_cell_width=L)
        psi.canonical_form()
        return psi
    return MPS.from_Bflat(sites, D['Bflat'], SVs=None, bc='infinite', permute=b['permute'], form=b['form'], legL=legL,
                          unit_cell_width=L)


def observe_bonds(psi, A, key, wb):
    ob = {}
    bonds = [int(x) for x in wb['bonds']]
    for n in wb.get('n', [1]):
        try:
            ob['ent_%s' % n] = [float(x) for x in psi.entanglement_entropy(n=n, bonds=list(bonds))]
        except Exception as e:
            ob['ent_%s_error' % n] = '%s: %s' % (type(e).__name__, str(e)[:200])
    try:
        ob['ent_int'] = [float(psi.entanglement_entropy(bonds=b)[0]) for b in bonds]
    except Exception as e:
        ob['ent_int_error'] = '%s: %s' % (type(e).__name__, str(e)[:200])
    for name in ('SL', 'SR'):
        fct = getattr(psi, 'get_' + name)
        for j, i in enumerate(wb['sites']):
            try:
                s = fct(int(i))
                if s is not None:
                    A['%s_%s%d' % (key, name, j)] = np.asarray(s.to_ndarray() if hasattr(s, 'to_ndarray') else s)
            except Exception as e:
                ob['%s_err%d' % (name, j)] = '%s: %s' % (type(e).__name__, str(e)[:200])
    return ob


def install(ex):
    """hook the extensions into the (shared, unmodified) executor module"""
    orig_fin, orig_inf, orig_obs = ex.build_finite, ex.build_infinite, ex.observe

    def build_finite(spec, SI):
        if X.is_mixed(spec):
            return build_mixed_finite(spec, SI)
        return orig_fin(spec, SI)

    def build_infinite(spec, SI):
        if X.is_mixed(spec):
            return build_mixed_infinite(spec, SI)
        return orig_inf(spec, SI)

    def observe(psi, A, key, want):
        o = orig_obs(psi, A, key, want)
        wb = want.get('bonds')
        if wb and all(f is not None for f in psi.form) and all(s is not None for s in psi._S):
            o['bonds'] = observe_bonds(psi, A, key, wb)
        return o
    ex.build_finite, ex.build_infinite, ex.observe = build_finite, build_infinite, observe
