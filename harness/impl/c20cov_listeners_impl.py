"""Listener functions that tenpy.tools.events.EventHandler.connect_by_name imports by name
(harness/impl/c20cov_impl.py, kind 'evapi').  Never run on its own."""

CALLS = []


def named(x, extra=0, tag=None, ret=None):
    CALLS.append([tag, x, extra])
    return ret


class Holder:
    @staticmethod
    def cb(x, extra=0, tag=None, ret=None):
        CALLS.append([tag, x, extra])
        return ret


def _mk_plain(i):
    def plain(x):
        CALLS.append([i, x, 0])
    return plain


for _i in range(200):       # plain<i>: listener without extra keyword arguments whose tag is its number
    globals()['plain%d' % _i] = _mk_plain(_i)
