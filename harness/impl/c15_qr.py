"""C15 helper: drive tenpy's QR-based truncated decomposition (decompose_theta_qr_based) directly and through
QRBasedTEBDEngine and report dense-numpy numbers about every call (oracle side; nothing here uses the Coq model).

All reconstruction numbers are computed with plain numpy from `to_ndarray()` of the inputs / outputs."""
import warnings

import numpy as np


def _model(case):
    kind = case['model']
    L = case['L']
    if kind == 'tfi':
        from tenpy.models.tf_ising import TFIChain
        return TFIChain({'L': L, 'J': 1.0, 'g': case.get('g', 1.0), 'bc_MPS': 'finite', 'conserve': case['conserve']})
    if kind == 'xxz':
        from tenpy.models.xxz_chain import XXZChain
        return XXZChain({'L': L, 'Jxx': 1.0, 'Jz': case.get('g', 1.0), 'hz': 0.1, 'bc_MPS': 'finite',
                         'conserve': case['conserve']})
    raise ValueError(kind)


def _start_state(M, case):
    """entangled start state: product state + a few random-unitary TEBD sweeps (charge conserving)"""
    from tenpy.networks.mps import MPS
    from tenpy.algorithms.tebd import RandomUnitaryEvolution
    rng = np.random.default_rng(case['seed'])
    L = case['L']
    if case['model'] == 'tfi':
        prod = [rng.choice(['up', 'down']) for _ in range(L)]
    else:
        prod = ['up', 'down'] * (L // 2) + ['up'] * (L % 2)
        if case.get('shuffle_prod'):
            rng.shuffle(prod)
    psi = MPS.from_product_state(M.lat.mps_sites(), [str(p) for p in prod], bc='finite')
    np.random.seed(case['seed'] % (2 ** 31))
    if case.get('pre_steps', 2) > 0:
        eng = RandomUnitaryEvolution(psi, {'N_steps': case.get('pre_steps', 2),
                                           'trunc_params': {'chi_max': case.get('pre_chi', 8), 'svd_min': 1e-12}})
        eng.run()
    psi.canonical_form()
    return psi, rng


class _Y0Spy:
    """pass-through wrapper of truncation._qr_theta_Y0: records whether the expanded bond came out EMPTY"""

    def __init__(self):
        from tenpy.linalg import truncation
        self.mod = truncation
        self.orig = truncation._qr_theta_Y0
        self.empty = False

    def __enter__(self):
        def spy(*a, **kw):
            y = self.orig(*a, **kw)
            if 0 in y.shape:
                self.empty = True
            return y
        self.mod._qr_theta_Y0 = spy
        return self

    def __exit__(self, *exc):
        self.mod._qr_theta_Y0 = self.orig
        return False


def dense_report(theta, T_Lc, S, T_Rc, form, err, renorm, chi_max):
    """numbers about one decomposition, dense numpy only"""
    th = theta.to_ndarray()
    out = {'form': list(form), 'eps': float(err.eps), 'ov': float(err.ov), 'renorm': float(renorm),
           'chi': int(len(S)), 'normS': float(np.linalg.norm(S)), 'minS': float(np.min(S)) if len(S) else 0.0,
           'shape': list(th.shape), 'norm_theta': float(np.linalg.norm(th))}
    sv = np.linalg.svd(th, compute_uv=False)
    out['opt_eps'] = float(np.sum(sv[len(S):] ** 2) / np.sum(sv ** 2))
    out['rank_theta'] = int(np.sum(sv > 1e-12 * sv[0]))
    if T_Lc is not None:
        TL = T_Lc.to_ndarray()
        out['L_labels'] = list(T_Lc.get_leg_labels())
        out['L_iso'] = float(np.linalg.norm(TL.conj().T @ TL - np.eye(TL.shape[1])))
        out['L_norm'] = float(np.linalg.norm(TL))
    if T_Rc is not None:
        TR = T_Rc.to_ndarray()
        out['R_labels'] = list(T_Rc.get_leg_labels())
        out['R_iso'] = float(np.linalg.norm(TR @ TR.conj().T - np.eye(TR.shape[0])))
        out['R_norm'] = float(np.linalg.norm(TR))
    if T_Lc is not None and T_Rc is not None:
        if list(form) == ['A', 'B']:
            approx = (TL * np.asarray(S)[None, :]) @ TR
        else:
            approx = TL @ TR
        out['rel_err2'] = float(np.linalg.norm(th - renorm * approx) ** 2 / np.linalg.norm(th) ** 2)
    elif T_Rc is not None:
        # only the right isometry: the best theta with this right space is theta P, P = TR^dagger TR
        out['proj_err2'] = float(np.linalg.norm(th - th @ TR.conj().T @ TR) ** 2 / np.linalg.norm(th) ** 2)
    elif T_Lc is not None:
        out['proj_err2'] = float(np.linalg.norm(th - TL @ TL.conj().T @ th) ** 2 / np.linalg.norm(th) ** 2)
    return out


def run_qr_direct(case):
    """decompose_theta_qr_based on a two-site wave function of a small entangled MPS (as tests/test_truncation.py)"""
    import tenpy.linalg.np_conserved as npc
    from tenpy.linalg import truncation
    from tenpy.tools.params import asConfig
    warnings.simplefilter('ignore')
    M = _model(case)
    psi, rng = _start_state(M, case)
    i = case['bond'] % (psi.L - 1)
    S = psi.get_SL(i)
    old_T_L = psi.get_B(i, 'B').ireplace_label('p', 'p0')
    old_T_R = psi.get_B(i + 1, 'B').ireplace_label('p', 'p1')
    tp = {k: v for k, v in case['trunc'].items() if v != 'absent'}

    def build_theta(T_L, T_R):
        theta = npc.tensordot(T_L.scale_axis(S, axis='vL'), T_R, ['vR', 'vL'])
        if case.get('apply_U', True):
            Ub = M.H_bond[i + 1]
            H2 = Ub.combine_legs([('p0', 'p1'), ('p0*', 'p1*')], qconj=[+1, -1])
            U = npc.expm((-1.j if case.get('real_time', True) else -1.) * case.get('dt', 0.3) * H2).split_legs()
            theta = npc.tensordot(U, theta, axes=(['p0*', 'p1*'], ['p0', 'p1']))
            theta.itranspose(['vL', 'p0', 'p1', 'vR'])
        if case.get('scale', 1.0) != 1.0:
            theta = theta * case['scale']          # unnormalised input: the error is relative
        return theta.combine_legs([['vL', 'p0'], ['p1', 'vR']], qconj=[+1, -1])

    def call(T_L, T_R, leg, theta):
        return truncation.decompose_theta_qr_based(
            old_qtotal_L=T_L.qtotal, old_qtotal_R=T_R.qtotal, old_bond_leg=leg,
            theta=theta, move_right=case['move_right'], expand=case['expand'],
            min_block_increase=case['min_block_increase'], use_eig_based_svd=case['eig'],
            trunc_params=(asConfig(dict(tp), 'trunc_params') if case.get('config') else dict(tp)),
            compute_err=case['compute_err'], return_both_T=case['both'])

    # equivalent presentations of the same input (documented: old_qtotal_L/R = qtotal of the old tensors, old_bond_leg =
    # the leg between them): (a) total charges of the old tensors gauged away from zero through the common bond,
    # (b) the old bond leg not blocked by charge (one block per index)
    T_L, T_R = old_T_L, old_T_R
    variant = {}
    if case.get('qshift') and T_L.chinfo.qnumber > 0:
        d = np.array([case['qshift']] * T_L.chinfo.qnumber)
        T_L = old_T_L.gauge_total_charge('vR', old_T_L.chinfo.make_valid(old_T_L.qtotal + d))     # (returns a copy)
        T_R = old_T_R.gauge_total_charge('vL', old_T_R.chinfo.make_valid(old_T_R.qtotal - d))
        T_L.get_leg('vR').test_contractible(T_R.get_leg('vL'))
        variant['qtotal_L'] = [int(v) for v in T_L.qtotal]
        variant['qtotal_R'] = [int(v) for v in T_R.qtotal]
    leg = T_R.get_leg('vL')
    if case.get('unblocked_leg'):
        from tenpy.linalg.charges import LegCharge
        leg = LegCharge.from_qflat(leg.chinfo, leg.to_qflat(), leg.qconj)       # one block per index: not blocked
        variant['leg_blocked'] = bool(leg.is_blocked())
    theta = build_theta(T_L, T_R)
    theta_dense = theta.to_ndarray()
    y0 = _Y0Spy()
    try:
        with y0:
            T_Lc, S_qr, T_Rc, form, err, ren = call(T_L, T_R, leg, theta)
    except Exception as e:
        import traceback
        return {'error': type(e).__name__ + ': ' + str(e)[:150], 'tb': traceback.format_exc()[-600:], 'empty_Y0': y0.empty,
                'variant': variant}
    out = dense_report(theta, T_Lc, S_qr, T_Rc, form, err, ren, tp.get('chi_max'))
    out['chi_old'] = int(old_T_R.get_leg('vL').ind_len)
    out['theta_unchanged'] = bool(np.array_equal(theta.to_ndarray(), theta_dense))
    if variant:
        out['variant'] = variant
        # the plain presentation of the same two-site wave function must give the same decomposition
        try:
            base = call(old_T_L, old_T_R, old_T_R.get_leg('vL'), build_theta(old_T_L, old_T_R))
            out['base'] = {'S': [float(x) for x in base[1]], 'eps': float(base[4].eps), 'renorm': float(base[5])}
            out['S'] = [float(x) for x in S_qr]
        except Exception as e:
            out['base'] = {'error': type(e).__name__ + ': ' + str(e)[:100]}
    return out


def run_qr_engine(case):
    """QRBasedTEBDEngine on a small chain; every decompose_theta_qr_based call is observed by a pass-through
    wrapper installed in tenpy.algorithms.tebd (inputs, outputs -> dense numbers)."""
    from tenpy.algorithms import tebd
    warnings.simplefilter('ignore')
    M = _model(case)
    psi, rng = _start_state(M, case)
    calls = []
    orig = tebd.decompose_theta_qr_based

    def spy(**kw):
        res = orig(**kw)
        T_Lc, S, T_Rc, form, err, ren = res
        tp = kw['trunc_params']
        rep = dense_report(kw['theta'], T_Lc, S, T_Rc, form, err, ren, tp.get('chi_max', None))
        rep['kw'] = {'move_right': bool(kw['move_right']), 'expand': float(kw['expand']),
                     'compute_err': bool(kw['compute_err']), 'both': bool(kw['return_both_T']),
                     'eig': bool(kw['use_eig_based_svd'])}
        calls.append(rep)
        return res
    tp = {k: v for k, v in case['trunc'].items() if v != 'absent'}
    opts = {'dt': case.get('dt', 0.1), 'N_steps': case.get('N_steps', 2), 'order': case.get('order', 2),
            'trunc_params': tp, 'cbe_expand': case['expand'], 'cbe_min_block_increase': case['min_block_increase'],
            'compute_err': case['compute_err'], 'use_eig_based_svd': case['eig']}
    if case.get('expand_0') is not None:
        opts['cbe_expand_0'] = case['expand_0']
    norm0 = float(psi.norm)
    tebd.decompose_theta_qr_based = spy
    y0 = _Y0Spy()
    y0.__enter__()
    try:
        eng = tebd.QRBasedTEBDEngine(psi, M, opts)
        if case.get('imag'):
            # what run_GS does for a finite chain, for a fixed number of sweeps (run_GS itself iterates to convergence)
            eng.calc_U(2, case.get('dt', 0.1), type_evo='imag')
            tot = eng.update_imag(case.get('N_steps', 1), call_canonical_form=False)
        else:
            eng.run()
            tot = eng.trunc_err
        bonds = [float(e.eps) for e in eng._trunc_err_bonds]
    except Exception as e:
        import traceback
        return {'error': type(e).__name__ + ': ' + str(e)[:150], 'tb': traceback.format_exc()[-600:], 'empty_Y0': y0.empty,
                'calls_before': len(calls)}
    finally:
        tebd.decompose_theta_qr_based = orig
        y0.__exit__()
    return {'calls': calls, 'total_eps': float(tot.eps), 'bond_eps': bonds, 'norm0': norm0,
            'norm': float(psi.norm), 'norm_err': float(np.max(psi.norm_test())),
            'chi': [int(c) for c in psi.chi]}
