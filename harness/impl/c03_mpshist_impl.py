"""Runner of the MPS-level aliasing histories of harness/c03_mpshist.py (stream `mps-history` of harness/c03.py; correspondence
with coq/Model/StoreMps.v through coq/Model/StoreMpsCheck.v `check_mps_history`).

The caller's tensors Bs (registers 0..L-1) are copies of the tensors of a random MPS, brought to the requested forms and label
orders; psi = MPS(sites, Bs, SVs, form=forms).  Then the steps of the case are executed; ALL registers stay alive.  Before and after
every step every register and every stored tensor psi._B[j] is fingerprinted (dense values from the stored blocks, dtype, labels,
qtotal, identity and content of the legs); the report says exactly which changed.  The tensors psi._B[j] are looked at directly
(no accessor), the get_B calls made by measurements are recorded by wrapping psi.get_B from outside."""
import hashlib
import os
import sys
import warnings

import numpy as np

warnings.simplefilter('ignore')
sys.path.insert(0, os.path.dirname(os.path.abspath(__file__)))
import c04_impl as base  # noqa: E402   (dense)
import tenpy.linalg.np_conserved as npc  # noqa: E402

FORMS = {'B': (0, 2), 'A': (2, 0), 'C': (1, 1), 'G': (0, 0), 'Th': (2, 2)}


def _h(b):
    return hashlib.sha1(b).hexdigest()[:12]


def _leg_fp(l):
    return _h(np.ascontiguousarray(l.charges).tobytes() + b'|' + np.ascontiguousarray(l.slices).tobytes() +
              repr((int(l.qconj), int(l.ind_len), type(l).__name__)).encode())


def fp(a):
    d = base.dense(a)
    return {'val': _h(np.ascontiguousarray(d).tobytes() + str(d.shape).encode()), 'dtype': str(a.dtype), 'labels': list(a._labels),
            'qtotal': [int(x) for x in a.qtotal], 'legs': [id(l) for l in a.legs], 'legfp': [_leg_fp(l) for l in a.legs]}


def shares_mem(x, y):
    for b in x._data:
        for c in y._data:
            if b.size and c.size and np.may_share_memory(b, c):
                try:
                    if np.shares_memory(b, c, max_work=100000):
                        return True
                except Exception:
                    return True
    return False


def form2(f):
    """valid form (tuple of floats or None) -> [2 nuL, 2 nuR] as integers, None for non-canonical / partially specified"""
    if f is None or any(x is None for x in f):
        return None
    return [int(round(2 * float(f[0]))), int(round(2 * float(f[1])))]


def run_mps_history(case):
    from tenpy.networks.mps import MPS
    from tenpy.models.xxz_chain import XXZChain
    from tenpy.algorithms import tebd
    L = case['L']
    M = XXZChain({'L': L, 'Jxx': 1.0, 'Jz': 0.7, 'hz': 0.1, 'bc_MPS': 'finite', 'conserve': case['conserve']})
    sites = M.lat.mps_sites()
    state = [['up', 'down'][(j + case['seed']) % 2] for j in range(L)]
    psi0 = MPS.from_product_state(sites, state, bc='finite')
    # a short real-time evolution: an entangled state with several charge blocks per tensor and non-trivial bonds
    tebd.TEBDEngine(psi0, M, {'dt': 0.1 + 0.01 * (case['seed'] % 7), 'N_steps': 2, 'order': 2,
                              'trunc_params': {'chi_max': case['chi'], 'svd_min': 1e-10}}).run()
    labels0 = ['vL', 'p', 'vR']
    Bs, perms = [], []
    for j in range(L):
        f = case['forms'][j]
        B = psi0.get_B(j, form=f if f is not None else 'B', copy=True)
        if f is None:
            B.iscale_prefactor(1.5)                      # some non-canonical tensor
        order = case['orders'][j]                         # label order of the caller's tensor
        B = B.transpose([labels0[k] for k in order]).copy(deep=True)
        Bs.append(B)
        perms.append([order.index(k) for k in range(3)])  # axes permutation bringing the labels to vL, p, vR
    SVs = [np.array(s, dtype=float).copy() for s in psi0._S]
    regs = list(Bs)
    out = {'perms': perms, 'nblocks': [len(B._data) for B in Bs]}
    before = {('r', k): fp(x) for k, x in enumerate(regs)}
    psi = MPS(sites, Bs, SVs, bc='finite', form=[f for f in case['forms']])
    after = {('r', k): fp(x) for k, x in enumerate(regs)}
    out['init_changed'] = [k for k in range(L) if before[('r', k)] != after[('r', k)]]
    out['init_shares'] = [bool(shares_mem(psi._B[j], Bs[j])) for j in range(L)]
    out['init_same'] = [bool(psi._B[j] is Bs[j]) for j in range(L)]
    gets = []
    o_get = psi.get_B

    def get_B(i, form='B', copy=False, cutoff=1.e-16, label_p=None):
        try:
            vf = psi._to_valid_form(form)
        except Exception:
            vf = None
        gets.append([int(i), form2(vf), bool(copy)])
        return o_get(i, form, copy, cutoff, label_p)
    steps = []
    out['steps'] = steps

    def snapshot():
        d = {('r', k): fp(x) for k, x in enumerate(regs)}
        d.update({('s', j): fp(psi._B[j]) for j in range(L)})
        d.update({('id', j): id(psi._B[j]) for j in range(L)})
        return d
    before = snapshot()
    for st in case['steps']:
        op = st['op']
        rec = {'op': op}
        new = None
        try:
            if op == 'get':
                stored = psi._B[st['i']]
                try:
                    new = psi.get_B(st['i'], form=st['form'], copy=st['copy'])
                    rec['raised'] = False
                    rec['same'] = bool(new is stored)
                    rec['shares'] = bool(shares_mem(new, stored))
                except ValueError as e:
                    rec['raised'] = True
                    rec['msg'] = str(e)[:80]
                if rec['raised'] != bool(st['expect_raise']):
                    rec['desync'] = 'get_B raised = %s, the generator expected %s' % (rec['raised'], st['expect_raise'])
            elif op == 'set':
                B = regs[st['b']]
                labs = list(B._labels)
                rec['perm'] = [labs.index(l) for l in psi._B_labels]
                psi.set_B(st['i'], B, form=st['form'])
                rec['stored_is_arg'] = bool(psi._B[st['i']] is B)
            elif op == 'meas':
                del gets[:]
                psi.get_B = get_B
                try:
                    name = st['name']
                    if name == 'expectation_value':
                        psi.expectation_value('Sz')
                    elif name == 'entanglement_entropy':
                        psi.entanglement_entropy()
                    elif name == 'overlap':
                        psi.overlap(psi)
                    elif name == 'get_theta':
                        psi.get_theta(st.get('i', 0), 2)
                    elif name == 'norm_test':
                        psi.norm_test()
                    elif name == 'correlation_function':
                        psi.correlation_function('Sz', 'Sz')
                    elif name == 'copy':
                        psi.copy()
                    elif name == 'expectation_value_multi':
                        psi.expectation_value_multi_sites(['Sz', 'Sz'], 0)
                    else:
                        raise KeyError(name)
                    rec['raised'] = False
                except KeyError:
                    raise
                except Exception as e:
                    rec['raised'] = True
                    rec['msg'] = type(e).__name__ + ': ' + str(e)[:80]
                finally:
                    del psi.get_B                       # back to the class method
                rec['gets'] = [list(g) for g in gets]
            else:
                a = regs[st['a']]
                if op == 'copy_deep':
                    new = a.copy(deep=True)
                elif op == 'copy_shallow':
                    new = a.copy(deep=False)
                elif op == 'iscale':
                    a.iscale_prefactor(2.)
                    new = a
                elif op == 'itranspose':
                    a.itranspose(st['perm'])
                    new = a
                elif op == 'mul':
                    new = a * 2.
                elif op == 'add':
                    new = a + regs[st['b']]
                elif op == 'iadd':
                    a.iadd_prefactor_other(2., regs[st['b']])
                    new = a
                else:
                    raise KeyError(op)
        except Exception as e:
            rec['desync'] = 'step raised %s: %s' % (type(e).__name__, str(e)[:200])
        if new is not None:
            regs.append(new)
        after = snapshot()
        nreg_before = sum(1 for k in before if k[0] == 'r')
        rec['changed_regs'] = [k for k in range(nreg_before) if before[('r', k)] != after[('r', k)]]
        rec['changed_sites'] = [j for j in range(L) if before[('s', j)] != after[('s', j)] or before[('id', j)] != after[('id', j)]]
        rec['forms'] = [form2(f) for f in psi.form]
        steps.append(rec)
        before = after
        if 'desync' in rec:
            break
    return out
