"""Runs tenpy.linalg.truncation on the cases of harness/c15.py (fresh interpreter)."""
import json
import sys
import warnings

import numpy as np

warnings.simplefilter('ignore')


def run_truncate(case):
    from tenpy.linalg.truncation import truncate
    S = np.array(case['S'], dtype=np.float64)
    opts = {k: v for k, v in case['opts'].items() if v != 'absent'}
    try:
        mask, norm_new, err = truncate(S, dict(opts))
    except Exception as e:  # error class is an observable
        return {'error': type(e).__name__}
    return {'mask': [bool(b) for b in mask], 'norm_new': float(norm_new), 'eps': float(err.eps),
            'ov': float(err.ov)}


def run_err(case):
    from tenpy.linalg.truncation import TruncationError
    tot = TruncationError()
    for e in case['eps_list']:
        tot = tot + TruncationError(e, 1. - 2. * e)
    fs = TruncationError.from_S(np.array(case['S_disc'], dtype=np.float64), case.get('norm_old'))
    fn = TruncationError.from_norm(case['norm_new'], case['norm_old'] if case.get('norm_old') else 1.)
    return {'eps_sum': float(tot.eps), 'ov_prod': float(tot.ov), 'from_S_eps': float(fs.eps),
            'from_S_ov': float(fs.ov), 'from_norm_eps': float(fn.eps), 'from_norm_ov': float(fn.ov)}


def random_npc_matrix(rng, spec):
    import tenpy.linalg.np_conserved as npc
    mod = spec['mod']
    chinfo = npc.ChargeInfo([mod] if mod is not None else [])
    legs = []
    for (sizes, charges, qconj) in spec['legs']:
        if mod is None:
            ch = [[] for _ in sizes]
        else:
            ch = [[c if mod == 1 else c % mod] for c in charges]
        legs.append(npc.LegCharge.from_qind(chinfo, np.cumsum([0] + sizes), np.array(ch, dtype=int).reshape(len(sizes), -1), qconj))
    qtotal = None if mod is None else [spec['qtotal'] if mod == 1 else spec['qtotal'] % mod]

    def func(shape):
        a = rng.normal(size=shape)
        if spec['complex']:
            a = a + 1j * rng.normal(size=shape)
        return a
    a = npc.Array.from_func(func, legs, dtype=np.complex128 if spec['complex'] else np.float64, qtotal=qtotal,
                            labels=spec.get('labels', ['a', 'b']))
    if spec.get('lowrank'):
        # make it rank deficient: project some columns to zero
        d = a.to_ndarray()
        a = a * 1.0
        for blk in a._data[::2]:
            blk[:, : blk.shape[1] // 2] = 0
    if spec.get('tiny_rank'):
        # large matrix of tiny numerical rank: every charge block becomes (rank-r matrix with singular values in [0.3, 1])
        # + noise * (random matrix of norm ~ 1); the truncated SVD then shrinks the bond by a huge factor
        r0, noise = spec['tiny_rank']['rank'], spec['tiny_rank']['noise']
        for blk in a._data:
            m, n = blk.shape
            r = min(r0, m, n)
            x = np.linalg.qr(func((m, r)))[0]
            y = np.linalg.qr(func((n, r)))[0].T
            w = rng.uniform(0.3, 1.0, size=r)
            blk[...] = (x * w) @ y + (noise * func((m, n)) / max(m, n) if noise else 0.)
    return a


def _leg_problems(U, VH, a):
    """documented leg structure of the factors: outer legs are the legs of theta, the two new legs are contractible"""
    out = []
    for what, l1, l2, contr in (('U.legs[0] != theta.legs[0]', U.legs[0], a.legs[0], False),
                                ('VH.legs[1] != theta.legs[1]', VH.legs[1], a.legs[1], False),
                                ('U.legs[1] not contractible with VH.legs[0]', U.legs[1], VH.legs[0], True)):
        try:
            (l1.test_contractible if contr else l1.test_equal)(l2)
            # independent of LegCharge.test_*: flat charges with their sign agree (equal: q*qconj; contractible: opposite)
            q1 = a.chinfo.make_valid(l1.to_qflat() * l1.qconj)
            q2 = a.chinfo.make_valid(l2.to_qflat() * l2.qconj * (-1 if contr else 1))
            if l1.ind_len != l2.ind_len or not np.array_equal(q1, q2):
                out.append(what + ' (flat charges)')
            # npc.svd: "U.legs[1] = VH.legs[0].conj()", "VH.legs[0].qconj = inner_qconj" (default +1)
            if contr and (l1.qconj, l2.qconj) != (-1, +1):
                out.append('qconj of the new legs (U, VH) = (%d, %d), documented (-1, +1)' % (l1.qconj, l2.qconj))
        except Exception as e:
            out.append(what + ' (%s)' % type(e).__name__)
    return out


def run_decomp(case):
    """svd_theta / eigh_rho on a random block-sparse matrix; report reconstruction numbers."""
    import tenpy.linalg.np_conserved as npc
    from tenpy.linalg.truncation import svd_theta, eigh_rho
    rng = np.random.default_rng(case['seed'])
    a = random_npc_matrix(rng, case['spec'])
    opts = {k: v for k, v in case['opts'].items() if v != 'absent'}
    out = {}
    nrm = npc.norm(a)
    if nrm == 0:
        return {'skip': 'zero matrix'}
    dense = a.to_ndarray()
    labels_in = list(a.get_leg_labels())
    kw = {}
    if case.get('inner_labels') is not None:
        kw['inner_labels'] = list(case['inner_labels'])
    inner = kw.get('inner_labels', ['vR', 'vL'])        # documented default
    try:
        with warnings.catch_warnings(record=True) as wlist:
            warnings.simplefilter('always')
            U, S, VH, err, renorm = svd_theta(a, dict(opts), **kw)
    except Exception as e:
        return {'error': type(e).__name__ + ': ' + str(e)[:100]}
    # plain numpy reconstruction from the raw entries (independent of labels / charges / leg directions)
    Ud, VHd = U.to_ndarray(), VH.to_ndarray()
    diff = np.linalg.norm((Ud * (S * renorm)) @ VHd - dense) ** 2 / nrm ** 2
    sv = np.linalg.svd(dense, compute_uv=False)
    out['svd'] = {'eps': float(err.eps), 'rel_err2': float(diff), 'normS': float(np.linalg.norm(S)),
                  'chi': int(len(S)), 'renorm': float(renorm), 'norm_theta': float(nrm),
                  'dense_sv': [float(x) for x in sv], 'S': [float(x) for x in S],
                  'UdU': float(np.linalg.norm((Ud.conj().T @ Ud) - np.eye(len(S)))),
                  'VVd': float(np.linalg.norm((VHd @ VHd.conj().T) - np.eye(len(S)))),
                  'U_labels': list(U.get_leg_labels()), 'VH_labels': list(VH.get_leg_labels()),
                  'want_U_labels': [labels_in[0], inner[0]], 'want_VH_labels': [inner[1], labels_in[1]],
                  'leg_problems': _leg_problems(U, VH, a),
                  'qtotal_ok': bool(np.array_equal(a.chinfo.make_valid(U.qtotal + VH.qtotal), a.qtotal)),
                  'dtypes': [str(U.dtype), str(VH.dtype), str(a.dtype), str(np.asarray(S).dtype)],
                  'theta_unchanged': bool(np.array_equal(a.to_ndarray(), dense) and list(a.get_leg_labels()) == labels_in),
                  'warnings': [str(w.message)[:60] for w in wlist if issubclass(w.category, UserWarning)][:3]}
    # the documented formula, literally: theta ~= tensordot(U.scale_axis(S*renormalization, 1), VH, axes=1)
    try:
        rec = npc.tensordot(U.scale_axis(S * renorm, 1), VH, axes=1)
        out['svd']['rel_err2_npc'] = float(npc.norm(rec - a) ** 2 / nrm ** 2)
    except Exception as e:
        out['svd']['rec_error'] = type(e).__name__ + ': ' + str(e)[:80]
    if case.get('eigh'):
        # density matrix rho = a a^dagger
        rho = npc.tensordot(a, a.conj(), axes=[1, 1])
        rd = rho.to_ndarray()
        try:
            W, V, err2 = eigh_rho(rho, dict(opts))
        except Exception as e:
            return {'error': 'eigh_rho ' + type(e).__name__ + ': ' + str(e)[:100]}
        Vd = V.to_ndarray()
        kept = Vd @ np.diag(W * (1. - err2.eps)) @ Vd.conj().T
        tr = np.trace(rd).real
        out['eigh'] = {'eps': float(err2.eps), 'disc_weight': float(np.trace(rd - kept).real / tr),
                       'sumW_over_tr': float(np.sum(W) / tr),
                       'resid': float(np.linalg.norm(rd @ Vd - Vd @ np.diag(W * (1. - err2.eps))) / tr),
                       'VdV': float(np.linalg.norm(Vd.conj().T @ Vd - np.eye(len(W))))}
    return out


def _ratio(x):
    """exact value of a float as [numerator, denominator]"""
    a, b = float(x).as_integer_ratio()
    return [int(a), int(b)]


def run_book(case):
    """svd_theta / eigh_rho on (a rotation of) diag(xs)/2^k: the renormalisation bookkeeping.
    The mask chosen by truncate is recorded by wrapping truncation.truncate (the wrapper only observes)."""
    import tenpy.linalg.np_conserved as npc
    from tenpy.linalg import truncation
    from fractions import Fraction
    rng = np.random.default_rng(case['seed'])
    xs = np.array(case['xs'], dtype=np.float64) / (1 << case['k'])
    n = len(xs)
    d = np.diag(xs)
    if case['rotate']:
        q1, _ = np.linalg.qr(rng.normal(size=(n, n)))
        q2, _ = np.linalg.qr(rng.normal(size=(n, n)))
        d = q1 @ d @ (q1.T if case['eigh'] else q2)
        if case['eigh']:
            d = (d + d.T) / 2
    a = npc.Array.from_ndarray_trivial(d, labels=['a', 'b'])
    opts = {k: v for k, v in case['opts'].items() if v != 'absent'}
    rec = {}
    orig = truncation.truncate

    def spy(S, options):
        out = orig(S, options)
        rec['mask'] = [bool(b) for b in out[0]]
        return out
    truncation.truncate = spy
    try:
        if case['eigh']:
            W0, _ = npc.eigh(a)                       # the call eigh_rho makes first
            W, V, err = truncation.eigh_rho(a, dict(opts))
            return {'order': [int(round(w * (1 << case['k']))) for w in W0], 'mask': rec['mask'],
                    'W': [_ratio(w * (1 << case['k'])) for w in W], 'eps': _ratio(err.eps),
                    'exact_in': bool(np.allclose(np.sort(W0), np.sort(xs), rtol=0, atol=1e-12))}
        _, S0, _ = npc.svd(a, full_matrices=False, compute_uv=True, inner_labels=['vR', 'vL'])
        U, S, VH, err, renorm = truncation.svd_theta(a, dict(opts))
        return {'order': [int(round(s * (1 << case['k']))) for s in S0], 'mask': rec['mask'],
                'S': [_ratio(s) for s in S], 'renorm': _ratio(renorm * (1 << case['k'])), 'eps': _ratio(err.eps),
                'exact_in': bool(np.allclose(np.sort(S0), np.sort(xs), rtol=0, atol=1e-12))}
    except Exception as e:
        return {'error': type(e).__name__ + ': ' + str(e)[:100]}
    finally:
        truncation.truncate = orig


def run_book_exact(case):
    """svd_theta / eigh_rho on P1 diag(xs / 2^sc) P2 (permutation matrices): exact data in, exact data out.
    Everything is reported as the exact ratio of the float: the singular values (eigenvalues) npc.svd (npc.eigh)
    returns for the planted matrix, the mask chosen by truncate (pass-through wrapper) and the outputs."""
    import tenpy.linalg.np_conserved as npc
    from tenpy.linalg import truncation
    xs = np.array(case['xs'], dtype=np.float64) / float(1 << case['sc'])
    n = len(xs)
    d = np.diag(xs)
    if case.get('perm'):
        p1 = np.eye(n)[case['perm'][0]]
        p2 = p1.T if case['eigh'] else np.eye(n)[case['perm'][1]]
        d = p1 @ d @ p2
    a = npc.Array.from_ndarray_trivial(d, labels=['a', 'b'])
    opts = {k: v for k, v in case['opts'].items() if v != 'absent'}
    rec = {}
    orig = truncation.truncate

    def spy(S, options):
        out = orig(S, options)
        rec['mask'] = [bool(b) for b in out[0]]
        return out
    truncation.truncate = spy
    try:
        if case['eigh']:
            W0, _ = npc.eigh(a)                       # the call eigh_rho makes first
            W, V, err = truncation.eigh_rho(a, dict(opts))
            return {'in': [_ratio(w) for w in W0], 'mask': rec['mask'], 'W': [_ratio(w) for w in W],
                    'eps': _ratio(err.eps), 'ov': float(err.ov)}
        _, S0, _ = npc.svd(a, full_matrices=False, compute_uv=True, inner_labels=['vR', 'vL'])
        U, S, VH, err, renorm = truncation.svd_theta(a, dict(opts))
        return {'in': [_ratio(s) for s in S0], 'mask': rec['mask'], 'S': [_ratio(s) for s in S],
                'renorm': _ratio(renorm), 'eps': _ratio(err.eps), 'ov': float(err.ov)}
    except Exception as e:
        return {'error': type(e).__name__ + ': ' + str(e)[:100]}
    finally:
        truncation.truncate = orig


def run_qr(case):
    import c15_qr
    return (c15_qr.run_qr_engine if case.get('engine') else c15_qr.run_qr_direct)(case)


def run_err_exact(case):
    """TruncationError arithmetic, results as exact ratios (inputs are chosen so that floats are exact)."""
    from tenpy.linalg.truncation import TruncationError
    tot = TruncationError()
    for (a, b) in case['eps_list']:
        e = a / b
        tot = tot + TruncationError(e, 1. - 2. * e)
    no = None if case['norm_old'] is None else case['norm_old'][0] / case['norm_old'][1]
    fs = TruncationError.from_S(np.array([a / b for (a, b) in case['S_disc']], dtype=np.float64), no)
    fn = TruncationError.from_norm(case['norm_new'][0] / case['norm_new'][1], no if no is not None else 1.)
    return {'eps_sum': _ratio(tot.eps), 'from_S_eps': _ratio(fs.eps), 'from_norm_eps': _ratio(fn.eps)}


def main():
    payload = json.load(open(sys.argv[1]))
    kind = payload['kind']
    f = {'truncate': run_truncate, 'err': run_err, 'decomp': run_decomp, 'book': run_book,
         'err_exact': run_err_exact, 'book_exact': run_book_exact, 'qr': run_qr}[kind]
    res = []
    for c in payload['cases']:
        try:
            res.append(f(c))
        except Exception as e:
            import traceback
            res.append({'runner_error': traceback.format_exc()[-800:]})
    json.dump(res, open(sys.argv[2], 'w'))


if __name__ == '__main__':
    main()
