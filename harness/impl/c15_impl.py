"""Runs tenpy.linalg.truncation on the cases of harness/c15.py (fresh interpreter)."""
import json
import sys
import warnings

import numpy as np

warnings.simplefilter('ignore')


def run_truncate(case):
    """truncate on one spectrum.  Optional case['form']: 'view' (S is a non-contiguous view), 'readonly' (S not writeable),
    'config' (options handed over as tenpy Config instead of dict), 'twice' (second call with the SAME options object)."""
    from tenpy.linalg.truncation import truncate, TruncationError
    form = case.get('form') or {}
    S = np.array(case['S'], dtype=np.float64)
    if form.get('view'):
        big = np.full(2 * len(S) + 1, 0.123)
        big[1::2] = S
        S = big[1::2]
    if form.get('readonly'):
        S.flags.writeable = False
    S_before = S.copy()
    opts = {k: v for k, v in case['opts'].items() if v != 'absent'}
    o = dict(opts)
    if form.get('config'):
        from tenpy.tools.params import asConfig
        o = asConfig(o, 'truncation')
    try:
        mask, norm_new, err = truncate(S, o)
    except Exception as e:  # error class is an observable
        return {'error': type(e).__name__}
    out = {'mask': [bool(b) for b in mask], 'norm_new': float(norm_new), 'eps': float(err.eps),
           'ov': float(err.ov)}
    if form:
        mask = np.asarray(mask)
        out['api'] = {'S_unchanged': bool(np.array_equal(S, S_before)), 'mask_dtype': str(mask.dtype), 'mask_shape': list(mask.shape),
                      'norm_matches': bool(float(norm_new) == float(np.linalg.norm(S_before[mask])) if mask.dtype == np.bool_ and mask.shape == S.shape else False),
                      'err_type': isinstance(err, TruncationError)}
        if form.get('twice'):
            try:
                m2, n2, e2 = truncate(S, o)
                out['api']['second_equal'] = bool(np.array_equal(m2, mask) and float(n2) == float(norm_new) and float(e2.eps) == float(err.eps))
            except Exception as e:
                out['api']['second_equal'] = False
                out['api']['second_error'] = type(e).__name__
    return out


def run_err(case):
    from tenpy.linalg.truncation import TruncationError
    tot = TruncationError()
    for e in case['eps_list']:
        tot = tot + TruncationError(e, 1. - 2. * e)
    fs = TruncationError.from_S(np.array(case['S_disc'], dtype=np.float64), case.get('norm_old'))
    fn = TruncationError.from_norm(case['norm_new'], case['norm_old'] if case.get('norm_old') else 1.)
    return {'eps_sum': float(tot.eps), 'ov_prod': float(tot.ov), 'from_S_eps': float(fs.eps),
            'from_S_ov': float(fs.ov), 'from_norm_eps': float(fn.eps), 'from_norm_ov': float(fn.ov)}


def run_err_api(case):
    """every public name of TruncationError: copy / __add__ (operands, aliasing, result used again) / ov_err / repr /
    from_norm and from_S with defaulted arguments / sum() / HDF5 round trip"""
    from tenpy.linalg.truncation import TruncationError
    a = TruncationError(case['a'][0], case['a'][1])
    b = TruncationError(case['b'][0], case['b'][1])
    d = TruncationError()
    out = {'default': [d.eps, d.ov], 'repr_default': repr(d), 'repr_a': repr(a), 'ov_err_a': float(a.ov_err)}
    c = a.copy()
    out['copy'] = [float(c.eps), float(c.ov), c is a, type(c).__name__]
    c.eps += 1.0
    c.ov *= 0.5
    out['a_after_copy_mutation'] = [float(a.eps), float(a.ov)]
    s = a + b
    out['sum'] = [float(s.eps), float(s.ov), s is a or s is b, type(s).__name__]
    out['operands_after_add'] = [float(a.eps), float(a.ov), float(b.eps), float(b.ov)]
    t = s + a.copy()                     # the result as an operand of a later operation
    out['sum2'] = [float(t.eps), float(t.ov)]
    out['s_after_second_add'] = [float(s.eps), float(s.ov)]
    u = d + a                            # the neutral element on the left, as every accumulation loop starts
    out['neutral'] = [float(u.eps), float(u.ov), float(d.eps), float(d.ov)]
    acc = TruncationError()
    for x in (a, b, a):                  # `trunc_err += err` as the callers write it
        acc += x
    out['iadd'] = [float(acc.eps), float(acc.ov)]
    out['builtin_sum'] = [float(z) for z in (lambda r: (r.eps, r.ov))(sum([a, b, a], TruncationError()))]
    out['operands_after_loops'] = [float(a.eps), float(a.ov), float(b.eps), float(b.ov)]
    fn = TruncationError.from_norm(case['norm_new'])                     # norm_old defaulted (1.0)
    out['from_norm_default'] = [float(fn.eps), float(fn.ov), type(fn).__name__]
    fn2 = TruncationError.from_norm(case['norm_new'], case['norm_old'])
    out['from_norm'] = [float(fn2.eps), float(fn2.ov)]
    Sd = np.array(case['S_disc'], dtype=np.float64)
    Sd0 = Sd.copy()
    fs = TruncationError.from_S(Sd)                                       # norm_old defaulted (None)
    out['from_S_default'] = [float(fs.eps), float(fs.ov), type(fs).__name__]
    fs2 = TruncationError.from_S(Sd, case['norm_old'])
    out['from_S'] = [float(fs2.eps), float(fs2.ov)]
    out['S_disc_unchanged'] = bool(np.array_equal(Sd, Sd0))
    try:
        import h5py
        from tenpy.tools import hdf5_io
        with h5py.File('c15_err_api.h5', 'w', driver='core', backing_store=False) as f:
            hdf5_io.save_to_hdf5(f, {'e': a, 'd': TruncationError()})
            back = hdf5_io.load_from_hdf5(f)
        out['hdf5'] = [float(back['e'].eps), float(back['e'].ov), type(back['e']).__name__, float(back['d'].eps), float(back['d'].ov)]
    except ImportError:
        out['hdf5'] = None
    return out


def random_npc_matrix(rng, spec):
    import tenpy.linalg.np_conserved as npc
    mod = spec['mod']
    chinfo = npc.ChargeInfo([mod] if mod is not None else [])
    legs = []
    for (sizes, charges, qconj) in spec['legs']:
        if mod is None:
            ch = [[] for _ in sizes]
        else:
            ch = [[c if mod == 1 else c % mod] for c in charges]
        legs.append(npc.LegCharge.from_qind(chinfo, np.cumsum([0] + sizes), np.array(ch, dtype=int).reshape(len(sizes), -1), qconj))
    qtotal = None if mod is None else [spec['qtotal'] if mod == 1 else spec['qtotal'] % mod]

    def func(shape):
        a = rng.normal(size=shape)
        if spec['complex']:
            a = a + 1j * rng.normal(size=shape)
        return a
    a = npc.Array.from_func(func, legs, dtype=np.complex128 if spec['complex'] else np.float64, qtotal=qtotal,
                            labels=spec.get('labels', ['a', 'b']))
    if spec.get('lowrank'):
        # make it rank deficient: project some columns to zero
        d = a.to_ndarray()
        a = a * 1.0
        for blk in a._data[::2]:
            blk[:, : blk.shape[1] // 2] = 0
    if spec.get('tiny_rank'):
        # large matrix of tiny numerical rank: every charge block becomes (rank-r matrix with singular values in [0.3, 1])
        # + noise * (random matrix of norm ~ 1); the truncated SVD then shrinks the bond by a huge factor
        r0, noise = spec['tiny_rank']['rank'], spec['tiny_rank']['noise']
        for blk in a._data:
            m, n = blk.shape
            r = min(r0, m, n)
            x = np.linalg.qr(func((m, r)))[0]
            y = np.linalg.qr(func((n, r)))[0].T
            w = rng.uniform(0.3, 1.0, size=r)
            blk[...] = (x * w) @ y + (noise * func((m, n)) / max(m, n) if noise else 0.)
    return a


def _leg_problems(U, VH, a):
    """documented leg structure of the factors: outer legs are the legs of theta, the two new legs are contractible"""
    out = []
    for what, l1, l2, contr in (('U.legs[0] != theta.legs[0]', U.legs[0], a.legs[0], False),
                                ('VH.legs[1] != theta.legs[1]', VH.legs[1], a.legs[1], False),
                                ('U.legs[1] not contractible with VH.legs[0]', U.legs[1], VH.legs[0], True)):
        try:
            (l1.test_contractible if contr else l1.test_equal)(l2)
            # independent of LegCharge.test_*: flat charges with their sign agree (equal: q*qconj; contractible: opposite)
            q1 = a.chinfo.make_valid(l1.to_qflat() * l1.qconj)
            q2 = a.chinfo.make_valid(l2.to_qflat() * l2.qconj * (-1 if contr else 1))
            if l1.ind_len != l2.ind_len or not np.array_equal(q1, q2):
                out.append(what + ' (flat charges)')
            # npc.svd: "U.legs[1] = VH.legs[0].conj()", "VH.legs[0].qconj = inner_qconj" (default +1)
            if contr and (l1.qconj, l2.qconj) != (-1, +1):
                out.append('qconj of the new legs (U, VH) = (%d, %d), documented (-1, +1)' % (l1.qconj, l2.qconj))
        except Exception as e:
            out.append(what + ' (%s)' % type(e).__name__)
    return out


def _run_decomp(case):
    """svd_theta / eigh_rho on a random block-sparse matrix; report reconstruction numbers."""
    import tenpy.linalg.np_conserved as npc
    from tenpy.linalg.truncation import svd_theta, eigh_rho
    rng = np.random.default_rng(case['seed'])
    a = random_npc_matrix(rng, case['spec'])
    opts = {k: v for k, v in case['opts'].items() if v != 'absent'}
    out = {}
    nrm = npc.norm(a)
    if nrm == 0:
        return {'skip': 'zero matrix'}
    dense = a.to_ndarray()
    labels_in = list(a.get_leg_labels())
    kw = {}
    if case.get('inner_labels') is not None:
        kw['inner_labels'] = list(case['inner_labels'])
    inner = kw.get('inner_labels', ['vR', 'vL'])        # documented default
    want_q = [None, None]
    if case.get('qtotal_LR') is not None:
        # documented (npc.svd): desired qtotal of U, VH; a single None is the unique charge with U.qtotal + VH.qtotal = theta.qtotal
        qs = []
        for side, q in enumerate(case['qtotal_LR']):
            if q is None or case['spec']['mod'] is None:
                qs.append(None)
            else:
                qs.append(a.chinfo.make_valid(np.array([q])))
        if qs[0] is not None and qs[1] is not None:
            qs[1] = a.chinfo.make_valid(a.qtotal - qs[0])
        kw['qtotal_LR'] = qs
        want_q = [None if q is None else [int(v) for v in q] for q in qs]
        if qs[0] is None and qs[1] is None:
            want_q = [None, [int(v) for v in a.qtotal]]          # "[None, None] is equivalent to [None, a.qtotal]"
    else:
        want_q = [None, [int(v) for v in a.qtotal]]
    tp = dict(opts)
    if case.get('config'):
        from tenpy.tools.params import asConfig
        tp = asConfig(tp, 'trunc_params')
    try:
        with warnings.catch_warnings(record=True) as wlist:
            warnings.simplefilter('always')
            U, S, VH, err, renorm = svd_theta(a, tp, **kw)
    except Exception as e:
        return {'error': type(e).__name__ + ': ' + str(e)[:100]}
    # plain numpy reconstruction from the raw entries (independent of labels / charges / leg directions)
    Ud, VHd = U.to_ndarray(), VH.to_ndarray()
    diff = np.linalg.norm((Ud * (S * renorm)) @ VHd - dense) ** 2 / nrm ** 2
    sv = np.linalg.svd(dense, compute_uv=False)
    out['svd'] = {'eps': float(err.eps), 'rel_err2': float(diff), 'normS': float(np.linalg.norm(S)),
                  'chi': int(len(S)), 'renorm': float(renorm), 'norm_theta': float(nrm),
                  'dense_sv': [float(x) for x in sv], 'S': [float(x) for x in S],
                  'UdU': float(np.linalg.norm((Ud.conj().T @ Ud) - np.eye(len(S)))),
                  'VVd': float(np.linalg.norm((VHd @ VHd.conj().T) - np.eye(len(S)))),
                  'U_labels': list(U.get_leg_labels()), 'VH_labels': list(VH.get_leg_labels()),
                  'want_U_labels': [labels_in[0], inner[0]], 'want_VH_labels': [inner[1], labels_in[1]],
                  'leg_problems': _leg_problems(U, VH, a),
                  'qtotal_ok': bool(np.array_equal(a.chinfo.make_valid(U.qtotal + VH.qtotal), a.qtotal)),
                  'qtotal_LR': [[int(v) for v in U.qtotal], [int(v) for v in VH.qtotal]], 'want_qtotal_LR': want_q,
                  'dtypes': [str(U.dtype), str(VH.dtype), str(a.dtype), str(np.asarray(S).dtype)],
                  'theta_unchanged': bool(np.array_equal(a.to_ndarray(), dense) and list(a.get_leg_labels()) == labels_in),
                  'warnings': [str(w.message)[:60] for w in wlist if issubclass(w.category, UserWarning)][:3]}
    # the documented formula, literally: theta ~= tensordot(U.scale_axis(S*renormalization, 1), VH, axes=1)
    try:
        rec = npc.tensordot(U.scale_axis(S * renorm, 1), VH, axes=1)
        out['svd']['rel_err2_npc'] = float(npc.norm(rec - a) ** 2 / nrm ** 2)
    except Exception as e:
        out['svd']['rec_error'] = type(e).__name__ + ': ' + str(e)[:80]
    if case.get('eigh'):
        # density matrix rho = a a^dagger
        rho = npc.tensordot(a, a.conj(), axes=[1, 1])
        rd = rho.to_ndarray()
        ekw = {}
        uplo = case.get('UPLO')
        rho_in = rho
        if uplo is not None:
            ekw['UPLO'] = uplo
            if rho.legs[0].is_blocked():
                # documented: only the lower ('L') / upper ('U') triangle is read -> overwrite the other one with garbage
                # (blocked legs: every stored block is a diagonal block of the dense matrix)
                rho_in = rho.copy(deep=True)
                for blk in rho_in._data:
                    g = 7.5 + rng.normal(size=blk.shape)
                    blk += np.triu(g, 1) if uplo == 'L' else np.tril(g, -1)
                out['uplo_garbage'] = True
        if 'sort' in case:
            ekw['sort'] = case['sort']
        rho_in_dense = rho_in.to_ndarray()
        etp = dict(opts)                     # a fresh options object (truncate stores the defaults it used in it)
        if case.get('config'):
            from tenpy.tools.params import asConfig
            etp = asConfig(etp, 'trunc_params')
        try:
            with warnings.catch_warnings(record=True) as wlist2:
                warnings.simplefilter('always')
                W, V, err2 = eigh_rho(rho_in, etp, **ekw)
        except Exception as e:
            return {'error': 'eigh_rho ' + type(e).__name__ + ': ' + str(e)[:100]}
        Vd = V.to_ndarray()
        kept = Vd @ np.diag(W * (1. - err2.eps)) @ Vd.conj().T
        tr = np.trace(rd).real
        # order of the returned eigenvalues inside each charge block of the new leg, as documented for `sort`
        order_ok = True
        leg = V.legs[1]
        how = case.get('sort')
        for b in range(leg.block_number):
            w = np.asarray(W[leg.slices[b]:leg.slices[b + 1]])
            key = -np.abs(w) if how == 'm>' else (np.abs(w) if how == 'm<' else (-w if how == '>' else w))
            if np.any(np.diff(key) < -1e-13 * max(1., tr)):
                order_ok = False
        ev = np.linalg.eigvalsh(rd)
        out['eigh'] = {'eps': float(err2.eps), 'disc_weight': float(np.trace(rd - kept).real / tr),
                       'sumW_over_tr': float(np.sum(W) / tr),
                       'resid': float(np.linalg.norm(rd @ Vd - Vd @ np.diag(W * (1. - err2.eps))) / tr),
                       'VdV': float(np.linalg.norm(Vd.conj().T @ Vd - np.eye(len(W)))),
                       'order_ok': order_ok, 'chi': int(len(W)), 'n': int(rd.shape[0]),
                       'W_scaled': [float(x) for x in np.sort(W * (1. - err2.eps))[::-1][:50]],
                       'dense_ev': [float(x) for x in ev[::-1][:50]],
                       'labels': list(V.get_leg_labels()), 'want_labels': [labels_in[0], 'eig'],
                       'rho_unchanged': bool(np.array_equal(rho_in.to_ndarray(), rho_in_dense)),
                       'ov': float(err2.ov),
                       'warnings': [str(w.message)[:60] for w in wlist2 if issubclass(w.category, UserWarning)][:3]}
    return out


def run_decomp(case):
    """_run_decomp; a crash of the dense post-processing (results of inconsistent shapes ...) is an observation about the
    returned objects, reported with the case"""
    try:
        return _run_decomp(case)
    except Exception as e:
        import traceback
        return {'inconsistent': type(e).__name__ + ': ' + str(e)[:200], 'tb': traceback.format_exc()[-500:]}


def _ratio(x):
    """exact value of a float as [numerator, denominator]"""
    a, b = float(x).as_integer_ratio()
    return [int(a), int(b)]


def run_book(case):
    """svd_theta / eigh_rho on (a rotation of) diag(xs)/2^k: the renormalisation bookkeeping.
    The mask chosen by truncate is recorded by wrapping truncation.truncate (the wrapper only observes)."""
    import tenpy.linalg.np_conserved as npc
    from tenpy.linalg import truncation
    from fractions import Fraction
    rng = np.random.default_rng(case['seed'])
    xs = np.array(case['xs'], dtype=np.float64) / (1 << case['k'])
    n = len(xs)
    d = np.diag(xs)
    if case['rotate']:
        q1, _ = np.linalg.qr(rng.normal(size=(n, n)))
        q2, _ = np.linalg.qr(rng.normal(size=(n, n)))
        d = q1 @ d @ (q1.T if case['eigh'] else q2)
        if case['eigh']:
            d = (d + d.T) / 2
    a = npc.Array.from_ndarray_trivial(d, labels=['a', 'b'])
    opts = {k: v for k, v in case['opts'].items() if v != 'absent'}
    rec = {}
    orig = truncation.truncate

    def spy(S, options):
        out = orig(S, options)
        rec['mask'] = [bool(b) for b in out[0]]
        return out
    truncation.truncate = spy
    try:
        if case['eigh']:
            W0, _ = npc.eigh(a)                       # the call eigh_rho makes first
            W, V, err = truncation.eigh_rho(a, dict(opts))
            return {'order': [int(round(w * (1 << case['k']))) for w in W0], 'mask': rec['mask'],
                    'W': [_ratio(w * (1 << case['k'])) for w in W], 'eps': _ratio(err.eps),
                    'exact_in': bool(np.allclose(np.sort(W0), np.sort(xs), rtol=0, atol=1e-12))}
        _, S0, _ = npc.svd(a, full_matrices=False, compute_uv=True, inner_labels=['vR', 'vL'])
        U, S, VH, err, renorm = truncation.svd_theta(a, dict(opts))
        return {'order': [int(round(s * (1 << case['k']))) for s in S0], 'mask': rec['mask'],
                'S': [_ratio(s) for s in S], 'renorm': _ratio(renorm * (1 << case['k'])), 'eps': _ratio(err.eps),
                'exact_in': bool(np.allclose(np.sort(S0), np.sort(xs), rtol=0, atol=1e-12))}
    except Exception as e:
        return {'error': type(e).__name__ + ': ' + str(e)[:100]}
    finally:
        truncation.truncate = orig


def run_book_exact(case):
    """svd_theta / eigh_rho on P1 diag(xs / 2^sc) P2 (permutation matrices): exact data in, exact data out.
    Everything is reported as the exact ratio of the float: the singular values (eigenvalues) npc.svd (npc.eigh)
    returns for the planted matrix, the mask chosen by truncate (pass-through wrapper) and the outputs."""
    import tenpy.linalg.np_conserved as npc
    from tenpy.linalg import truncation
    xs = np.array(case['xs'], dtype=np.float64) / float(1 << case['sc'])
    n = len(xs)
    d = np.diag(xs)
    if case.get('perm'):
        p1 = np.eye(n)[case['perm'][0]]
        p2 = p1.T if case['eigh'] else np.eye(n)[case['perm'][1]]
        d = p1 @ d @ p2
    a = npc.Array.from_ndarray_trivial(d, labels=['a', 'b'])
    opts = {k: v for k, v in case['opts'].items() if v != 'absent'}
    rec = {}
    orig = truncation.truncate

    def spy(S, options):
        out = orig(S, options)
        rec['mask'] = [bool(b) for b in out[0]]
        return out
    truncation.truncate = spy
    try:
        if case['eigh']:
            W0, _ = npc.eigh(a)                       # the call eigh_rho makes first
            W, V, err = truncation.eigh_rho(a, dict(opts))
            return {'in': [_ratio(w) for w in W0], 'mask': rec['mask'], 'W': [_ratio(w) for w in W],
                    'eps': _ratio(err.eps), 'ov': float(err.ov)}
        _, S0, _ = npc.svd(a, full_matrices=False, compute_uv=True, inner_labels=['vR', 'vL'])
        U, S, VH, err, renorm = truncation.svd_theta(a, dict(opts))
        return {'in': [_ratio(s) for s in S0], 'mask': rec['mask'], 'S': [_ratio(s) for s in S],
                'renorm': _ratio(renorm), 'eps': _ratio(err.eps), 'ov': float(err.ov)}
    except Exception as e:
        return {'error': type(e).__name__ + ': ' + str(e)[:100]}
    finally:
        truncation.truncate = orig


def run_eig_svd(case):
    """truncation._eig_based_svd called directly: every combination of need_U / need_Vd / trunc_params"""
    import tenpy.linalg.np_conserved as npc
    from tenpy.linalg import truncation
    rng = np.random.default_rng(case['seed'])
    a = random_npc_matrix(rng, case['spec'])
    nrm = npc.norm(a)
    if nrm == 0:
        return {'skip': 'zero matrix'}
    if case.get('normalize'):
        a = a / nrm
    dense = a.to_ndarray()
    tp = None if case['opts'] is None else {k: v for k, v in case['opts'].items() if v != 'absent'}
    kw = {'need_U': case['need_U'], 'need_Vd': case['need_Vd'], 'trunc_params': tp}
    if case.get('inner_labels') is not None:
        kw['inner_labels'] = list(case['inner_labels'])
    if case.get('defaults'):
        kw = {k: v for k, v in kw.items() if not (k == 'trunc_params' and v is None)}     # trunc_params defaulted
    try:
        U, S, Vd, err, ren = truncation._eig_based_svd(a, **kw)
    except Exception as e:
        return {'error': type(e).__name__, 'msg': str(e)[:80]}
    sv = np.linalg.svd(dense, compute_uv=False)
    out = {'S': [float(x) for x in S], 'renorm': float(ren), 'eps': float(err.eps), 'ov': float(err.ov),
           'dense_sv': [float(x) for x in sv], 'norm_A': float(np.linalg.norm(dense)),
           'U_none': U is None, 'Vd_none': Vd is None, 'A_unchanged': bool(np.array_equal(a.to_ndarray(), dense))}
    Sr = np.asarray(S) * ren
    if U is not None:
        Ud = U.to_ndarray()
        out['U_iso'] = float(np.linalg.norm(Ud.conj().T @ Ud - np.eye(Ud.shape[1])))
        out['U_vec'] = float(np.max(np.abs(np.linalg.norm(dense.conj().T @ Ud, axis=0) - Sr))) if len(Sr) else 0.
        out['U_labels'] = list(U.get_leg_labels())
    if Vd is not None:
        Vdd = Vd.to_ndarray()
        out['Vd_iso'] = float(np.linalg.norm(Vdd @ Vdd.conj().T - np.eye(Vdd.shape[0])))
        out['Vd_vec'] = float(np.max(np.abs(np.linalg.norm(dense @ Vdd.conj().T, axis=0) - Sr))) if len(Sr) else 0.
        out['Vd_labels'] = list(Vd.get_leg_labels())
    return out


def run_callers(case):
    """a caller that accumulates the returned errors: MPS.compress_svd (finite chain).  Pass-through wrapper of the
    svd_theta name in tenpy.networks.mps records what every call reported."""
    import c15_qr
    from tenpy.networks import mps as mps_mod
    M = c15_qr._model(case)
    psi, rng = c15_qr._start_state(M, case)
    tp = {k: v for k, v in case['trunc'].items() if v != 'absent'}
    calls = []
    orig = mps_mod.svd_theta

    def spy(theta, trunc_par, *a, **kw):
        res = orig(theta, trunc_par, *a, **kw)
        calls.append([float(res[3].eps), float(res[3].ov), float(res[4]), int(len(res[1])), int(min(theta.shape))])
        return res
    psi.norm = case.get('norm0', 1.0)
    norm0 = float(psi.norm)
    full0 = psi.get_theta(0, psi.L).to_ndarray().reshape(-1) * norm0
    mps_mod.svd_theta = spy
    try:
        if case.get('via_compress'):
            err = psi.compress({'compression_method': 'SVD', 'trunc_params': tp})
        else:
            err = psi.compress_svd(tp)
    except Exception as e:
        return {'error': type(e).__name__ + ': ' + str(e)[:120]}
    finally:
        mps_mod.svd_theta = orig
    full1 = psi.get_theta(0, psi.L).to_ndarray().reshape(-1) * float(psi.norm)
    return {'calls': calls, 'eps': float(err.eps), 'ov': float(err.ov), 'norm0': norm0, 'norm': float(psi.norm),
            'norm_err': float(np.max(psi.norm_test())), 'chi': [int(c) for c in psi.chi],
            'dist2': float(np.linalg.norm(full1 - full0) ** 2 / np.linalg.norm(full0) ** 2),
            'norm_full0': float(np.linalg.norm(full0))}


def run_qr(case):
    import c15_qr
    return (c15_qr.run_qr_engine if case.get('engine') else c15_qr.run_qr_direct)(case)


def run_err_exact(case):
    """TruncationError arithmetic, results as exact ratios (inputs are chosen so that floats are exact)."""
    from tenpy.linalg.truncation import TruncationError
    tot = TruncationError()
    for (a, b) in case['eps_list']:
        e = a / b
        tot = tot + TruncationError(e, 1. - 2. * e)
    no = None if case['norm_old'] is None else case['norm_old'][0] / case['norm_old'][1]
    fs = TruncationError.from_S(np.array([a / b for (a, b) in case['S_disc']], dtype=np.float64), no)
    fn = TruncationError.from_norm(case['norm_new'][0] / case['norm_new'][1], no if no is not None else 1.)
    return {'eps_sum': _ratio(tot.eps), 'from_S_eps': _ratio(fs.eps), 'from_norm_eps': _ratio(fn.eps)}


def main():
    payload = json.load(open(sys.argv[1]))
    kind = payload['kind']
    f = {'truncate': run_truncate, 'err': run_err, 'err_api': run_err_api, 'eig_svd': run_eig_svd, 'callers': run_callers, 'decomp': run_decomp, 'book': run_book,
         'err_exact': run_err_exact, 'book_exact': run_book_exact, 'qr': run_qr}[kind]
    cov = None
    if payload.get('cov'):
        # branch / call coverage of tenpy/linalg/truncation.py in this process (observation only)
        import c15_cov
        cov = c15_cov if c15_cov.install() else None
    res = []
    for c in payload['cases']:
        try:
            res.append(f(c))
        except Exception as e:
            import traceback
            res.append({'runner_error': traceback.format_exc()[-800:]})
    if payload.get('cov'):
        res = {'res': res, 'cov': cov.report() if cov else None}
    json.dump(res, open(sys.argv[2], 'w'))


if __name__ == '__main__':
    main()
