"""Runs tenpy's LegCharge / LegPipe / combine_legs / split_legs on the cases of harness/c06.py
(fresh interpreter; pure python or rebuilt extension, see common.run_impl)."""
import itertools
import json
import re
import sys
import traceback
import warnings

import numpy as np

import c06ops_impl as ops

warnings.simplefilter('ignore')


def mk_chinfo(mods):
    from tenpy.linalg.charges import ChargeInfo
    return ChargeInfo(list(mods))


def mk_leg(ci, spec):
    from tenpy.linalg.charges import LegCharge
    sizes, charges, qconj = spec
    ch = np.array(charges, dtype=np.int64).reshape(len(sizes), ci.qnumber)
    ch = ci.make_valid(ch)
    return LegCharge.from_qind(ci, np.cumsum([0] + list(sizes)), ch, qconj)


def leg_blocks(leg):
    bs = leg.get_block_sizes()
    return [[int(s), [int(x) for x in c]] for s, c in zip(bs, leg.charges)]


def sane(leg):
    """test_sanity of the LegCharge part and (for pipes) of the pipe; returns error text or None"""
    from tenpy.linalg.charges import LegCharge
    try:
        LegCharge.test_sanity(leg)
        leg.test_sanity()
    except Exception as e:
        return type(e).__name__ + ': ' + str(e)[:80]
    return None


def run_pipe(case):
    from tenpy.linalg.charges import LegPipe, LegCharge
    ci = mk_chinfo(case['mods'])
    legs = [mk_leg(ci, s) for s in case['legs']]
    inner = None
    orig = legs
    if case.get('inner'):      # pipe of pipes: the first n legs are fused first, the resulting pipe is the first incoming leg
        ic = case['inner']
        inner = LegPipe(legs[:ic['n']], qconj=ic['qconj'], sort=ic['sort'], bunch=ic['bunch'])
        legs = [inner] + legs[ic['n']:]
    p = LegPipe(tuple(legs) if case.get('legs_tuple') else list(legs), qconj=case['qconj'], sort=case['sort'], bunch=case['bunch'])
    out = ops.pipe_desc(p)      # charges, slices, q_map, q_map_slices, flags, stored legs, map_incoming_flat on every tuple
    mif = out['mif']
    if inner is not None:
        out['inner'] = ops.pipe_desc(inner)
        n_in = ic['n']
        comp = []
        for t in itertools.product(*[range(l.ind_len) for l in orig]):
            try:
                comp.append(int(p.map_incoming_flat([inner.map_incoming_flat(list(t[:n_in]))] + list(t[n_in:]))))
            except Exception:
                comp.append(None)
        out['composed'] = comp
        cj = p.conj()
        out['conj_inner'] = {'is_pipe': isinstance(cj.legs[0], LegPipe), 'qconj': int(cj.legs[0].qconj),
                             'legs_qconj': [int(l.qconj) for l in getattr(cj.legs[0], 'legs', [])]}
    out['mif_forms'] = mif_forms(p, legs, mif)
    # every public method that returns a leg, applied to the pipe (found by reflection, see c06ops_impl.py)
    aux = {'extend_leg': legs[0], 'extend_int': 1}
    if case.get('table'):
        out['method_table'] = ops.method_table(p, aux)
    if OPS_ALL or case.get('arr_seed') is not None:
        out['ops'] = ops.apply_all(p, aux, base_pipe=dict(out), arr_seed=case.get('arr_seed'))
    else:
        out['ops'] = None
    # conj
    c = p.conj()
    out['conj'] = {'qconj': int(c.qconj), 'legs_qconj': [int(l.qconj) for l in c.legs],
                   'charges_same': bool(np.array_equal(c.charges, p.charges)),
                   'qmap_same': bool(np.array_equal(c.q_map, p.q_map)), 'sane': sane(c),
                   'mif_same': [int(c.map_incoming_flat(list(t))) for t in
                                itertools.product(*[range(l.ind_len) for l in legs])] == mif}
    try:
        p.test_contractible(c)
        out['conj']['contractible'] = True
    except ValueError:
        out['conj']['contractible'] = False
    try:
        p.test_equal(c)
        out['conj']['equal_to_conj'] = True
    except ValueError:
        out['conj']['equal_to_conj'] = False
    # outer_conj
    o = p.outer_conj()
    out['outer_conj'] = {'qconj': int(o.qconj), 'charges': [[int(x) for x in ch] for ch in o.charges],
                         'legs_qconj': [int(l.qconj) for l in o.legs], 'sorted': bool(o.sorted),
                         'bunched': bool(o.bunched), 'is_sorted': bool(o.is_sorted()), 'is_bunched': bool(o.is_bunched()),
                         'sane': sane(o), 'slices': [int(x) for x in o.slices], 'is_pipe': isinstance(o, LegPipe)}
    # to_LegCharge
    lc = p.to_LegCharge()
    out['to_leg'] = {'type_ok': type(lc) is LegCharge, 'blocks': leg_blocks(lc), 'qconj': int(lc.qconj),
                     'sorted': bool(lc.sorted), 'bunched': bool(lc.bunched)}
    return out


def mif_forms(p, legs, mif):
    """map_incoming_flat with negative indices / tuple / ndarray arguments, and its rejections"""
    probs = []
    lens = [int(l.ind_len) for l in legs]
    tuples = list(itertools.product(*[range(n) for n in lens]))
    if tuples and None not in mif:
        for j in sorted({0, len(tuples) // 2, len(tuples) - 1}):
            t = list(tuples[j])
            forms = {'negative indices': [x - n for x, n in zip(t, lens)], 'tuple': tuple(t), 'ndarray': np.array(t, dtype=np.intp),
                     'mixed signs': [x - n if i % 2 else x for i, (x, n) in enumerate(zip(t, lens))]}
            for name, arg in forms.items():
                try:
                    got = int(p.map_incoming_flat(arg))
                except Exception as e:
                    got = type(e).__name__
                if got != mif[j]:
                    probs.append('map_incoming_flat(%s) [%s] = %s, map_incoming_flat(%s) = %s' % (list(arg), name, got, t, mif[j]))
        t = list(tuples[-1])
        for l in range(len(lens)):
            for bad in (lens[l], -lens[l] - 1):
                t2 = list(t)
                t2[l] = bad
                try:
                    got = int(p.map_incoming_flat(t2))
                    probs.append('map_incoming_flat(%s) with ind_len %s returned %s instead of raising IndexError' % (t2, lens, got))
                except IndexError:
                    pass
                except Exception as e:
                    probs.append('map_incoming_flat(%s) with ind_len %s raised %s instead of IndexError' % (t2, lens, type(e).__name__))
    for arg in ([0] * (len(lens) + 1), [0] * (len(lens) - 1)):
        try:
            got = p.map_incoming_flat(arg)
            probs.append('map_incoming_flat(%s) on a pipe of %d legs returned %s instead of raising ValueError' % (arg, len(lens), got))
        except ValueError:
            pass
        except Exception as e:
            probs.append('map_incoming_flat(%s) on a pipe of %d legs raised %s instead of ValueError' % (arg, len(lens), type(e).__name__))
    return probs


def gq(leg, i):
    try:
        q, w = leg.get_qindex(i)
        return [int(q), int(w)]
    except IndexError:
        return 'IndexError'
    except Exception as e:
        return type(e).__name__


def _try(f, *a):
    try:
        return f(*a)
    except ValueError:
        return 'ValueError'
    except Exception as e:
        return type(e).__name__


def leg_accessors(ci, l, case):
    """the accessors / constructors / comparisons of LegCharge (raw results; judged in harness/c06.py: leg_oracle)"""
    from tenpy.linalg.charges import LegCharge, ChargeInfo
    acc = {}
    nb = l.block_number
    acc['get_slice'] = [[int(l.get_slice(q).start), int(l.get_slice(q).stop)] for q in range(nb)]
    acc['get_charge'] = [[int(x) for x in l.get_charge(q)] for q in range(nb)]
    acc['block_sizes'] = [int(x) for x in l.get_block_sizes()]
    acc['flags'] = [bool(l.is_blocked()), bool(l.is_sorted()), bool(l.is_bunched())]
    acc['charge_sectors'] = [[int(x) for x in c] for c in l.charge_sectors()]
    qd = _try(l.to_qdict)
    acc['to_qdict'] = qd if isinstance(qd, str) else sorted([[int(x) for x in k], int(v.start), int(v.stop)] for k, v in qd.items())
    look = []
    seen = set()
    for q in range(nb):
        c = tuple(int(x) for x in l.get_charge(q))
        if c in seen:
            continue
        seen.add(c)
        r = _try(l.get_qindex_of_charges, list(c))
        look.append([list(c), r if isinstance(r, str) else int(r)])
    absent = [7] * ci.qnumber
    r = _try(l.get_qindex_of_charges, absent)
    look.append([absent, r if isinstance(r, str) else int(r)])
    acc['qindex_of_charges'] = look
    # constructors
    qf = l.to_qflat()
    f = LegCharge.from_qflat(ci, qf.tolist() if case.get('mask') and case['mask'][0] else qf, l.qconj)
    acc['from_qflat'] = {'blocks': leg_blocks(f), 'qconj': int(f.qconj), 'sane': sane(f)}
    if ci.qnumber == 1:
        f1 = LegCharge.from_qflat(ci, [int(x) for x in qf[:, 0]], l.qconj)      # documented: 1D qflat for a single charge
        acc['from_qflat_1d'] = {'blocks': leg_blocks(f1), 'qconj': int(f1.qconj), 'sane': sane(f1)}
    if not isinstance(qd, str) and nb > 0 and np.all(l.get_block_sizes() > 0):
        f2 = _try(LegCharge.from_qdict, ci, qd, l.qconj)
        acc['from_qdict'] = f2 if isinstance(f2, str) else {'blocks': leg_blocks(f2), 'qconj': int(f2.qconj), 'sane': sane(f2)}
    f3 = LegCharge.from_trivial(l.ind_len, ci, l.qconj)
    acc['from_trivial'] = {'blocks': leg_blocks(f3), 'qconj': int(f3.qconj), 'sane': sane(f3)}
    f4 = LegCharge.from_trivial(l.ind_len)
    acc['from_trivial_default'] = {'blocks': leg_blocks(f4), 'qconj': int(f4.qconj), 'sane': sane(f4), 'qnumber': int(f4.chinfo.qnumber)}
    # comparisons: other block structure with the same charges on every index / other ChargeInfo
    fine = LegCharge.from_qflat(ci, qf, l.qconj)
    acc['eq'] = {'self': _try(lambda: bool(l == l)), 'copy': _try(lambda: bool(l == l.copy())),
                 'rebuilt': _try(lambda: bool(l == LegCharge(ci, l.slices.copy(), l.charges.copy(), l.qconj))),
                 'fine_blocks': _try(lambda: bool(l == fine)), 'ne_fine_blocks': _try(lambda: bool(l != fine)),
                 'fine_same_structure': bool(np.array_equal(fine.slices, l.slices)),
                 'longer': _try(lambda: bool(l == l.extend(1))),
                 'doubled_blocks': _try(lambda: bool(l == LegCharge(ci, l.slices * 2, l.charges.copy(), l.qconj))),
                 'test_equal_doubled_blocks': _try(lambda: l.test_equal(LegCharge(ci, l.slices * 2, l.charges.copy(), l.qconj)) or 'accepted'),
                 'other_chinfo': _try(lambda: bool(l == LegCharge.from_trivial(l.ind_len, ChargeInfo([5, 5, 5]), l.qconj))),
                 'test_equal_other_chinfo': _try(lambda: l.test_equal(LegCharge.from_trivial(l.ind_len, ChargeInfo([5, 5, 5]), l.qconj))),
                 'test_equal_longer': _try(lambda: l.test_equal(l.extend(1))),
                 'test_contractible_longer': _try(lambda: l.test_contractible(l.extend(1).conj()))}
    # second application: sorting / bunching the sorted / bunched result changes nothing
    again = {}
    for b in (True, False):
        _, s1 = l.sort(bunch=b)
        perm2, s2 = s1.sort(bunch=b)
        again['sort_%d' % b] = {'perm': [int(x) for x in perm2], 'same': bool(leg_blocks(s2) == leg_blocks(s1) and s2.qconj == s1.qconj)}
    _, b1 = l.bunch()
    idx2, b2 = b1.bunch()
    again['bunch'] = {'idx': [int(x) for x in idx2], 'same': bool(leg_blocks(b2) == leg_blocks(b1)), 'n': int(b1.block_number)}
    acc['again'] = again
    if case.get('table'):      # once per process: malformed objects / arguments have to be rejected (TENPY_OPTIMIZE=0)
        rej = {}

        def broken(**kw):
            x = LegCharge(ci, np.array([0, 1, 3]), np.zeros((2, ci.qnumber), dtype=np.int64), 1)
            for k, v in kw.items():
                setattr(x, k, v)
            return _try(x.test_sanity) or 'accepted'
        rej['test_sanity: slices too long'] = broken(slices=np.array([0, 1, 2, 3]))
        rej['test_sanity: slices start at 1'] = broken(slices=np.array([1, 2, 3]))
        rej['test_sanity: charges with a column too many'] = broken(charges=np.zeros((2, ci.qnumber + 1), dtype=np.int64))
        z2 = LegCharge(ChargeInfo([2]), np.array([0, 1, 3]), np.zeros((2, 1), dtype=np.int64), 1)
        z2.charges = np.array([[2], [0]], dtype=np.int64)
        rej['test_sanity: Z_2 charge 2 (not reduced)'] = _try(z2.test_sanity) or 'accepted'
        rej['test_sanity: qconj 0'] = broken(qconj=0)
        rej['test_sanity: sorted flag on unsorted charges'] = 'skipped' if ci.qnumber == 0 else _try(
            lambda: LegCharge.test_sanity(_with_flag(LegCharge(ci, np.array([0, 1, 2]), ci.make_valid(np.array([[1] * ci.qnumber, [0] * ci.qnumber])), 1), 'sorted')) or 'accepted')
        rej['test_sanity: bunched flag on equal neighbours'] = _try(
            lambda: LegCharge.test_sanity(_with_flag(LegCharge(ci, np.array([0, 1, 2]), np.zeros((2, ci.qnumber), dtype=np.int64), 1), 'bunched')) or 'accepted')
        rej['from_qflat: second dimension != qnumber'] = _try(lambda: LegCharge.from_qflat(ci, np.zeros((2, ci.qnumber + 1), dtype=np.int64)) and 'accepted')
        rej['from_qdict: slices with a gap'] = _try(lambda: LegCharge.from_qdict(ci, {(0,) * ci.qnumber: slice(0, 1), (1,) * ci.qnumber: slice(2, 3)}) and 'accepted')
        acc['rejects'] = rej
    return acc


def _with_flag(leg, flag):
    setattr(leg, flag, True)
    return leg


def run_leg(case):
    from tenpy.linalg.charges import LegCharge
    ci = mk_chinfo(case['mods'])
    l = mk_leg(ci, case['leg'])
    n = l.ind_len
    out = {'blocks': leg_blocks(l), 'qflat': [[int(x) for x in c] for c in l.to_qflat()], 'sane': sane(l),
           'sorted': bool(l.sorted), 'bunched': bool(l.bunched)}
    for b in (True, False):
        perm, s = l.sort(bunch=b)
        out['sort_%d' % b] = {'perm': [int(x) for x in perm], 'blocks': leg_blocks(s), 'qconj': int(s.qconj),
                              'qflat': [[int(x) for x in c] for c in s.to_qflat()], 'sane': sane(s),
                              'sorted': bool(s.sorted), 'bunched': bool(s.bunched), 'blocked': bool(s.is_blocked()),
                              'perm_flat': [int(x) for x in l.perm_flat_from_perm_qind(perm)] if len(perm) else []}
        if not b:
            pf = l.perm_flat_from_perm_qind(perm)
            try:
                out['perm_qind_back'] = [int(x) for x in l.perm_qind_from_perm_flat(pf)] if n > 0 else None
            except Exception as e:
                out['perm_qind_back'] = type(e).__name__
    idx, bl = l.bunch()
    out['bunch'] = {'idx': [int(x) for x in idx], 'blocks': leg_blocks(bl), 'qflat': [[int(x) for x in c] for c in bl.to_qflat()],
                    'sane': sane(bl), 'bunched': bool(bl.bunched), 'sorted': bool(bl.sorted)}
    mask = np.array(case['mask'], dtype=bool)
    mq, bm, pl = l.project(mask)
    out['project'] = {'map_qind': [int(x) for x in mq], 'block_masks': [[bool(x) for x in m] for m in bm],
                      'blocks': leg_blocks(pl), 'qflat': [[int(x) for x in c] for c in pl.to_qflat()], 'sane': sane(pl),
                      'bunched': bool(pl.bunched), 'sorted': bool(pl.sorted)}
    ex = case['extra']
    if isinstance(ex, int):
        el = l.extend(ex)
    else:
        el = l.extend(mk_leg(ci, ex))
    out['extend'] = {'blocks': leg_blocks(el), 'qconj': int(el.qconj), 'qflat': [[int(x) for x in c] for c in el.to_qflat()],
                     'sane': sane(el)}
    fl = l.flip_charges_qconj()
    out['flip'] = {'blocks': leg_blocks(fl), 'qconj': int(fl.qconj), 'sane': sane(fl)}
    cj = l.conj()
    out['conj'] = {'blocks': leg_blocks(cj), 'qconj': int(cj.qconj), 'sane': sane(cj)}
    rel = {}

    def t(name, f, *a):
        try:
            f(*a)
            rel[name] = True
        except ValueError:
            rel[name] = False
    t('equal_self_flip', l.test_equal, fl)
    t('equal_flip_self', fl.test_equal, l)
    t('contr_self_conj', l.test_contractible, cj)
    t('contr_conj_self', cj.test_contractible, l)
    t('contr_flipconj', fl.conj().test_contractible, l)
    t('equal_self_conj', l.test_equal, cj)
    t('contr_self_self', l.test_contractible, l)
    t('contr_self_flip', l.test_contractible, fl)
    out['rel'] = rel
    out['get_qindex'] = [[i, gq(l, i)] for i in range(-n - 2, n + 3)]
    out['acc'] = leg_accessors(ci, l, case)
    # every public method that returns a leg, applied to the plain leg (same machinery as for pipes)
    aux = {'mask': case['mask'], 'extend_int': ex if isinstance(ex, int) else 1,
           'extend_leg': None if isinstance(ex, int) else mk_leg(ci, ex)}
    if case.get('table'):
        out['method_table'] = ops.method_table(l, aux)
    out['ops'] = ops.apply_all(l, aux)
    return out


# --------------------------------------------------------------------------------------------
# arrays: combine_legs / split_legs / sort_legcharge / as_completely_blocked against dense numpy
# --------------------------------------------------------------------------------------------

def parse_label(lab):
    """'(a.(b.c))' -> nested list ['a', ['b', 'c']]; independent of tenpy's label splitter"""
    pos = 0

    def rec():
        nonlocal pos
        if lab[pos] == '(':
            pos += 1
            items = [rec()]
            while lab[pos] == '.':
                pos += 1
                items.append(rec())
            assert lab[pos] == ')'
            pos += 1
            return items
        beg = pos
        while pos < len(lab) and lab[pos] not in '.()':
            pos += 1
        return lab[beg:pos]
    r = rec()
    assert pos == len(lab)
    return r


def flat_index(leg, tree, idx_of):
    """index on `leg` (a LegPipe if tree is a list) of the incoming indices given by label"""
    if isinstance(tree, str):
        return idx_of[tree]
    sub = [flat_index(l, t, idx_of) for l, t in zip(leg.legs, tree)]
    return int(leg.map_incoming_flat(sub))


def placement_problems(a_dense, labels, res, what):
    """every entry of the dense original sits in `res` where the labels + map_incoming_flat say"""
    probs = []
    rd = res.to_ndarray()
    if rd.size != a_dense.size:
        return ['%s: size %d != %d' % (what, rd.size, a_dense.size)]
    trees = [parse_label(l) for l in res.get_leg_labels()]
    seen = set()
    for idx in itertools.product(*[range(s) for s in a_dense.shape]):
        idx_of = dict(zip(labels, idx))
        out = tuple(flat_index(leg, tr, idx_of) for leg, tr in zip(res.legs, trees))
        seen.add(out)
        if rd[out] != a_dense[idx]:
            probs.append('%s: entry %s of the original is not at %s of the result' % (what, idx, out))
            break
    if not probs and len(seen) != a_dense.size:
        probs.append('%s: index map is not injective' % what)
    return probs


def label_problem(key, text, got, exp):
    """labels differ: special key when the only difference is None -> '?#' on untouched legs"""
    if len(got) == len(exp) and all(g == e or (e is None and isinstance(g, str) and g.startswith('?')) for g, e in zip(got, exp)):
        return ('labels:qmark', text)
    return (key, text)


def legs_identical(l1, l2):
    return (l1.qconj == l2.qconj and np.array_equal(l1.slices, l2.slices) and np.array_equal(l1.charges, l2.charges)
            and l1.chinfo == l2.chinfo)


def split_dense(dense, ax, pipe):
    """dense oracle for splitting ONE pipe at axis ax: entry (.., t_1..t_n, ..) <- (.., map_incoming_flat(t), ..)"""
    sub = [int(l.ind_len) for l in pipe.legs]
    mif = np.array([int(pipe.map_incoming_flat(list(t))) for t in itertools.product(*[range(x) for x in sub])], dtype=np.intp)
    r = np.take(dense, mif, axis=ax)
    return r.reshape(dense.shape[:ax] + tuple(sub) + dense.shape[ax + 1:])


def pipes_equal(p1, p2):
    from tenpy.linalg.charges import LegPipe
    if isinstance(p1, LegPipe) != isinstance(p2, LegPipe) or not legs_identical(p1, p2):
        return False
    if not isinstance(p1, LegPipe):
        return True
    return (np.array_equal(p1.q_map, p2.q_map) and np.array_equal(p1.q_map_slices, p2.q_map_slices) and p1.nlegs == p2.nlegs
            and all(pipes_equal(x, y) for x, y in zip(p1.legs, p2.legs)))


def must_raise(probs, what, f, kinds=(ValueError,)):
    """an invalid call has to be rejected (and not answered with a wrong tensor)"""
    try:
        f()
    except kinds:
        return
    except Exception as e:
        if kinds == (Exception,):
            return
        probs.append(('reject:type', '%s raised %s instead of %s' % (what, type(e).__name__, '/'.join(k.__name__ for k in kinds))))
        return
    probs.append(('reject:accepted', '%s was accepted' % what))


def run_array(case):
    import tenpy.linalg.np_conserved as npc
    from tenpy.linalg.charges import LegPipe, LegCharge
    rng = np.random.default_rng(case['seed'])
    ci = mk_chinfo(case['mods'])
    legs = [mk_leg(ci, s) for s in case['legs']]
    rank = len(legs)
    tags = []
    # total charge of a random block tuple, so that something is stored
    qi = case['qtotal_block']
    qtotal = ci.make_valid(np.sum([l.get_charge(q % l.block_number) for l, q in zip(legs, qi)], axis=0)) if ci.qnumber else None
    dtype = {'float': np.float64, 'complex': np.complex128, 'int': np.int64}[case.get('dtype', 'float')]

    def func(shape):
        x = rng.integers(1, 50, size=shape)
        if dtype is np.complex128:
            return x + 1j * rng.integers(1, 50, size=shape)
        return x.astype(dtype)
    labels = case['labels']
    pt = case.get('pre_transpose')
    if pt:      # blocks become non-contiguous views
        a0 = npc.Array.from_func(func, [legs[i] for i in pt], dtype=dtype, qtotal=qtotal, labels=[labels[i] for i in pt])
        inv = [pt.index(i) for i in range(rank)]
        a = a0.transpose(inv)
    else:
        a = npc.Array.from_func(func, legs, dtype=dtype, qtotal=qtotal, labels=labels)
    bl_opt = case.get('blocks', 'all')
    nst = a.stored_blocks
    if bl_opt == 'some-missing' and nst > 1:
        keep = [i for i in range(nst) if (i + case['drop_blocks']) % 3 != 0]
    elif bl_opt == 'one' and nst >= 1:
        keep = [case['drop_blocks'] % nst]
    elif bl_opt == 'none':
        keep = []
    else:
        keep = list(range(nst))
    if case.get('shuffle') and len(keep) > 1:
        keep = [keep[i] for i in rng.permutation(len(keep))]
        a._qdata_sorted = False
    if keep != list(range(nst)):
        a._data = [a._data[i] for i in keep]
        a._qdata = a._qdata[keep] if keep else np.empty((0, rank), dtype=np.intp)
    a.test_sanity()
    ad = a.to_ndarray()
    in_legs = list(a.legs)
    probs = []   # (key, text)
    olabels = [(l if l is not None else '?%d' % i) for i, l in enumerate(labels)]
    out = {'stored_blocks': int(a.stored_blocks), 'size': int(ad.size)}
    # ---- get_leg_index boundary
    for lab, exp in [(rank, 'ValueError'), (-rank - 1, 'ValueError'), (rank - 1, rank - 1), (-rank, 0)]:
        try:
            got = a.get_leg_index(lab)
        except ValueError:
            got = 'ValueError'
        except Exception as e:
            got = type(e).__name__
        if got != exp:
            probs.append(('get_leg_index:rank' if lab == rank else 'get_leg_index',
                          'get_leg_index(%d) on a rank-%d array gave %r, expected %r' % (lab, rank, got, exp)))
    # ---- combine_legs: the call in the requested form
    groups = case['combine']
    by = case['by']
    use = [[olabels[i] if b else i for i, b in zip(g, bg)] for g, bg in zip(groups, by)]
    form = case.get('cl_form', 'nested-list')
    flat = form.startswith('flat')

    def mk_cl_arg():
        if form == 'nested-list':
            return [list(g) for g in use]
        elif form == 'nested-tuple':
            return tuple(tuple(g) for g in use)
        elif form == 'flat-list':
            return list(use[0])
        elif form == 'flat-tuple':
            return tuple(use[0])
        elif form == 'ndarray':
            return np.array(use, dtype=np.intp)
        return (list(g) for g in use)
    cl_arg = mk_cl_arg()
    kw = {}
    na = case.get('new_axes')
    na_form = case.get('na_form', 'none' if na is None else 'list')
    na_arg = None
    if na is not None:
        na_arg = {'list': list, 'tuple': tuple, 'ndarray': lambda x: np.array(x, dtype=np.intp), 'int': lambda x: int(x[0])}[na_form](na)
        kw['new_axes'] = na_arg
    qc = case.get('qconj')
    if qc is not None:
        kw['qconj'] = {'int': lambda x: x, 'list': list, 'tuple': tuple, 'ndarray': lambda x: np.array(x)}[case['qconj_form']](qc)
    given = case.get('given')
    given_pipes = [None] * len(groups)
    if given:
        for gi, g in enumerate(groups):
            if not given['which'][gi]:
                continue
            pl = [legs[i] for i in g]
            pkw = {'qconj': given['qconj'], 'sort': given['sort'], 'bunch': given['bunch']} if given['kwargs'] or given['via'] == 'LegPipe' else {}
            if given['via'] == 'make_pipe':
                src = a.conj(complex_conj=False) if given['rel'] == 'conj' else a
                if given['axes_by_label']:
                    lab_src = src.get_leg_labels()
                    axes_arg = [lab_src[i] for i in g]
                else:
                    axes_arg = list(g)
                p_ = src.make_pipe(axes_arg, **pkw)
                ref = LegPipe([src.legs[i] for i in g], **pkw)
                if not pipes_equal(p_, ref) or p_.qconj != ref.qconj or bool(p_.sorted) != bool(ref.sorted) or bool(p_.bunched) != bool(ref.bunched):
                    probs.append(('make_pipe', 'make_pipe(%r, **%r) is not LegPipe(legs of these axes, **kwargs)' % (axes_arg, pkw)))
            else:
                if given['rel'] == 'conj':
                    pl = [l.conj() for l in pl]
                p_ = LegPipe(pl, **pkw)
            given_pipes[gi] = p_
        pf = case['pipes_form']
        kw['pipes'] = given_pipes[0] if pf == 'single' else tuple(given_pipes) if pf == 'tuple' else list(given_pipes)
        given_snap = [None if p_ is None else (int(p_.qconj), [int(l.qconj) for l in p_.legs], p_.charges.copy()) for p_ in given_pipes]
    na_snap = list(na_arg) if isinstance(na_arg, list) else None
    try:
        res = a.combine_legs(cl_arg, **kw)
    except TypeError as e:
        if na_form == 'tuple' and any(x < 0 for x in na) and 'item assignment' in str(e):
            probs.append(('combine:new_axes-tuple-negative', 'combine_legs(new_axes=%r) raises TypeError: %s (new_axes : None | (iterable of) int)' % (na_arg, e)))
            kw['new_axes'] = list(na)
            res = a.combine_legs(mk_cl_arg(), **kw)
        else:
            raise
    if na_snap is not None and list(na_arg) != na_snap:
        out['note_new_axes_mutated'] = True
    if given:
        for p_, sn in zip(given_pipes, given_snap):
            if p_ is not None and (int(p_.qconj) != sn[0] or [int(l.qconj) for l in p_.legs] != sn[1] or not np.array_equal(p_.charges, sn[2])):
                probs.append(('combine:given-pipe-modified', 'combine_legs modified the LegPipe given as `pipes`'))
    try:
        res.test_sanity()
    except Exception as e:
        probs.append(('combine:sanity', 'combine_legs result fails test_sanity: %s' % e))
    tags.append('combine.stored_blocks' + ('=0' if a.stored_blocks == 0 else '=1' if a.stored_blocks == 1 else '>1'))
    if res.stored_blocks < a.stored_blocks:
        tags.append('combine.result-blocks-merged(several old blocks -> one new)')
    # expected order of the result axes (documented rule), as (is_pipe, [original axes])
    nonc = [i for i in range(rank) if not any(i in g for g in groups)]
    if na is None:
        units = sorted([(False, [i]) for i in nonc] + [(True, list(g)) for g in groups], key=lambda u: u[1][0])
    else:
        nr = len(nonc) + len(groups)
        units = [None] * nr
        for g, x in zip(groups, na):
            units[x % nr] = (True, list(g))
        it = iter(nonc)
        units = [u if u is not None else (False, [next(it)]) for u in units]
    order = [i for u in units for i in u[1]]
    tags.append('combine_legs.transposition=' + ('not-needed' if order == list(range(rank)) else 'needed'))

    def plab(g):
        return '(' + '.'.join(olabels[i] for i in g) + ')'
    exp_labels = [plab(u[1]) if u[0] else labels[u[1][0]] for u in units]
    got_labels = res.get_leg_labels()
    if got_labels != exp_labels:
        probs.append(label_problem('combine:labels', 'combine_legs labels %r, documented %r' % (got_labels, exp_labels), got_labels, exp_labels))
    res_l = res.copy(deep=False)
    res_l.iset_leg_labels([plab(u[1]) if u[0] else olabels[u[1][0]] for u in units])
    try:
        probs += [('combine:placement', p) for p in placement_problems(ad, olabels, res_l, 'combine_legs')]
    except Exception:
        probs.append(('combine:placement', 'placement oracle could not be evaluated: ' + traceback.format_exc()[-300:]))
    if res.dtype != a.dtype:
        probs.append(('combine:dtype', 'dtype %s -> %s' % (a.dtype, res.dtype)))
    # qconj of the new pipes
    pipe_axes = [k for k, u in enumerate(units) if u[0]]
    for gi, g in enumerate(groups):
        lab = plab(g)
        pipe = res_l.get_leg(lab)
        if not isinstance(pipe, LegPipe):
            probs.append(('combine:pipe-type', 'leg %s of the result is no LegPipe' % lab))
            continue
        if given and given['which'][gi]:
            want = given_pipes[gi].qconj * (-1 if given['rel'] == 'conj' else 1)
            if given['rel'] == 'conj':
                tags.append('pipe.given-conjugated-was-conjugated')
            # the pipe of the result has to be the given one (conjugated as a whole when necessary): same layout
            if not np.array_equal(pipe.q_map, given_pipes[gi].q_map) or not np.array_equal(pipe.charges, given_pipes[gi].charges):
                probs.append(('combine:given-pipe-layout', 'pipe %s of the result does not have the layout of the given pipe' % lab))
        elif qc is None:
            want = legs[g[0]].qconj
        elif isinstance(qc, list):
            want = qc[gi]
        else:
            want = qc
        if pipe.qconj != want:
            probs.append(('combine:qconj', 'pipe %s has qconj %d, documented %d' % (lab, pipe.qconj, want)))
        for pl, i in zip(pipe.legs, g):
            if not legs_identical(pl, legs[i]):
                probs.append(('combine:pipe-legs', 'pipe %s does not contain the legs of the array (leg %d: qconj %d / %d)' % (lab, i, pl.qconj, legs[i].qconj)))
        tags.append('pipe.ties-in-fused-charge=' + ('yes' if pipe.q_map.shape[0] > pipe.block_number else 'no'))
        if pipe.q_map.shape[0] == 1:
            tags.append('pipe.single-row(fast-path)')
        if np.any(pipe.q_map[:, 1] == pipe.q_map[:, 0]):
            tags.append('pipe.zero-size-block')
    # ---- split_legs restores the (transposed) original: all pipes at once, default arguments
    sp = res.split_legs()
    try:
        sp.test_sanity()
    except Exception as e:
        probs.append(('split:sanity', 'split_legs result fails test_sanity: %s' % e))
    tags.append('split.branch=' + ('no-blocks' if res.stored_blocks == 0 else 'single-block-single-row'
                                   if res.stored_blocks == 1 and all(getattr(res.legs[k], 'q_map', np.zeros((2, 0))).shape[0] == 1 for k in pipe_axes)
                                   else 'worker'))
    exp_sp = np.transpose(ad, order)
    spd = sp.to_ndarray()
    if spd.shape != exp_sp.shape or not np.array_equal(spd, exp_sp):
        probs.append(('split:dense', 'split_legs(combine_legs(a)) differs from a (transposed by %s)' % order))
    if sp.dtype != a.dtype:
        probs.append(('split:dtype', 'dtype %s -> %s' % (a.dtype, sp.dtype)))
    if sp.get_leg_labels() != [labels[i] for i in order]:
        probs.append(label_problem('split:labels', 'labels after split_legs(combine_legs(a)) %r, original %r' % (sp.get_leg_labels(), [labels[i] for i in order]),
                                   sp.get_leg_labels(), [labels[i] for i in order]))
    for k, i in enumerate(order):
        if k < len(sp.legs) and not legs_identical(sp.legs[k], legs[i]):
            probs.append(('split:legs', 'leg %d after split is not the original leg %d' % (k, i)))
    if np.any(sp.qtotal != a.qtotal):
        probs.append(('split:qtotal', 'qtotal changed'))
    # ---- split_legs in the requested call form (axes given as int / label / negative / one by one) and with a cutoff
    sform = case.get('split_form', 'none')
    cut = {'0': 0.0, 'below-all-entries': 0.5, 'above-some-entries': 25.0}[case.get('cutoff', '0')]
    if cut > 0:
        tags.append('split.cutoff>0')
    rl = res_l.get_leg_labels()
    nres = res.rank
    try:
        ckw = {'cutoff': cut} if cut != 0.0 or case['split_pick'] % 2 else {}
        if sform == 'none':
            sp2 = res_l.split_legs(**ckw)
        elif sform == 'int-list':
            sp2 = res_l.split_legs(list(pipe_axes), **ckw)
        elif sform == 'label-list':
            sp2 = res_l.split_legs([rl[k] for k in reversed(pipe_axes)], **ckw)
        elif sform == 'negative-list':
            sp2 = res_l.split_legs([k - nres for k in pipe_axes], **ckw)
        elif sform == 'tuple':
            sp2 = res_l.split_legs(tuple(pipe_axes), **ckw)
        else:      # single-int / single-label / partial: one pipe first (checked against the dense index map), then the rest
            j = case['split_pick'] % len(pipe_axes)
            k = pipe_axes[j]
            if sform == 'single-label':
                sp1 = res_l.split_legs(rl[k], **ckw)
            elif sform == 'single-int':
                sp1 = res_l.split_legs(k if case['split_pick'] % 4 < 2 else k - nres, **ckw)
            else:
                sp1 = res_l.split_legs([rl[k]], **ckw)
            sp1.test_sanity()
            want1 = split_dense(res_l.to_ndarray(), k, res_l.legs[k])
            got1 = sp1.to_ndarray()
            bad = got1.shape != want1.shape or not np.array_equal(got1, want1)
            if bad and cut > 0 and got1.shape == want1.shape:
                d = got1 != want1
                bad = bool(np.any(got1[d] != 0) or np.any(np.abs(want1[d]) > cut))
            if bad:
                probs.append(('split-form:dense', 'split_legs(%r) of one pipe does not place the entries along map_incoming_flat' % (rl[k],)))
            exp_l1 = rl[:k] + [labels[i] for i in units[k][1]] + rl[k + 1:]
            if sp1.get_leg_labels() != exp_l1:
                probs.append(('split-form:labels', 'labels after split_legs(%r): %r, expected %r' % (rl[k], sp1.get_leg_labels(), exp_l1)))
            for kk, l_ in enumerate(sp1.legs):      # untouched legs (other pipes included) stay what they were
                src_k = kk if kk < k else (None if kk < k + len(units[k][1]) else kk - len(units[k][1]) + 1)
                if src_k is not None and not pipes_equal(l_, res_l.legs[src_k]):
                    probs.append(('split-form:other-legs', 'split_legs(%r) changed the untouched leg %d' % (rl[k], src_k)))
            sp2 = sp1.split_legs(**ckw) if len(pipe_axes) > 1 else sp1
        sp2.test_sanity()
        got2 = sp2.to_ndarray()
        bad = got2.shape != exp_sp.shape or not np.array_equal(got2, exp_sp)
        if bad and cut > 0 and got2.shape == exp_sp.shape:
            # documented: split blocks whose largest |entry| does not exceed the cutoff may be dropped (= zero)
            d = got2 != exp_sp
            bad = bool(np.any(got2[d] != 0) or np.any(np.abs(exp_sp[d]) > cut))
        if bad:
            probs.append(('split-form:dense', 'split_legs(axes form %r, cutoff=%r) of combine_legs(a) differs from a (transposed by %s)' % (sform, cut, order)))
        if sp2.get_leg_labels() != [labels[i] if u[0] else olabels[i] for u in units for i in u[1]]:
            probs.append(('split-form:labels', 'labels after split_legs(axes form %r): %r' % (sform, sp2.get_leg_labels())))
        for k, i in enumerate(order):
            if k < len(sp2.legs) and not legs_identical(sp2.legs[k], legs[i]):
                probs.append(('split-form:legs', 'leg %d after split_legs(axes form %r) is not the original leg %d' % (k, sform, i)))
    except Exception:
        probs.append(('split-form:raises', 'split_legs(axes form %r, cutoff=%r) raised: %s' % (sform, cut, traceback.format_exc()[-300:])))
    # ---- a pipe label that is not of the form '(...)': documented warning, labels None, data untouched
    if case.get('badlabel'):
        try:
            rb = res.copy(deep=False)
            k = pipe_axes[case['split_pick'] % len(pipe_axes)]
            lb = rb.get_leg_labels()
            lb[k] = 'x'
            rb.iset_leg_labels(lb)
            with warnings.catch_warnings(record=True) as wl:
                warnings.simplefilter('always')
                sb = rb.split_legs(k)
            want = split_dense(res.to_ndarray(), k, res.legs[k])
            n_in = res.legs[k].nlegs
            if not np.array_equal(sb.to_ndarray(), want) or sb.get_leg_labels()[k:k + n_in] != [None] * n_in or not wl:
                probs.append(('split:badlabel', "split_legs of a pipe labelled 'x': data/labels/warning not as documented (labels %r, %d warnings)"
                              % (sb.get_leg_labels(), len(wl))))
        except Exception:
            probs.append(('split:badlabel', "split_legs of a pipe labelled 'x' raised: " + traceback.format_exc()[-300:]))
    # ---- the result used again: recombine the split tensor with the pipes of the first result (cf. docstring example c3)
    try:
        starts = []
        pos = 0
        for u in units:
            starts.append(pos)
            pos += len(u[1])
        cl2 = [list(range(starts[k], starts[k] + len(units[k][1]))) for k in pipe_axes]
        rc = sp.combine_legs(cl2, pipes=[res.legs[k] for k in pipe_axes])
        rc.test_sanity()
        tags.append('reuse.pipes-of-result')
        if not np.array_equal(rc.to_ndarray(), res.to_ndarray()) or not all(pipes_equal(x, y) for x, y in zip(rc.legs, res.legs)):
            probs.append(('reuse:recombine', 'combine_legs(split_legs(res), pipes=pipes of res) != res'))
        def anon(ls):      # '?#': # is the index in the tensor combine_legs was applied to, which differs between a and sp
            return [None if l is None else re.sub(r'[?][0-9]+', '?', l) for l in ls]
        if anon(rc.get_leg_labels()) != anon(res.get_leg_labels()):
            probs.append(label_problem('reuse:labels', 'labels after recombination %r, before %r' % (rc.get_leg_labels(), res.get_leg_labels()),
                                       rc.get_leg_labels(), res.get_leg_labels()))
        # ... and with the conjugated tensor: the pipes of res are conjugated "if necessary for compatibility"
        rcc = sp.conj(complex_conj=False).combine_legs(cl2, pipes=[res.legs[k] for k in pipe_axes])
        rcc.test_sanity()
        if not np.array_equal(rcc.to_ndarray(), res.to_ndarray()):
            probs.append(('reuse:recombine-conj', 'combine_legs(conj(split_legs(res)), pipes=pipes of res): entries differ from res'))
        for k in pipe_axes:
            pk = rcc.legs[k]
            if pk.qconj != -res.legs[k].qconj or [l.qconj for l in pk.legs] != [-l.qconj for l in res.legs[k].legs]:
                probs.append(('reuse:recombine-conj', 'pipe %d of the recombined conjugate has qconj %d, legs %s; pipe of res: %d, %s'
                              % (k, pk.qconj, [l.qconj for l in pk.legs], res.legs[k].qconj, [l.qconj for l in res.legs[k].legs])))
            try:
                pk.test_contractible(res.legs[k])
            except ValueError:
                probs.append(('reuse:recombine-conj', 'pipe %d of the recombined conjugate is not contractible with the pipe of res' % k))
        bc = rcc.split_legs()
        bc.test_sanity()
        if not np.array_equal(bc.to_ndarray(), exp_sp) or not all(legs_identical(x, y.conj()) for x, y in zip(bc.legs, sp.legs)):
            probs.append(('reuse:recombine-conj', 'splitting the recombined conjugate does not give conj(split_legs(res))'))
    except Exception:
        probs.append(('reuse:raises', 'recombination with the pipes of the result raised: ' + traceback.format_exc()[-400:]))
    # ---- projected pipe: the work-around documented in LegPipe.project
    if case.get('proj') and any(res.legs[k].ind_len > 0 for k in pipe_axes):
        try:
            cand = [k for k in pipe_axes if res.legs[k].ind_len > 0]
            k = cand[case['proj_seed'] % len(cand)]
            n = res.legs[k].ind_len
            prng = np.random.default_rng(case['proj_seed'])
            mask = prng.random(n) < 0.6
            if not mask.any():
                mask[prng.integers(n)] = True
            A = res.copy(deep=True)
            with warnings.catch_warnings():
                warnings.simplefilter('ignore')
                A.iproject(mask, k)
            A.test_sanity()
            rd = res.to_ndarray()
            if isinstance(A.legs[k], LegPipe) or not np.array_equal(A.to_ndarray(), np.compress(mask, rd, axis=k)):
                probs.append(('proj:project', 'projecting the pipe leg %d: result is %s / entries differ' % (k, type(A.legs[k]).__name__)))
            if not np.array_equal(A.legs[k].to_qflat(), res.legs[k].to_qflat()[mask]) or A.legs[k].qconj != res.legs[k].qconj:
                probs.append(('proj:charges', 'projected pipe: charges of the surviving indices changed'))
            B = npc.zeros(res.legs, dtype=res.dtype, qtotal=res.qtotal, labels=res.get_leg_labels())
            B[(slice(None),) * k + (mask,)] = A
            spB = B.split_legs(k)
            spB.test_sanity()
            rz = rd.copy()
            rz[(slice(None),) * k + (~mask,)] = 0
            if not np.array_equal(spB.to_ndarray(), split_dense(rz, k, res.legs[k])):
                probs.append(('proj:split', 'splitting the projected pipe through the documented work-around misplaces entries'))
            tags.append('split_legs.projected-pipe=workaround')
        except Exception:
            probs.append(('proj:raises', 'work-around for splitting a projected pipe raised: ' + traceback.format_exc()[-400:]))
    # ---- nested pipes: combine the result once more, split twice
    if res.rank >= 2:
        first = [1, 0] if case.get('nest_rev') else [0, 1]
        try:
            n1 = res_l.combine_legs(first, qconj=case.get('nest_qconj', 1))
            n1.test_sanity()
            if any(isinstance(l, LegPipe) for l in n1.legs[0].legs):
                tags.append('nested.pipe-of-pipes')
            probs += [('nested:placement', p) for p in placement_problems(ad, olabels, n1, 'nested combine_legs')]
            back1 = res.combine_legs(first, qconj=case.get('nest_qconj', 1)).split_legs()
            for k_, r_ in enumerate(first):
                if not pipes_equal(back1.legs[k_], res.legs[r_]):
                    probs.append(('nested:inner-pipe', 'splitting the outer pipe does not return the inner leg %d unchanged' % r_))
            back = back1.split_legs()
            o2 = [i for r in first + list(range(2, res.rank)) for i in units[r][1]]
            if not np.array_equal(back.to_ndarray(), np.transpose(ad, o2)):
                probs.append(('nested:dense', 'splitting a nested pipe twice does not restore the tensor'))
            if back.get_leg_labels() != [labels[i] for i in o2]:
                probs.append(label_problem('nested:labels', 'labels after nested split %r, original %r' % (back.get_leg_labels(), [labels[i] for i in o2]),
                                           back.get_leg_labels(), [labels[i] for i in o2]))
            for k, i in enumerate(o2):
                if not legs_identical(back.legs[k], legs[i]):
                    probs.append(('nested:legs', 'leg %d after nested split is not the original leg %d' % (k, i)))
        except Exception:
            probs.append(('nested:raises', 'nested combine/split raised: ' + traceback.format_exc()[-300:]))
    # ---- sort_legcharge
    srt = case.get('sort_legs', True)
    bun = case.get('bunch_legs', True)
    sperm = case.get('sort_perm')
    given_perm = None
    if sperm is not None:      # documented: an entry of `sort` may be a permutation (flat, not mixing the blocks) to apply to that leg
        srt = list(srt)
        given_perm = legs[sperm['axis']].perm_flat_from_perm_qind(np.array(sperm['perm_qind'], dtype=np.intp)) \
            if legs[sperm['axis']].ind_len > 0 else np.zeros(0, dtype=np.intp)
        srt[sperm['axis']] = given_perm
    nothing = sperm is None and not any([srt] if isinstance(srt, bool) else srt) and not any([bun] if isinstance(bun, bool) else bun)
    try:
        perm, cp = a.sort_legcharge(sort=srt, bunch=bun)
    except Exception as e:
        perm = cp = None
        key = 'sort_legcharge:raises'
        if nothing and isinstance(e, IndexError):
            key = 'sort_legcharge:nothing-requested'
        elif sperm is not None and isinstance(e, ValueError) and 'truth value' in str(e):
            key = 'sort_legcharge:perm-array'
        probs.append((key, 'sort_legcharge(sort=%r, bunch=%r) raised %s: %s' % (
            [x.tolist() if isinstance(x, np.ndarray) else x for x in srt] if isinstance(srt, list) else srt, bun, type(e).__name__, str(e)[:80])))
    if cp is not None:
        try:
            cp.test_sanity()
        except Exception as e:
            probs.append(('sort_legcharge:sanity', 'sort_legcharge result fails test_sanity: %s' % e))
        if not np.array_equal(cp.to_ndarray(), ad[np.ix_(*perm)]):
            probs.append(('sort_legcharge:dense', 'cp.to_ndarray() != self.to_ndarray()[np.ix_(*perm)]'))
        for k, (l0, l1) in enumerate(zip(legs, cp.legs)):
            s_k = srt if isinstance(srt, bool) else srt[k]
            b_k = bun if isinstance(bun, bool) else bun[k]
            if not np.array_equal(l1.to_qflat(), l0.to_qflat()[perm[k]]) or l1.qconj != l0.qconj:
                probs.append(('sort_legcharge:qflat', 'charges of leg %d are not permuted like the data' % k))
            if isinstance(s_k, np.ndarray):
                if not np.array_equal(perm[k], s_k):
                    probs.append(('sort_legcharge:given-perm', 'leg %d: given permutation %s, applied %s' % (k, s_k.tolist(), perm[k].tolist())))
            elif s_k and not l1.is_sorted():
                probs.append(('sort_legcharge:sorted', 'leg %d not sorted' % k))
            if b_k and not l1.is_bunched():
                probs.append(('sort_legcharge:bunched', 'leg %d not bunched' % k))
            if isinstance(l1, LegPipe):
                probs.append(('sort_legcharge:pipe-left', 'leg %d of the result is still the auxiliary LegPipe' % k))
            if not isinstance(s_k, np.ndarray) and not s_k and not b_k and not legs_identical(l0, l1):
                probs.append(('sort_legcharge:untouched', 'leg %d changed although neither sort nor bunch was requested for it' % k))
            if sorted(perm[k].tolist()) != list(range(l0.ind_len)):
                probs.append(('sort_legcharge:perm', 'perm of leg %d is not a permutation' % k))
            if cp.get_leg_labels() != a.get_leg_labels():
                probs.append(('sort_legcharge:labels', 'labels changed'))
        # the result used again: sorting a second time changes nothing
        try:
            perm2, cp2 = cp.sort_legcharge(sort=srt if not isinstance(srt, list) else [False if isinstance(x, np.ndarray) else x for x in srt], bunch=bun)
            if not np.array_equal(cp2.to_ndarray(), cp.to_ndarray()) or any(not np.array_equal(p, np.arange(len(p))) for p in perm2):
                probs.append(('sort_legcharge:second', 'sort_legcharge of the sorted result is not the identity'))
        except Exception as e:
            probs.append(('sort_legcharge:second', 'sort_legcharge of the sorted result raised %s: %s' % (type(e).__name__, str(e)[:80])))
    # ---- as_completely_blocked
    enc, bl = a.as_completely_blocked()
    if not all(l.is_blocked() for l in bl.legs):
        probs.append(('blocked:not-blocked', 'as_completely_blocked left a non-blocked leg'))
    if enc != [k for k, l in enumerate(legs) if len({tuple(c) for c in l.charges.tolist()}) != l.block_number]:
        probs.append(('blocked:axes', 'encapsulated axes %r' % (enc,)))
    back = bl.split_legs() if enc else bl
    if not np.array_equal(back.to_ndarray(), ad):
        probs.append(('blocked:roundtrip', 'split_legs(as_completely_blocked(a)) != a'))
    if back.get_leg_labels() != labels:
        probs.append(label_problem('blocked:labels', 'labels after split_legs(as_completely_blocked(a)) %r, original %r' % (back.get_leg_labels(), labels),
                                   back.get_leg_labels(), labels))
    for k in enc:
        if bl.legs[k].qconj != legs[k].qconj:
            probs.append(('blocked:qconj', 'pipe of leg %d changed the direction' % k))
    if enc:      # the result used again: blocking a second time finds nothing to do
        enc2, bl2 = bl.as_completely_blocked()
        if enc2 or not np.array_equal(bl2.to_ndarray(), bl.to_ndarray()):
            probs.append(('blocked:second', 'as_completely_blocked of a completely blocked tensor encapsulates %r again' % (enc2,)))
    # ---- invalid calls have to be rejected
    if case.get('reject'):
        if rank >= 2:
            must_raise(probs, 'combine_legs([[0, 1], [1]]) (leg twice)', lambda: a.combine_legs([[0, 1], [1]]))
            must_raise(probs, 'combine_legs with new_axes == new rank', lambda: a.combine_legs([[0, 1]], new_axes=[rank - 1]))
            must_raise(probs, 'combine_legs with a pipe of the wrong number of legs',
                       lambda: a.combine_legs([[0, 1]], pipes=[LegPipe([legs[0]])]))
            must_raise(probs, 'combine_legs with a pipe of other legs', lambda: a.combine_legs([[0, 1]], pipes=[LegPipe([legs[0], legs[1].extend(1)])]))
        must_raise(probs, 'combine_legs([[0], [0]]) (leg twice)', lambda: a.combine_legs([[0], [0]]))
        must_raise(probs, 'combine_legs with too many pipes', lambda: a.combine_legs([[0]], pipes=[None, None]))
        must_raise(probs, 'combine_legs with too many qconj', lambda: a.combine_legs([[0]], qconj=[1, 1]))
        must_raise(probs, 'combine_legs with too many new_axes', lambda: a.combine_legs([[0]], new_axes=[0, 1]))
        must_raise(probs, 'split_legs of the same pipe twice', lambda: res.split_legs([pipe_axes[0], pipe_axes[0] - res.rank]))
        if len(pipe_axes) < res.rank:
            k = [k for k in range(res.rank) if k not in pipe_axes][0]
            if not isinstance(res.legs[k], LegPipe):
                must_raise(probs, 'split_legs of a leg that is no pipe', lambda: res.split_legs(k))
        rb = res.copy(deep=False)
        lb = rb.get_leg_labels()
        lb[pipe_axes[0]] = '(' + '.'.join('xyzuvw'[:res.legs[pipe_axes[0]].nlegs + 1]) + ')'
        rb.iset_leg_labels(lb)
        must_raise(probs, 'split_legs of a pipe whose label has one entry too many', lambda: rb.split_legs(pipe_axes[0]))
        must_raise(probs, 'sort_legcharge with a `sort` list of the wrong length', lambda: a.sort_legcharge(sort=[True] * (rank + 1)))
        must_raise(probs, 'sort_legcharge with a `bunch` list of the wrong length', lambda: a.sort_legcharge(bunch=[True] * (rank + 1)))
        p0 = res.legs[pipe_axes[0]]
        must_raise(probs, 'map_incoming_flat with a wrong number of indices', lambda: p0.map_incoming_flat([0] * (p0.nlegs + 1)))
        if p0.ind_len > 0:
            must_raise(probs, 'map_incoming_flat with an index == ind_len of the leg',
                       lambda: p0.map_incoming_flat([p0.legs[0].ind_len] + [0] * (p0.nlegs - 1)), (IndexError,))
    # ---- the input is unchanged by everything above
    if not np.array_equal(a.to_ndarray(), ad) or a.get_leg_labels() != labels or any(x is not y for x, y in zip(a.legs, in_legs)) \
            or not all(legs_identical(x, y) for x, y in zip(a.legs, legs)):
        probs.append(('input-modified', 'combine_legs/split_legs/sort_legcharge/as_completely_blocked modified the tensor they were applied to'))
    out['problems'] = [[k, t] for k, t in probs]
    out['res_blocks'] = int(res.stored_blocks)
    out['n_pipes'] = len(groups)
    out['tags'] = sorted(set(tags))
    return out


OPS_ALL = True


def main():
    global OPS_ALL
    payload = json.load(open(sys.argv[1]))
    OPS_ALL = bool(payload.get('ops_all', True))
    import c06cov_impl
    if payload['kind'] == 'reflect':
        json.dump({'res': c06cov_impl.reflect(), 'lines': None}, open(sys.argv[2], 'w'))
        return
    cov = c06cov_impl.LineCov()
    cov.start()
    f = {'pipe': run_pipe, 'leg': run_leg, 'array': run_array}[payload['kind']]
    res = []
    for c in payload['cases']:
        try:
            res.append(f(c))
        except Exception:
            res.append({'runner_error': traceback.format_exc()[-900:]})
    json.dump({'res': res, 'lines': cov.report()}, open(sys.argv[2], 'w'))


if __name__ == '__main__':
    main()
