"""Runs tenpy's LegCharge / LegPipe / combine_legs / split_legs on the cases of harness/c06.py
(fresh interpreter; pure python or rebuilt extension, see common.run_impl)."""
import itertools
import json
import sys
import traceback
import warnings

import numpy as np

import c06ops_impl as ops

warnings.simplefilter('ignore')


def mk_chinfo(mods):
    from tenpy.linalg.charges import ChargeInfo
    return ChargeInfo(list(mods))


def mk_leg(ci, spec):
    from tenpy.linalg.charges import LegCharge
    sizes, charges, qconj = spec
    ch = np.array(charges, dtype=np.int64).reshape(len(sizes), ci.qnumber)
    ch = ci.make_valid(ch)
    return LegCharge.from_qind(ci, np.cumsum([0] + list(sizes)), ch, qconj)


def leg_blocks(leg):
    bs = leg.get_block_sizes()
    return [[int(s), [int(x) for x in c]] for s, c in zip(bs, leg.charges)]


def sane(leg):
    """test_sanity of the LegCharge part and (for pipes) of the pipe; returns error text or None"""
    from tenpy.linalg.charges import LegCharge
    try:
        LegCharge.test_sanity(leg)
        leg.test_sanity()
    except Exception as e:
        return type(e).__name__ + ': ' + str(e)[:80]
    return None


def run_pipe(case):
    from tenpy.linalg.charges import LegPipe, LegCharge
    ci = mk_chinfo(case['mods'])
    legs = [mk_leg(ci, s) for s in case['legs']]
    p = LegPipe(legs, qconj=case['qconj'], sort=case['sort'], bunch=case['bunch'])
    out = ops.pipe_desc(p)      # charges, slices, q_map, q_map_slices, flags, stored legs, map_incoming_flat on every tuple
    mif = out['mif']
    # every public method that returns a leg, applied to the pipe (found by reflection, see c06ops_impl.py)
    aux = {'extend_leg': legs[0], 'extend_int': 1}
    if case.get('table'):
        out['method_table'] = ops.method_table(p, aux)
    if OPS_ALL or case.get('arr_seed') is not None:
        out['ops'] = ops.apply_all(p, aux, base_pipe=dict(out), arr_seed=case.get('arr_seed'))
    else:
        out['ops'] = None
    # conj
    c = p.conj()
    out['conj'] = {'qconj': int(c.qconj), 'legs_qconj': [int(l.qconj) for l in c.legs],
                   'charges_same': bool(np.array_equal(c.charges, p.charges)),
                   'qmap_same': bool(np.array_equal(c.q_map, p.q_map)), 'sane': sane(c),
                   'mif_same': [int(c.map_incoming_flat(list(t))) for t in
                                itertools.product(*[range(l.ind_len) for l in legs])] == mif}
    try:
        p.test_contractible(c)
        out['conj']['contractible'] = True
    except ValueError:
        out['conj']['contractible'] = False
    try:
        p.test_equal(c)
        out['conj']['equal_to_conj'] = True
    except ValueError:
        out['conj']['equal_to_conj'] = False
    # outer_conj
    o = p.outer_conj()
    out['outer_conj'] = {'qconj': int(o.qconj), 'charges': [[int(x) for x in ch] for ch in o.charges],
                         'legs_qconj': [int(l.qconj) for l in o.legs], 'sorted': bool(o.sorted),
                         'bunched': bool(o.bunched), 'is_sorted': bool(o.is_sorted()), 'is_bunched': bool(o.is_bunched()),
                         'sane': sane(o), 'slices': [int(x) for x in o.slices], 'is_pipe': isinstance(o, LegPipe)}
    # to_LegCharge
    lc = p.to_LegCharge()
    out['to_leg'] = {'type_ok': type(lc) is LegCharge, 'blocks': leg_blocks(lc), 'qconj': int(lc.qconj),
                     'sorted': bool(lc.sorted), 'bunched': bool(lc.bunched)}
    return out


def gq(leg, i):
    try:
        q, w = leg.get_qindex(i)
        return [int(q), int(w)]
    except IndexError:
        return 'IndexError'
    except Exception as e:
        return type(e).__name__


def run_leg(case):
    from tenpy.linalg.charges import LegCharge
    ci = mk_chinfo(case['mods'])
    l = mk_leg(ci, case['leg'])
    n = l.ind_len
    out = {'blocks': leg_blocks(l), 'qflat': [[int(x) for x in c] for c in l.to_qflat()], 'sane': sane(l),
           'sorted': bool(l.sorted), 'bunched': bool(l.bunched)}
    for b in (True, False):
        perm, s = l.sort(bunch=b)
        out['sort_%d' % b] = {'perm': [int(x) for x in perm], 'blocks': leg_blocks(s), 'qconj': int(s.qconj),
                              'qflat': [[int(x) for x in c] for c in s.to_qflat()], 'sane': sane(s),
                              'sorted': bool(s.sorted), 'bunched': bool(s.bunched), 'blocked': bool(s.is_blocked()),
                              'perm_flat': [int(x) for x in l.perm_flat_from_perm_qind(perm)] if len(perm) else []}
        if not b:
            pf = l.perm_flat_from_perm_qind(perm)
            try:
                out['perm_qind_back'] = [int(x) for x in l.perm_qind_from_perm_flat(pf)] if n > 0 else None
            except Exception as e:
                out['perm_qind_back'] = type(e).__name__
    idx, bl = l.bunch()
    out['bunch'] = {'idx': [int(x) for x in idx], 'blocks': leg_blocks(bl), 'qflat': [[int(x) for x in c] for c in bl.to_qflat()],
                    'sane': sane(bl), 'bunched': bool(bl.bunched), 'sorted': bool(bl.sorted)}
    mask = np.array(case['mask'], dtype=bool)
    mq, bm, pl = l.project(mask)
    out['project'] = {'map_qind': [int(x) for x in mq], 'block_masks': [[bool(x) for x in m] for m in bm],
                      'blocks': leg_blocks(pl), 'qflat': [[int(x) for x in c] for c in pl.to_qflat()], 'sane': sane(pl),
                      'bunched': bool(pl.bunched), 'sorted': bool(pl.sorted)}
    ex = case['extra']
    if isinstance(ex, int):
        el = l.extend(ex)
    else:
        el = l.extend(mk_leg(ci, ex))
    out['extend'] = {'blocks': leg_blocks(el), 'qconj': int(el.qconj), 'qflat': [[int(x) for x in c] for c in el.to_qflat()],
                     'sane': sane(el)}
    fl = l.flip_charges_qconj()
    out['flip'] = {'blocks': leg_blocks(fl), 'qconj': int(fl.qconj), 'sane': sane(fl)}
    cj = l.conj()
    out['conj'] = {'blocks': leg_blocks(cj), 'qconj': int(cj.qconj), 'sane': sane(cj)}
    rel = {}

    def t(name, f, *a):
        try:
            f(*a)
            rel[name] = True
        except ValueError:
            rel[name] = False
    t('equal_self_flip', l.test_equal, fl)
    t('equal_flip_self', fl.test_equal, l)
    t('contr_self_conj', l.test_contractible, cj)
    t('contr_conj_self', cj.test_contractible, l)
    t('contr_flipconj', fl.conj().test_contractible, l)
    t('equal_self_conj', l.test_equal, cj)
    t('contr_self_self', l.test_contractible, l)
    t('contr_self_flip', l.test_contractible, fl)
    out['rel'] = rel
    out['get_qindex'] = [[i, gq(l, i)] for i in range(-n - 2, n + 3)]
    # every public method that returns a leg, applied to the plain leg (same machinery as for pipes)
    aux = {'mask': case['mask'], 'extend_int': ex if isinstance(ex, int) else 1,
           'extend_leg': None if isinstance(ex, int) else mk_leg(ci, ex)}
    if case.get('table'):
        out['method_table'] = ops.method_table(l, aux)
    out['ops'] = ops.apply_all(l, aux)
    return out


# --------------------------------------------------------------------------------------------
# arrays: combine_legs / split_legs / sort_legcharge / as_completely_blocked against dense numpy
# --------------------------------------------------------------------------------------------

def parse_label(lab):
    """'(a.(b.c))' -> nested list ['a', ['b', 'c']]; independent of tenpy's label splitter"""
    pos = 0

    def rec():
        nonlocal pos
        if lab[pos] == '(':
            pos += 1
            items = [rec()]
            while lab[pos] == '.':
                pos += 1
                items.append(rec())
            assert lab[pos] == ')'
            pos += 1
            return items
        beg = pos
        while pos < len(lab) and lab[pos] not in '.()':
            pos += 1
        return lab[beg:pos]
    r = rec()
    assert pos == len(lab)
    return r


def flat_index(leg, tree, idx_of):
    """index on `leg` (a LegPipe if tree is a list) of the incoming indices given by label"""
    if isinstance(tree, str):
        return idx_of[tree]
    sub = [flat_index(l, t, idx_of) for l, t in zip(leg.legs, tree)]
    return int(leg.map_incoming_flat(sub))


def placement_problems(a_dense, labels, res, what):
    """every entry of the dense original sits in `res` where the labels + map_incoming_flat say"""
    probs = []
    rd = res.to_ndarray()
    if rd.size != a_dense.size:
        return ['%s: size %d != %d' % (what, rd.size, a_dense.size)]
    trees = [parse_label(l) for l in res.get_leg_labels()]
    seen = set()
    for idx in itertools.product(*[range(s) for s in a_dense.shape]):
        idx_of = dict(zip(labels, idx))
        out = tuple(flat_index(leg, tr, idx_of) for leg, tr in zip(res.legs, trees))
        seen.add(out)
        if rd[out] != a_dense[idx]:
            probs.append('%s: entry %s of the original is not at %s of the result' % (what, idx, out))
            break
    if not probs and len(seen) != a_dense.size:
        probs.append('%s: index map is not injective' % what)
    return probs


def label_problem(key, text, got, exp):
    """labels differ: special key when the only difference is None -> '?#' on untouched legs"""
    if len(got) == len(exp) and all(g == e or (e is None and isinstance(g, str) and g.startswith('?')) for g, e in zip(got, exp)):
        return ('labels:qmark', text)
    return (key, text)


def legs_identical(l1, l2):
    return (l1.qconj == l2.qconj and np.array_equal(l1.slices, l2.slices) and np.array_equal(l1.charges, l2.charges)
            and l1.chinfo == l2.chinfo)


def run_array(case):
    import tenpy.linalg.np_conserved as npc
    from tenpy.linalg.charges import LegPipe
    rng = np.random.default_rng(case['seed'])
    ci = mk_chinfo(case['mods'])
    legs = [mk_leg(ci, s) for s in case['legs']]
    rank = len(legs)
    # total charge of a random block tuple, so that something is stored
    qi = case['qtotal_block']
    qtotal = ci.make_valid(np.sum([l.get_charge(q % l.block_number) for l, q in zip(legs, qi)], axis=0)) if ci.qnumber else None

    def func(shape):
        x = rng.integers(1, 50, size=shape).astype(np.float64)
        if case.get('complex'):
            return x + 1j * rng.integers(1, 50, size=shape)
        return x
    labels = case['labels']
    a = npc.Array.from_func(func, legs, dtype=np.complex128 if case.get('complex') else np.float64, qtotal=qtotal,
                            labels=labels)
    if case.get('drop_blocks') and a.stored_blocks > 1:
        keep = [i for i in range(a.stored_blocks) if (i + case['drop_blocks']) % 3 != 0]
        a._data = [a._data[i] for i in keep]
        a._qdata = a._qdata[keep]
    a.test_sanity()
    ad = a.to_ndarray()
    probs = []   # (key, text)
    olabels = [(l if l is not None else '?%d' % i) for i, l in enumerate(labels)]
    out = {'stored_blocks': int(a.stored_blocks), 'size': int(ad.size)}
    # ---- get_leg_index boundary
    for lab, exp in [(rank, 'ValueError'), (-rank - 1, 'ValueError'), (rank - 1, rank - 1), (-rank, 0)]:
        try:
            got = a.get_leg_index(lab)
        except ValueError:
            got = 'ValueError'
        except Exception as e:
            got = type(e).__name__
        if got != exp:
            probs.append(('get_leg_index:rank' if lab == rank else 'get_leg_index',
                          'get_leg_index(%d) on a rank-%d array gave %r, expected %r' % (lab, rank, got, exp)))
    # ---- combine_legs
    groups = case['combine']
    kw = {}
    if case.get('new_axes') is not None:
        kw['new_axes'] = list(case['new_axes'])
    if case.get('qconj') is not None:
        kw['qconj'] = case['qconj']
    use = [[olabels[i] if (labels[i] is not None and case.get('by_label')) else i for i in g] for g in groups]
    if case.get('given_pipes'):
        pipes = []
        for g in groups:
            pl = [legs[i] for i in g]
            if case['given_pipes'] == 'conj':
                pl = [l.conj() for l in pl]
            pipes.append(LegPipe(pl, qconj=case['given_pipes_qconj'], sort=case.get('sort', True), bunch=case.get('bunch', True)))
        kw['pipes'] = pipes
    res = a.combine_legs(use, **kw)
    try:
        res.test_sanity()
    except Exception as e:
        probs.append(('combine:sanity', 'combine_legs result fails test_sanity: %s' % e))
    # expected order of the result axes (documented rule), as (is_pipe, [original axes])
    nonc = [i for i in range(rank) if not any(i in g for g in groups)]
    if case.get('new_axes') is None:
        units = sorted([(False, [i]) for i in nonc] + [(True, list(g)) for g in groups], key=lambda u: u[1][0])
    else:
        nr = len(nonc) + len(groups)
        units = [None] * nr
        for g, na in zip(groups, case['new_axes']):
            units[na % nr] = (True, list(g))
        it = iter(nonc)
        units = [u if u is not None else (False, [next(it)]) for u in units]

    def plab(g):
        return '(' + '.'.join(olabels[i] for i in g) + ')'
    exp_labels = [plab(u[1]) if u[0] else labels[u[1][0]] for u in units]
    got_labels = res.get_leg_labels()
    if got_labels != exp_labels:
        probs.append(label_problem('combine:labels', 'combine_legs labels %r, documented %r' % (got_labels, exp_labels), got_labels, exp_labels))
    res_l = res.copy(deep=False)
    res_l.iset_leg_labels([plab(u[1]) if u[0] else olabels[u[1][0]] for u in units])
    try:
        probs += [('combine:placement', p) for p in placement_problems(ad, olabels, res_l, 'combine_legs')]
    except Exception:
        probs.append(('combine:placement', 'placement oracle could not be evaluated: ' + traceback.format_exc()[-300:]))
    # qconj of the new pipes
    for g in groups:
        lab = plab(g)
        pipe = res.get_leg(lab)
        if case.get('given_pipes'):
            want = case['given_pipes_qconj'] * (-1 if case['given_pipes'] == 'conj' else 1)
        elif case.get('qconj') is None:
            want = legs[g[0]].qconj
        elif isinstance(case['qconj'], list):
            want = case['qconj'][groups.index(g)]
        else:
            want = case['qconj']
        if pipe.qconj != want:
            probs.append(('combine:qconj', 'pipe %s has qconj %d, documented %d' % (lab, pipe.qconj, want)))
        for pl, i in zip(pipe.legs, g):
            if not legs_identical(pl, legs[i]):
                probs.append(('combine:pipe-legs', 'pipe %s does not contain the legs of the array' % lab))
    # fusion rule on the dense level: charges of the result legs are consistent with its blocks
    # ---- split_legs restores the (transposed) original
    sp = res.split_legs()
    try:
        sp.test_sanity()
    except Exception as e:
        probs.append(('split:sanity', 'split_legs result fails test_sanity: %s' % e))
    order = [i for u in units for i in u[1]]
    exp_sp = np.transpose(ad, order)
    spd = sp.to_ndarray()
    if spd.shape != exp_sp.shape or not np.array_equal(spd, exp_sp):
        probs.append(('split:dense', 'split_legs(combine_legs(a)) differs from a (transposed by %s)' % order))
    if sp.get_leg_labels() != [labels[i] for i in order]:
        probs.append(label_problem('split:labels', 'labels after split_legs(combine_legs(a)) %r, original %r' % (sp.get_leg_labels(), [labels[i] for i in order]),
                                   sp.get_leg_labels(), [labels[i] for i in order]))
    for k, i in enumerate(order):
        if not legs_identical(sp.legs[k], legs[i]):
            probs.append(('split:legs', 'leg %d after split is not the original leg %d' % (k, i)))
    if np.any(sp.qtotal != a.qtotal):
        probs.append(('split:qtotal', 'qtotal changed'))
    # ---- nested pipes: combine the result once more, split twice
    if res.rank >= 2:
        first = [1, 0] if case.get('nest_rev') else [0, 1]
        try:
            n1 = res_l.combine_legs(first, qconj=case.get('nest_qconj', 1))
            n1.test_sanity()
            probs += [('nested:placement', p) for p in placement_problems(ad, olabels, n1, 'nested combine_legs')]
            back = res.combine_legs(first, qconj=case.get('nest_qconj', 1)).split_legs().split_legs()
            o2 = [i for r in first + list(range(2, res.rank)) for i in units[r][1]]
            if not np.array_equal(back.to_ndarray(), np.transpose(ad, o2)):
                probs.append(('nested:dense', 'splitting a nested pipe twice does not restore the tensor'))
            if back.get_leg_labels() != [labels[i] for i in o2]:
                probs.append(label_problem('nested:labels', 'labels after nested split %r, original %r' % (back.get_leg_labels(), [labels[i] for i in o2]),
                                           back.get_leg_labels(), [labels[i] for i in o2]))
            for k, i in enumerate(o2):
                if not legs_identical(back.legs[k], legs[i]):
                    probs.append(('nested:legs', 'leg %d after nested split is not the original leg %d' % (k, i)))
        except Exception:
            probs.append(('nested:raises', 'nested combine/split raised: ' + traceback.format_exc()[-300:]))
    # ---- sort_legcharge
    srt = case.get('sort_legs', True)
    bun = case.get('bunch_legs', True)
    nothing = not any([srt] if isinstance(srt, bool) else srt) and not any([bun] if isinstance(bun, bool) else bun)
    try:
        perm, cp = a.sort_legcharge(sort=srt, bunch=bun)
    except Exception as e:
        perm = cp = None
        probs.append(('sort_legcharge:nothing-requested' if nothing and isinstance(e, IndexError) else 'sort_legcharge:raises',
                      'sort_legcharge(sort=%r, bunch=%r) raised %s: %s' % (srt, bun, type(e).__name__, str(e)[:80])))
    if cp is not None:
        try:
            cp.test_sanity()
        except Exception as e:
            probs.append(('sort_legcharge:sanity', 'sort_legcharge result fails test_sanity: %s' % e))
        if not np.array_equal(cp.to_ndarray(), ad[np.ix_(*perm)]):
            probs.append(('sort_legcharge:dense', 'cp.to_ndarray() != self.to_ndarray()[np.ix_(*perm)]'))
        for k, (l0, l1) in enumerate(zip(legs, cp.legs)):
            s_k = srt if isinstance(srt, bool) else srt[k]
            b_k = bun if isinstance(bun, bool) else bun[k]
            if not np.array_equal(l1.to_qflat(), l0.to_qflat()[perm[k]]) or l1.qconj != l0.qconj:
                probs.append(('sort_legcharge:qflat', 'charges of leg %d are not permuted like the data' % k))
            if s_k and not l1.is_sorted():
                probs.append(('sort_legcharge:sorted', 'leg %d not sorted' % k))
            if b_k and not l1.is_bunched():
                probs.append(('sort_legcharge:bunched', 'leg %d not bunched' % k))
            if sorted(perm[k].tolist()) != list(range(l0.ind_len)):
                probs.append(('sort_legcharge:perm', 'perm of leg %d is not a permutation' % k))
            if cp.get_leg_labels() != a.get_leg_labels():
                probs.append(('sort_legcharge:labels', 'labels changed'))
    # ---- as_completely_blocked
    enc, bl = a.as_completely_blocked()
    if not all(l.is_blocked() for l in bl.legs):
        probs.append(('blocked:not-blocked', 'as_completely_blocked left a non-blocked leg'))
    if enc != [k for k, l in enumerate(legs) if len({tuple(c) for c in l.charges.tolist()}) != l.block_number]:
        probs.append(('blocked:axes', 'encapsulated axes %r' % (enc,)))
    back = bl.split_legs() if enc else bl
    if not np.array_equal(back.to_ndarray(), ad):
        probs.append(('blocked:roundtrip', 'split_legs(as_completely_blocked(a)) != a'))
    if back.get_leg_labels() != labels:
        probs.append(label_problem('blocked:labels', 'labels after split_legs(as_completely_blocked(a)) %r, original %r' % (back.get_leg_labels(), labels),
                                   back.get_leg_labels(), labels))
    for k in enc:
        if bl.legs[k].qconj != legs[k].qconj:
            probs.append(('blocked:qconj', 'pipe of leg %d changed the direction' % k))
    out['problems'] = [[k, t] for k, t in probs]
    out['res_blocks'] = int(res.stored_blocks)
    out['n_pipes'] = len(groups)
    return out


OPS_ALL = True


def main():
    global OPS_ALL
    payload = json.load(open(sys.argv[1]))
    OPS_ALL = bool(payload.get('ops_all', True))
    f = {'pipe': run_pipe, 'leg': run_leg, 'array': run_array}[payload['kind']]
    res = []
    for c in payload['cases']:
        try:
            res.append(f(c))
        except Exception:
            res.append({'runner_error': traceback.format_exc()[-900:]})
    json.dump(res, open(sys.argv[2], 'w'))


if __name__ == '__main__':
    main()
