"""C06 coverage audit, implementation side: which source lines of the anchored pure-python fusion code a runner process
executed (sys.monitoring LINE events, each location disabled after its first hit: negligible overhead) and a reflection
table (names, kinds, signatures, first lines) of everything defined in the anchored classes / functions.

The host side (harness/c06_cov.py) classifies every function as covered / excluded and fails when an executable line of a
covered function is reached by no stream or a name is unclassified."""
import importlib
import inspect
import sys

# whole classes (every function in the class __dict__, also private ones and dunders) and single functions
ANCHORED_CLASSES = {'tenpy.linalg.charges': ['LegCharge', 'LegPipe']}
ANCHORED_FUNCS = {
    'tenpy.linalg.charges': ['_partial_qtotal', '_find_row_differences', '_map_blocks', '_sliced_copy', '_make_stride'],
    'tenpy.linalg.np_conserved': ['Array.combine_legs', 'Array.split_legs', 'Array.make_pipe', 'Array.as_completely_blocked',
                                  'Array.sort_legcharge', 'Array._combine_legs_make_pipes', 'Array._combine_legs_new_axes',
                                  'Array._combine_leg_labels', 'Array._split_leg_label', '_combine_legs_worker',
                                  '_split_legs_worker'],
}


def _walk_code(code):
    yield code
    for c in code.co_consts:
        if inspect.iscode(c):
            yield from _walk_code(c)


def _func_of(raw):
    if isinstance(raw, (classmethod, staticmethod)):
        raw = raw.__func__
    if isinstance(raw, property):
        raw = raw.fget
    raw = inspect.unwrap(raw) if callable(raw) else raw
    return raw if hasattr(raw, '__code__') else None


def anchored_functions():
    """{key: (function object or None, kind)}; key = 'charges:LegPipe.conj'"""
    out = {}
    for modname, classes in ANCHORED_CLASSES.items():
        mod = importlib.import_module(modname)
        short = modname.split('.')[-1]
        for cn in classes:
            cls = getattr(mod, cn)
            for n, raw in sorted(cls.__dict__.items()):
                kind = ('classmethod' if isinstance(raw, classmethod) else 'staticmethod' if isinstance(raw, staticmethod)
                        else 'property' if isinstance(raw, property) else 'method' if callable(raw) else None)
                if kind is None:
                    continue
                out['%s:%s.%s' % (short, cn, n)] = (_func_of(raw), kind)
    for modname, names in ANCHORED_FUNCS.items():
        mod = importlib.import_module(modname)
        short = modname.split('.')[-1]
        for nm in names:
            obj = mod
            try:
                for part in nm.split('.'):
                    raw = inspect.getattr_static(obj, part) if inspect.isclass(obj) else getattr(obj, part)
                    obj = raw
                kind = 'staticmethod' if isinstance(obj, staticmethod) else ('method' if '.' in nm else 'function')
                out['%s:%s' % (short, nm)] = (_func_of(obj), kind)
            except AttributeError:
                out['%s:%s' % (short, nm)] = (None, 'missing')
    return out


class LineCov:
    def __init__(self):
        self.codes = {}
        self.hits = set()
        self.exe = {}
        self.on = False

    def start(self):
        mon = getattr(sys, 'monitoring', None)
        if mon is None:
            return
        try:
            mon.use_tool_id(mon.COVERAGE_ID, 'c06cov')
        except ValueError:
            return
        for key, (f, kind) in anchored_functions().items():
            if f is None:
                self.exe[key] = None
                continue
            code = f.__code__
            lines = set()
            for c in _walk_code(code):
                self.codes[c] = key
                lines |= {l for (_, _, l) in c.co_lines() if l is not None}
                mon.set_local_events(mon.COVERAGE_ID, c, mon.events.LINE)
            lines.discard(code.co_firstlineno)      # the def line runs at import time only
            # lines of the decorators / multi-line signature
            first_body = min([l for l in lines if l > code.co_firstlineno] or [code.co_firstlineno])
            self.exe[key] = sorted(l for l in lines if l >= first_body)

        def cb(code, line):
            k = self.codes.get(code)
            if k is not None:
                self.hits.add((k, line))
            return mon.DISABLE
        mon.register_callback(mon.COVERAGE_ID, mon.events.LINE, cb)
        self.on = True

    def report(self):
        if not self.on:
            return None
        hit = {}
        for k, l in self.hits:
            hit.setdefault(k, []).append(l)
        return {'executable': self.exe, 'hit': {k: sorted(v) for k, v in hit.items()}}


def reflect():
    """names / kinds / signatures / source spans of the anchored code, read from the tree under test"""
    out = {}
    for key, (f, kind) in anchored_functions().items():
        e = {'kind': kind}
        if f is not None:
            try:
                sig = inspect.signature(f)
                e['params'] = [[p.name, None if p.default is inspect.Parameter.empty else repr(p.default), str(p.kind)]
                               for p in sig.parameters.values()]
            except (TypeError, ValueError):
                e['params'] = None
            e['first_line'] = f.__code__.co_firstlineno
            try:
                src, _ = inspect.getsourcelines(f)
                e['n_source_lines'] = len(src)
            except (OSError, TypeError):
                e['n_source_lines'] = None
            e['compiled_replacement'] = False
        out[key] = e
    # public names of the classes (inherited ones included), for the classification on the host
    for modname, classes in ANCHORED_CLASSES.items():
        mod = importlib.import_module(modname)
        for cn in classes:
            cls = getattr(mod, cn)
            out['public:' + cn] = sorted(n for n in dir(cls) if not n.startswith('_'))
    return out
