"""C14 implementation runner: schedules, accounting with injected dyadic truncation errors,
bond coverage traces, and dense exp(-iHt) comparisons.  Fresh interpreter, PYTHONPATH = tree under test."""
import json
import sys
import traceback
import warnings

import numpy as np

warnings.simplefilter('ignore')

UNIT = 2.0 ** -40       # injected truncation errors are small integer multiples of this (exact in float64)
TICK = 2.0 ** -10       # time steps are integer multiples of this


def get_engine_class(name):
    from tenpy.algorithms import tebd, tdvp, mpo_evolution
    for mod in (tebd, tdvp, mpo_evolution):
        if hasattr(mod, name):
            return getattr(mod, name)
    raise KeyError(name)


def make_model(spec, time_dependent=False):
    from tenpy.models.spins import SpinChain
    from tenpy.models.tf_ising import TFIChain
    pars = dict(spec['pars'])
    cls = {'SpinChain': SpinChain, 'TFIChain': TFIChain}[spec['cls']]
    if time_dependent:
        # a model that reads options['time'] (required by TimeDependentHAlgorithm) but has a constant H
        class TD(cls):
            def init_terms(self, model_params):
                model_params.get('time', 0., 'real')
                super().init_terms(model_params)
        pars['time'] = 0.
        return TD(pars)
    return cls(pars)


def make_psi(M, state):
    from tenpy.networks.mps import MPS
    return MPS.from_product_state(M.lat.mps_sites(), state, bc=M.lat.bc_MPS, unit_cell_width=M.lat.mps_unit_cell_width)


def run_schedule(case):
    from tenpy.algorithms.tebd import TEBDEngine
    order = case['order']
    out = {}
    try:
        out['steps'] = [[int(a), int(b)] for a, b in TEBDEngine.suzuki_trotter_decomposition(order, case['N'])]
    except Exception as e:
        out['steps_error'] = type(e).__name__
    try:
        out['ds'] = [float(x).hex() for x in TEBDEngine.suzuki_trotter_time_steps(order)]
    except Exception as e:
        out['ds_error'] = type(e).__name__
    return out


def run_accounting(case):
    """Real engine, real runs; tenpy.linalg.truncation.truncate is wrapped from outside so that the eps it
    reports is replaced by a prescribed small dyadic number (k * 2^-40).  Sums of those are exact in float64,
    so the engine's bookkeeping can be compared with the Coq model exactly."""
    import tenpy.linalg.truncation as tr
    from tenpy.linalg.truncation import TruncationError
    rng = np.random.default_rng(case['seed'])
    M = make_model(case['model'], case['engine'].startswith('TimeDependent'))
    psi = make_psi(M, case['state'])
    injected = []     # list of ints (units) in call order
    marks = []        # index into injected at the start of each run() call

    def inject():
        k = int(rng.integers(0, 8))
        injected.append(k)
        e = k * UNIT
        return TruncationError(e, 1. - 2. * e)
    # where the per-truncation error enters the engine's bookkeeping:
    #   TEBD family: the value returned by update_bond;  TDVP: truncate() inside svd_theta;
    #   ExpMPO: the value returned by MPO.apply
    import tenpy.networks.mpo as mpo_mod
    eng_name = case['engine']
    family = 'tdvp' if 'TDVP' in eng_name else ('mpo' if 'ExpMPO' in eng_name else 'tebd')
    if family == 'mpo' and case.get('inject') == 'truncate':
        # SVD / zip_up compression: every truncation MPO.apply performs goes through truncate()
        family = 'tdvp'
    orig_truncate = tr.truncate
    orig_apply = mpo_mod.MPO.apply
    if family == 'tdvp':
        def wrapped(S, options):
            mask, norm_new, err = orig_truncate(S, options)
            return mask, norm_new, inject()
        tr.truncate = wrapped
    elif family == 'mpo':
        def apply(self, psi, options):
            orig_apply(self, psi, options)
            return inject()
        mpo_mod.MPO.apply = apply
    try:
        opts = dict(case['options'])
        opts['start_time'] = case['t0_ticks'] * TICK
        opts['start_trunc_err'] = TruncationError(case['e0_units'] * UNIT, 1. - 2 * case['e0_units'] * UNIT)
        opts['max_trunc_err'] = None
        cls = get_engine_class(eng_name)
        if eng_name == 'RandomUnitaryEvolution':
            eng = cls(psi, opts)
        else:
            eng = cls(psi, M, opts)
        if family == 'tebd':
            orig_update = eng.update_bond

            def update_bond(i, U):
                orig_update(i, U)
                return inject()
            eng.update_bond = update_bond
        hist = []
        for (n, ticks) in case['runs']:
            dt = ticks * TICK
            eng.options['dt'] = dt
            eng.options['N_steps'] = n
            marks.append(len(injected))
            if case.get('direct_run_evolution'):
                eng.run_evolution(n, dt)
            else:
                eng.run()
            hist.append([n, ticks, injected[marks[-1]:]])
        et = complex(eng.evolved_time)
        return {'history': hist, 'eps_units': eng.trunc_err.eps / UNIT, 'time_re_ticks': et.real / TICK,
                'time_im_ticks': et.imag / TICK, 'n_trunc': len(injected), 'chi': [int(c) for c in psi.chi]}
    finally:
        tr.truncate = orig_truncate
        mpo_mod.MPO.apply = orig_apply


def run_coverage(case):
    """Record which bonds every evolve_step updates."""
    from tenpy.algorithms import tebd
    M = make_model(case['model'])
    psi = make_psi(M, case['state'])
    eng = get_engine_class(case['engine'])(psi, M, dict(case['options']))
    trace = []
    cur = []
    orig_update = eng.update_bond

    def upd(i, U):
        cur.append(int(i))
        return orig_update(i, U)
    eng.update_bond = upd
    orig_step = eng.evolve_step

    def step(U_idx_dt, odd):
        cur.clear()
        r = orig_step(U_idx_dt, odd)
        trace.append([int(U_idx_dt), int(odd), list(cur)])
        return r
    eng.evolve_step = step
    eng.run()
    return {'L': int(psi.L), 'finite': bool(psi.finite), 'trace': trace}


def dense_evolution(M, psi0_vec, t):
    import scipy.linalg as LA
    from tenpy.algorithms.exact_diag import ExactDiag
    ED = ExactDiag(M)
    ED.build_full_H_from_mpo()
    H = ED.full_H.to_ndarray() if hasattr(ED.full_H, 'to_ndarray') else ED.full_H
    return ED, LA.expm(-1.j * t * H) @ psi0_vec, H


def make_state(M, case):
    """Initial state of a dense case: a product state, or (case['fullrank']) a normalised state of maximal bond
    dimension obtained by scrambling the product state (single-site TDVP cannot grow the bond dimension, so only
    there its evolution is exact up to the time-step error)."""
    psi = make_psi(M, case['state'])
    if case.get('fullrank'):
        from tenpy.algorithms.tebd import TEBDEngine
        TEBDEngine(psi, M, {'order': 2, 'dt': 0.25, 'N_steps': 6, 'max_trunc_err': None,
                            'trunc_params': {'chi_max': 64, 'svd_min': 1e-14, 'trunc_cut': None}}).run()
        psi.norm = 1.
        psi.canonical_form()
    return psi


def run_dense(case):
    """Evolve with a real engine (no effective truncation) and compare with dense exp(-iHt)|psi0>."""
    from tenpy.algorithms.exact_diag import ExactDiag
    import scipy.linalg as LA
    M = make_model(case['model'], case['engine'].startswith('TimeDependent'))
    ED = ExactDiag(M)
    ED.build_full_H_from_mpo()
    psi = make_state(M, case)
    v0 = ED.mps_to_full(psi).to_ndarray() * psi.norm
    H = ED.full_H.to_ndarray()
    out = {'results': []}
    E0 = float(np.real(np.vdot(v0, H @ v0)))
    for ticks, n_total in case['dts']:
        psi = make_state(M, case)
        opts = dict(case['options'])
        dt = ticks * TICK
        opts['dt'] = (-1.j * dt) if case.get('imag') else dt
        opts['N_steps'] = case.get('N_steps', 1)
        opts['max_trunc_err'] = None
        if case.get('imag'):
            opts['preserve_norm'] = False
        eng = get_engine_class(case['engine'])(psi, M, opts)
        q0 = [int(x) for x in psi.get_total_charge()]
        done = 0
        while done < n_total:
            eng.run()
            done += opts['N_steps']
        T = dt * done
        if case.get('imag'):
            vex = LA.expm(-T * H) @ v0
        else:
            vex = LA.expm(-1.j * T * H) @ v0
        v = ED.mps_to_full(psi).to_ndarray() * psi.norm
        if case.get('imag'):
            # preserve_norm=False: psi.norm * |psi> is exp(-tau H)|psi0> including its norm (relative error)
            err = float(np.linalg.norm(v - vex) / np.linalg.norm(vex))
        else:
            err = float(np.linalg.norm(v - vex))
        et = complex(eng.evolved_time)
        out['results'].append({
            'ticks': ticks, 'n': done, 'err': err, 'norm': float(psi.norm), 'vecnorm': float(np.linalg.norm(v)),
            'E': float(np.real(np.vdot(v, H @ v) / np.vdot(v, v))), 'E0': E0,
            'evolved_re': et.real, 'evolved_im': et.imag, 'T': float(dt * done),
            'q0': q0, 'q1': [int(x) for x in psi.get_total_charge()],
            'trunc_eps': float(eng.trunc_err.eps), 'norm_test': float(np.max(np.abs(psi.norm_test()))),
            'norm_ratio': float(np.linalg.norm(v) / np.linalg.norm(vex)), 'chi': [int(c) for c in psi.chi],
        })
    return out


def run_gs(case):
    """The dedicated imaginary-time path TEBDEngine.run_GS(): count the steps it performs (calls of evolve /
    update_imag with their N_steps and the delta_tau of the preceding calc_U) and report the advertised
    evolved_time, the state against dense exp(-tau H)|psi0> and the charges."""
    from tenpy.algorithms.exact_diag import ExactDiag
    import scipy.linalg as LA
    M = make_model(case['model'])
    ED = ExactDiag(M)
    ED.build_full_H_from_mpo()
    H = ED.full_H.to_ndarray()
    psi = make_state(M, case)
    v0 = ED.mps_to_full(psi).to_ndarray() * psi.norm
    q0 = [int(x) for x in psi.get_total_charge()]
    opts = dict(case['options'])
    opts['delta_tau_list'] = [t * TICK for t in case['tau_ticks']]
    eng = get_engine_class(case['engine'])(psi, M, opts)
    steps = []   # [delta_tau ticks, N_steps, via]
    cur = [None]
    orig_calc, orig_evolve, orig_imag = eng.calc_U, eng.evolve, eng.update_imag

    def calc_U(order, delta_t, type_evo='real', *a, **k):
        cur[0] = (float(delta_t) / TICK, type_evo)
        return orig_calc(order, delta_t, type_evo, *a, **k)

    def evolve(N_steps, dt):
        steps.append([cur[0][0], int(N_steps), 'evolve', cur[0][1]])
        return orig_evolve(N_steps, dt)

    def update_imag(N_steps, *a, **k):
        steps.append([cur[0][0], int(N_steps), 'update_imag', cur[0][1]])
        return orig_imag(N_steps, *a, **k)
    eng.calc_U, eng.evolve, eng.update_imag = calc_U, evolve, update_imag
    eng.run_GS()
    n_gs = len(steps)
    tau = sum(s[0] * s[1] for s in steps) * TICK
    vex = LA.expm(-tau * H) @ v0
    v = ED.mps_to_full(psi).to_ndarray()
    vn, ven = v / np.linalg.norm(v), vex / np.linalg.norm(vex)
    ov = np.vdot(ven, vn)
    if case.get('then_real'):
        # a mixed history: real-time run() calls on the same engine after the imaginary-time ones
        for ticks, n in case['then_real']:
            eng.options['dt'] = ticks * TICK
            eng.options['N_steps'] = n
            eng.run()
    et = complex(eng.evolved_time)
    return {'steps': steps, 'n_gs': n_gs, 'tau': float(tau), 'evolved_re_ticks': et.real / TICK, 'evolved_im_ticks': et.imag / TICK, 'evolved_re': et.real, 'evolved_im': et.imag,
            'dir_err': float(np.linalg.norm(vn - ven * ov / abs(ov))), 'q0': q0,
            'q1': [int(x) for x in psi.get_total_charge()], 'chi': [int(c) for c in psi.chi],
            'E': float(np.real(np.vdot(vn, H @ vn))), 'E_exact': float(np.real(np.vdot(ven, H @ ven))),
            'E0': float(np.real(np.vdot(v0, H @ v0) / np.vdot(v0, v0)))}


def run_purif(case):
    """PurificationTEBD.run_imaginary(beta) from the infinite-temperature state: advertised evolved_time against
    -i * N * dt with N = round(beta/dt) counted from the update_imag call, and the energy of the purified state
    against the dense thermal expectation value Tr(H exp(-2 tau H)) / Z."""
    from tenpy.algorithms.purification import PurificationTEBD
    from tenpy.networks.purification_mps import PurificationMPS
    from tenpy.algorithms.exact_diag import ExactDiag
    M = make_model(case['model'])
    ED = ExactDiag(M)
    ED.build_full_H_from_mpo()
    H = ED.full_H.to_ndarray()
    w = np.linalg.eigvalsh(H)
    psi = PurificationMPS.from_infiniteT(M.lat.mps_sites(), bc='finite')
    dt = case['dt_ticks'] * TICK
    eng = PurificationTEBD(psi, M, {'dt': dt, 'trunc_params': {'chi_max': 256, 'svd_min': 1e-14, 'trunc_cut': None},
                                    'disentangle': None})
    calls = []
    orig = eng.update_imag

    def update_imag(N_steps, *a, **k):
        calls.append(int(N_steps))
        return orig(N_steps, *a, **k)
    eng.update_imag = update_imag
    out = []
    tau = 0.
    for beta_ticks in case['beta_ticks']:
        eng.run_imaginary(beta_ticks * TICK)
        tau = sum(calls) * dt
        et = complex(eng.evolved_time)
        p = np.exp(-2 * tau * (w - w[0]))
        out.append({'N': list(calls), 'tau': float(tau), 'evolved_re': et.real, 'evolved_im': et.imag,
                    'E': float(np.sum(M.bond_energies(psi))), 'E_thermal': float(np.sum(w * p) / np.sum(p)),
                    'E_infT': float(np.mean(w))})
    return {'results': out}


def run_merge(case):
    """What a real TEBD engine executes: the sequence of evolve_step(U_idx_dt, odd) calls of one or several
    run() calls (N_steps per call = case['splits']) and, for each U index, the time with which the engine
    computed that U (argument of _calc_U_bond; delta_t is a power of two, so dividing by it is exact).
    mode 'static': only the two static methods (larger N), as the engine would iterate over them."""
    from tenpy.algorithms.tebd import TEBDEngine
    order = case['order']
    if case['mode'] == 'static':
        coeff = [float(x).hex() for x in TEBDEngine.suzuki_trotter_time_steps(order)]
        trace = [[int(a), int(b)] for a, b in TEBDEngine.suzuki_trotter_decomposition(order, case['splits'][0])]
        return {'coeff': coeff, 'delta_t': (1.0).hex(), 'trace': trace, 'evolved': None}
    M = make_model(case['model'], case['engine'].startswith('TimeDependent'))
    psi = make_psi(M, case['state'])
    delta_t = 2.0 ** -case['dt_exp']
    opts = {'order': order, 'dt': delta_t, 'N_steps': 1, 'trunc_params': {'chi_max': 4, 'svd_min': 1e-12},
            'max_trunc_err': None}
    eng = get_engine_class(case['engine'])(psi, M, opts)
    L = int(psi.L)
    calls = []
    orig_calc = eng._calc_U_bond

    def calc(i_bond, dt, *args, **kw):
        calls.append([int(i_bond), float(dt)])
        return orig_calc(i_bond, dt, *args, **kw)
    eng._calc_U_bond = calc
    trace = []
    orig_step = eng.evolve_step

    def step(U_idx_dt, odd):
        trace.append([int(U_idx_dt), int(odd)])
        return orig_step(U_idx_dt, odd)
    eng.evolve_step = step
    for n in case['splits']:
        eng.options['N_steps'] = n
        if case.get('direct_run_evolution'):
            eng.run_evolution(n, delta_t)
        else:
            eng.run()
    n_ts = len(eng._U)
    if len(calls) % L != 0 or len(calls) < n_ts * L:
        raise ValueError('unexpected number of _calc_U_bond calls: %d for L=%d, %d time steps' % (len(calls), L, n_ts))
    last = calls[len(calls) - n_ts * L:]
    coeff = []
    for j in range(n_ts):
        grp = last[j * L:(j + 1) * L]
        if [g[0] for g in grp] != list(range(L)) or len(set(g[1] for g in grp)) != 1:
            raise ValueError('unexpected _calc_U_bond call pattern %r' % (grp,))
        coeff.append(grp[0][1].hex())
    return {'coeff': coeff, 'delta_t': delta_t.hex(), 'trace': trace,
            'evolved': float(complex(eng.evolved_time).real).hex()}


def main():
    payload = json.load(open(sys.argv[1]))
    f = {'schedule': run_schedule, 'accounting': run_accounting, 'coverage': run_coverage, 'dense': run_dense, 'merge': run_merge, 'run_gs': run_gs, 'purif': run_purif}[payload['kind']]
    res = []
    for c in payload['cases']:
        try:
            res.append(f(c))
        except Exception:
            res.append({'runner_error': traceback.format_exc()[-1500:]})
    json.dump(res, open(sys.argv[2], 'w'))


if __name__ == '__main__':
    main()
