"""C14 implementation runner: schedules, accounting with injected dyadic truncation errors,
bond coverage traces, and dense exp(-iHt) comparisons.  Fresh interpreter, PYTHONPATH = tree under test."""
import json
import sys
import traceback
import warnings

import numpy as np

warnings.simplefilter('ignore')

UNIT = 2.0 ** -40       # injected truncation errors are small integer multiples of this (exact in float64)
TICK = 2.0 ** -10       # time steps are integer multiples of this


def get_engine_class(name):
    from tenpy.algorithms import tebd, tdvp, mpo_evolution
    for mod in (tebd, tdvp, mpo_evolution):
        if hasattr(mod, name):
            return getattr(mod, name)
    raise KeyError(name)


def make_model(spec, time_dependent=False):
    from tenpy.models.spins import SpinChain
    from tenpy.models.tf_ising import TFIChain
    pars = dict(spec['pars'])
    cls = {'SpinChain': SpinChain, 'TFIChain': TFIChain}[spec['cls']]
    if time_dependent:
        # a model that reads options['time'] (required by TimeDependentHAlgorithm) but has a constant H
        class TD(cls):
            def init_terms(self, model_params):
                model_params.get('time', 0., 'real')
                super().init_terms(model_params)
        pars['time'] = 0.
        return TD(pars)
    return cls(pars)


def make_psi(M, state):
    from tenpy.networks.mps import MPS
    return MPS.from_product_state(M.lat.mps_sites(), state, bc=M.lat.bc_MPS, unit_cell_width=M.lat.mps_unit_cell_width)


def run_schedule(case):
    from tenpy.algorithms.tebd import TEBDEngine
    order = case['order']
    out = {}
    try:
        out['steps'] = [[int(a), int(b)] for a, b in TEBDEngine.suzuki_trotter_decomposition(order, case['N'])]
    except Exception as e:
        out['steps_error'] = type(e).__name__
    try:
        out['ds'] = [float(x).hex() for x in TEBDEngine.suzuki_trotter_time_steps(order)]
    except Exception as e:
        out['ds_error'] = type(e).__name__
    return out


def run_accounting(case):
    """Real engine, real runs; tenpy.linalg.truncation.truncate is wrapped from outside so that the eps it
    reports is replaced by a prescribed small dyadic number (k * 2^-40).  Sums of those are exact in float64,
    so the engine's bookkeeping can be compared with the Coq model exactly."""
    import tenpy.linalg.truncation as tr
    from tenpy.linalg.truncation import TruncationError
    rng = np.random.default_rng(case['seed'])
    M = make_model(case['model'], case['engine'].startswith('TimeDependent'))
    psi = make_psi(M, case['state'])
    injected = []     # list of ints (units) in call order
    marks = []        # index into injected at the start of each run() call

    def inject():
        k = int(rng.integers(0, 8))
        injected.append(k)
        e = k * UNIT
        return TruncationError(e, 1. - 2. * e)
    # where the per-truncation error enters the engine's bookkeeping:
    #   TEBD family: the value returned by update_bond;  TDVP: truncate() inside svd_theta;
    #   ExpMPO: the value returned by MPO.apply
    import tenpy.networks.mpo as mpo_mod
    eng_name = case['engine']
    family = 'tdvp' if 'TDVP' in eng_name else ('mpo' if 'ExpMPO' in eng_name else 'tebd')
    orig_truncate = tr.truncate
    orig_apply = mpo_mod.MPO.apply
    if family == 'tdvp':
        def wrapped(S, options):
            mask, norm_new, err = orig_truncate(S, options)
            return mask, norm_new, inject()
        tr.truncate = wrapped
    elif family == 'mpo':
        def apply(self, psi, options):
            orig_apply(self, psi, options)
            return inject()
        mpo_mod.MPO.apply = apply
    try:
        opts = dict(case['options'])
        opts['start_time'] = case['t0_ticks'] * TICK
        opts['start_trunc_err'] = TruncationError(case['e0_units'] * UNIT, 1. - 2 * case['e0_units'] * UNIT)
        opts['max_trunc_err'] = None
        cls = get_engine_class(eng_name)
        if eng_name == 'RandomUnitaryEvolution':
            eng = cls(psi, opts)
        else:
            eng = cls(psi, M, opts)
        if family == 'tebd':
            orig_update = eng.update_bond

            def update_bond(i, U):
                orig_update(i, U)
                return inject()
            eng.update_bond = update_bond
        hist = []
        for (n, ticks) in case['runs']:
            dt = ticks * TICK
            eng.options['dt'] = dt
            eng.options['N_steps'] = n
            marks.append(len(injected))
            if case.get('direct_run_evolution'):
                eng.run_evolution(n, dt)
            else:
                eng.run()
            hist.append([n, ticks, injected[marks[-1]:]])
        et = complex(eng.evolved_time)
        return {'history': hist, 'eps_units': eng.trunc_err.eps / UNIT, 'time_re_ticks': et.real / TICK,
                'time_im_ticks': et.imag / TICK, 'n_trunc': len(injected), 'chi': [int(c) for c in psi.chi]}
    finally:
        tr.truncate = orig_truncate
        mpo_mod.MPO.apply = orig_apply


def run_coverage(case):
    """Record which bonds every evolve_step updates."""
    from tenpy.algorithms import tebd
    M = make_model(case['model'])
    psi = make_psi(M, case['state'])
    eng = get_engine_class(case['engine'])(psi, M, dict(case['options']))
    trace = []
    cur = []
    orig_update = eng.update_bond

    def upd(i, U):
        cur.append(int(i))
        return orig_update(i, U)
    eng.update_bond = upd
    orig_step = eng.evolve_step

    def step(U_idx_dt, odd):
        cur.clear()
        r = orig_step(U_idx_dt, odd)
        trace.append([int(U_idx_dt), int(odd), list(cur)])
        return r
    eng.evolve_step = step
    eng.run()
    return {'L': int(psi.L), 'finite': bool(psi.finite), 'trace': trace}


def dense_evolution(M, psi0_vec, t):
    import scipy.linalg as LA
    from tenpy.algorithms.exact_diag import ExactDiag
    ED = ExactDiag(M)
    ED.build_full_H_from_mpo()
    H = ED.full_H.to_ndarray() if hasattr(ED.full_H, 'to_ndarray') else ED.full_H
    return ED, LA.expm(-1.j * t * H) @ psi0_vec, H


def run_dense(case):
    """Evolve with a real engine (no effective truncation) and compare with dense exp(-iHt)|psi0>."""
    from tenpy.algorithms.exact_diag import ExactDiag
    import scipy.linalg as LA
    M = make_model(case['model'], case['engine'].startswith('TimeDependent'))
    ED = ExactDiag(M)
    ED.build_full_H_from_mpo()
    psi = make_psi(M, case['state'])
    v0 = ED.mps_to_full(psi).to_ndarray()
    H = ED.full_H.to_ndarray()
    out = {'results': []}
    E0 = float(np.real(np.vdot(v0, H @ v0)))
    for ticks, n_total in case['dts']:
        psi = make_psi(M, case['state'])
        opts = dict(case['options'])
        dt = ticks * TICK
        opts['dt'] = (-1.j * dt) if case.get('imag') else dt
        opts['N_steps'] = case.get('N_steps', 1)
        opts['max_trunc_err'] = None
        if case.get('imag'):
            opts['preserve_norm'] = False
        eng = get_engine_class(case['engine'])(psi, M, opts)
        q0 = [int(x) for x in psi.get_total_charge()]
        done = 0
        while done < n_total:
            eng.run()
            done += opts['N_steps']
        T = dt * done
        if case.get('imag'):
            vex = LA.expm(-T * H) @ v0
        else:
            vex = LA.expm(-1.j * T * H) @ v0
        v = ED.mps_to_full(psi).to_ndarray() * psi.norm
        if case.get('imag'):
            # compare directions (the engine may renormalise) and the norm bookkeeping separately
            vn = v / np.linalg.norm(v)
            ven = vex / np.linalg.norm(vex)
            err = float(np.linalg.norm(vn - ven * np.vdot(ven, vn) / abs(np.vdot(ven, vn))))
        else:
            err = float(np.linalg.norm(v - vex))
        et = complex(eng.evolved_time)
        out['results'].append({
            'ticks': ticks, 'n': done, 'err': err, 'norm': float(psi.norm), 'vecnorm': float(np.linalg.norm(v)),
            'E': float(np.real(np.vdot(v, H @ v) / np.vdot(v, v))), 'E0': E0,
            'evolved_re': et.real, 'evolved_im': et.imag, 'T': float(dt * done),
            'q0': q0, 'q1': [int(x) for x in psi.get_total_charge()],
            'trunc_eps': float(eng.trunc_err.eps), 'norm_test': float(np.max(np.abs(psi.norm_test()))),
        })
    return out


def run_merge(case):
    """What a real TEBD engine executes: the sequence of evolve_step(U_idx_dt, odd) calls of one or several
    run() calls (N_steps per call = case['splits']) and, for each U index, the time with which the engine
    computed that U (argument of _calc_U_bond; delta_t is a power of two, so dividing by it is exact).
    mode 'static': only the two static methods (larger N), as the engine would iterate over them."""
    from tenpy.algorithms.tebd import TEBDEngine
    order = case['order']
    if case['mode'] == 'static':
        coeff = [float(x).hex() for x in TEBDEngine.suzuki_trotter_time_steps(order)]
        trace = [[int(a), int(b)] for a, b in TEBDEngine.suzuki_trotter_decomposition(order, case['splits'][0])]
        return {'coeff': coeff, 'delta_t': (1.0).hex(), 'trace': trace, 'evolved': None}
    M = make_model(case['model'], case['engine'].startswith('TimeDependent'))
    psi = make_psi(M, case['state'])
    delta_t = 2.0 ** -case['dt_exp']
    opts = {'order': order, 'dt': delta_t, 'N_steps': 1, 'trunc_params': {'chi_max': 4, 'svd_min': 1e-12},
            'max_trunc_err': None}
    eng = get_engine_class(case['engine'])(psi, M, opts)
    L = int(psi.L)
    calls = []
    orig_calc = eng._calc_U_bond

    def calc(i_bond, dt, *args, **kw):
        calls.append([int(i_bond), float(dt)])
        return orig_calc(i_bond, dt, *args, **kw)
    eng._calc_U_bond = calc
    trace = []
    orig_step = eng.evolve_step

    def step(U_idx_dt, odd):
        trace.append([int(U_idx_dt), int(odd)])
        return orig_step(U_idx_dt, odd)
    eng.evolve_step = step
    for n in case['splits']:
        eng.options['N_steps'] = n
        if case.get('direct_run_evolution'):
            eng.run_evolution(n, delta_t)
        else:
            eng.run()
    n_ts = len(eng._U)
    if len(calls) % L != 0 or len(calls) < n_ts * L:
        raise ValueError('unexpected number of _calc_U_bond calls: %d for L=%d, %d time steps' % (len(calls), L, n_ts))
    last = calls[len(calls) - n_ts * L:]
    coeff = []
    for j in range(n_ts):
        grp = last[j * L:(j + 1) * L]
        if [g[0] for g in grp] != list(range(L)) or len(set(g[1] for g in grp)) != 1:
            raise ValueError('unexpected _calc_U_bond call pattern %r' % (grp,))
        coeff.append(grp[0][1].hex())
    return {'coeff': coeff, 'delta_t': delta_t.hex(), 'trace': trace,
            'evolved': float(complex(eng.evolved_time).real).hex()}


def main():
    payload = json.load(open(sys.argv[1]))
    f = {'schedule': run_schedule, 'accounting': run_accounting, 'coverage': run_coverage, 'dense': run_dense, 'merge': run_merge}[payload['kind']]
    res = []
    for c in payload['cases']:
        try:
            res.append(f(c))
        except Exception:
            res.append({'runner_error': traceback.format_exc()[-1500:]})
    json.dump(res, open(sys.argv[2], 'w'))


if __name__ == '__main__':
    main()
