"""Runner of check C07 (fresh interpreter): see c07_exec.py (shared executor) and c07_ext_run.py (C07-only
extensions: constructors with per-site dtypes, Schmidt values / entropies at all bond indices)."""
import sys
import c07_exec
import c07_ext_run

if __name__ == '__main__':
    c07_ext_run.install(c07_exec)
    c07_exec.main(sys.argv)
