"""Runner of check C07 (fresh interpreter): see c07_exec.py."""
import sys
import c07_exec

if __name__ == '__main__':
    c07_exec.main(sys.argv)
