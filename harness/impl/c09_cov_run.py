"""Line recording of the MPS transformation methods inside the runner process of C09 (python >= 3.12: sys.monitoring,
every line location is switched off after its first hit, so the cost is negligible).  `start(names)` arms the code
objects (incl. nested comprehensions / closures) of the named functions of tenpy/networks/mps.py (class MPS and its
bases) and of tenpy/networks/site.py; `stop()` returns {qualified name: sorted list of executed line numbers}."""
import sys

_hits = {}
_codes = {}
TOOL = None


def _code_objects(code):
    yield code
    for c in code.co_consts:
        if hasattr(c, 'co_code'):
            yield from _code_objects(c)


def _func_of(obj):
    if isinstance(obj, (classmethod, staticmethod)):
        obj = obj.__func__
    if isinstance(obj, property):
        obj = obj.fget
    return obj if hasattr(obj, '__code__') else None


def start(names):
    """names: list of 'Class.method' / 'function' (module mps) or 'site:function'"""
    global TOOL
    mon = getattr(sys, 'monitoring', None)
    if mon is None:
        return False
    import tenpy.networks.mps as M
    import tenpy.networks.site as SM
    TOOL = mon.COVERAGE_ID
    try:
        mon.use_tool_id(TOOL, 'c09cov')
    except ValueError:
        return False

    def on_line(code, line):
        _hits.setdefault(_codes.get(code, '?'), set()).add(int(line))
        return mon.DISABLE
    mon.register_callback(TOOL, mon.events.LINE, on_line)
    for name in names:
        mod = M
        nm = name
        if name.startswith('site:'):
            mod, nm = SM, name[5:]
        obj = mod
        try:
            parts = nm.split('.')
            for k, p in enumerate(parts):
                obj = obj.__dict__[p] if isinstance(obj, type) else getattr(obj, p)
        except (KeyError, AttributeError):
            continue
        f = _func_of(obj)
        if f is None:
            continue
        for c in _code_objects(f.__code__):
            _codes[c] = name
            mon.set_local_events(TOOL, c, mon.events.LINE)
        _hits.setdefault(name, set())
    return True


def stop():
    mon = getattr(sys, 'monitoring', None)
    if mon is None or TOOL is None:
        return {}
    for c in _codes:
        mon.set_local_events(TOOL, c, 0)
    mon.register_callback(TOOL, mon.events.LINE, None)
    mon.free_tool_id(TOOL)
    return {k: sorted(v) for k, v in _hits.items()}
