"""C06, helper of c06_impl.py: applies EVERY public LegCharge / LegPipe method that returns a leg to a given leg or pipe.

The methods are found by reflection (dir() of both classes); how to call them comes from the small table CALLS
(methods without required arguments are called without the table).  Every leg found in a result is described by its raw
attributes; a result that is a LegPipe is described like the pipe itself (charges, slices, q_map, q_map_slices, stored
incoming legs, map_incoming_flat on every index tuple) and, when requested, carried by an Array that is split and
recombined.  Nothing is judged here except array-level facts that need the dense data; the oracle is harness/c06_ops.py.
"""
import inspect
import itertools

import numpy as np


def ints(a):
    return [int(x) for x in a]


def ints2(a):
    return [[int(x) for x in r] for r in a]


def charges2(l, nblocks):
    a = np.asarray(l.charges)
    if a.ndim != 2:
        a = a.reshape(nblocks, a.size // nblocks if nblocks else 0)
    return [ints(r) for r in a]


def leg_spec(l):
    """[sizes, charges, qconj] from the raw attributes"""
    sl = np.asarray(l.slices)
    return [ints(sl[1:] - sl[:-1]), charges2(l, len(sl) - 1), int(l.qconj)]


def sane(leg):
    from tenpy.linalg.charges import LegCharge
    try:
        LegCharge.test_sanity(leg)
        leg.test_sanity()
    except Exception as e:
        return type(e).__name__ + ': ' + str(e)[:80]
    return None


def default_mask(n):
    return [((5 * i + n) % 3) != 0 for i in range(n)]


def _identity(charges):
    return charges.copy()


def _negate(charges, chinfo):
    return chinfo.make_valid(-charges)


def _first_charge(o):
    return (np.array(o.charges[0]),) if o.block_number > 0 else None


# name -> function(obj, aux) -> list of (variant, args, kwargs); None = cannot be called on this object
CALLS = {
    'sort': lambda o, aux: [('bunch=True', (), {'bunch': True}), ('bunch=False', (), {'bunch': False})],
    'project': lambda o, aux: [('mask', (np.array(aux.get('mask', default_mask(o.ind_len)), dtype=bool),), {})],
    'extend': lambda o, aux: [('int', (int(aux.get('extend_int', 1)),), {})] + (
        [('leg', (aux['extend_leg'],), {})] if aux.get('extend_leg') is not None else []),
    'apply_charge_mapping': lambda o, aux: [('identity', (_identity,), {}), ('negate', (_negate, (o.chinfo,)), {})],
    # methods that do not return a leg (called once per process for the coverage table only)
    'get_slice': lambda o, aux: [('0', (0,), {})] if o.block_number > 0 else None,
    'get_charge': lambda o, aux: [('0', (0,), {})] if o.block_number > 0 else None,
    'get_qindex': lambda o, aux: [('0', (0,), {})] if o.ind_len > 0 else None,
    'get_qindex_of_charges': lambda o, aux: [('first', _first_charge(o), {})] if o.block_number > 0 else None,
    'test_contractible': lambda o, aux: [('conj', (o.conj(),), {})],
    'test_equal': lambda o, aux: [('self', (o,), {})],
    'perm_flat_from_perm_qind': lambda o, aux: [('id', (np.arange(o.block_number),), {})],
    'perm_qind_from_perm_flat': lambda o, aux: [('id', (np.arange(o.ind_len),), {})] if o.ind_len > 0 else None,
    'map_incoming_flat': lambda o, aux: [('0', ([0] * o.nlegs,), {})] if o.ind_len > 0 else None,
    'save_hdf5': lambda o, aux: None,      # I/O, property C17
}


def public_names(cls):
    return sorted(n for n in dir(cls) if not n.startswith('_'))


def kind_of(cls, name):
    raw = inspect.getattr_static(cls, name)
    if isinstance(raw, classmethod):
        return 'classmethod'
    if isinstance(raw, staticmethod):
        return 'staticmethod'
    if isinstance(raw, property):
        return 'property'
    if callable(raw):
        return 'method'
    return 'attribute'


def owner_of(cls, name):
    for c in cls.__mro__:
        if name in c.__dict__:
            return c.__name__
    return None


_SIG = {}


def _noarg(cls, name):
    """None when the method can be called without arguments, else the reason"""
    key = (cls, name)
    if key not in _SIG:
        try:
            sig = inspect.signature(getattr(cls, name))
            req = [p for p in list(sig.parameters.values())[1:]
                   if p.default is inspect.Parameter.empty and p.kind in (p.POSITIONAL_ONLY, p.POSITIONAL_OR_KEYWORD, p.KEYWORD_ONLY)]
            _SIG[key] = 'unknown signature %s: NOT APPLIED' % sig if req else None
        except (TypeError, ValueError):
            _SIG[key] = 'no signature'
    return _SIG[key]


def variants(obj, name, aux):
    """list of (variant, args, kwargs), or a string saying why the method is not applied"""
    if name in CALLS:
        v = CALLS[name](obj, aux)
        return v if v is not None else 'not applicable to this object / not called (I/O)'
    why = _noarg(type(obj), name)
    return why if why is not None else [('', (), {})]


def find_legs(res):
    """all LegCharge instances in a result (the result itself or the members of a returned tuple/list)"""
    from tenpy.linalg.charges import LegCharge
    if isinstance(res, LegCharge):
        return [res]
    if isinstance(res, (tuple, list)):
        return [x for x in res if isinstance(x, LegCharge)]
    return []


def jsonable(x):
    if isinstance(x, np.ndarray):
        return x.tolist() if x.size <= 4096 else None
    if isinstance(x, (np.integer,)):
        return int(x)
    if isinstance(x, (np.bool_,)):
        return bool(x)
    if isinstance(x, (list, tuple)):
        return [jsonable(y) for y in x]
    if isinstance(x, (int, float, str, bool)) or x is None:
        return x
    return None


def method_table(obj, aux):
    """coverage table for type(obj): every public name, its kind, where it is defined, whether (and how) it is called here
    and whether the call returns a leg"""
    cls = type(obj)
    table = {}
    for n in public_names(cls):
        k = kind_of(cls, n)
        e = {'kind': k, 'defined_in': owner_of(cls, n)}
        if k != 'method':
            e['applied'] = 'no (%s)' % k
            table[n] = e
            continue
        vs = variants(obj, n, aux)
        if isinstance(vs, str):
            e['applied'] = 'no: ' + vs
            table[n] = e
            continue
        e['applied'] = [v[0] for v in vs]
        try:
            with np.errstate(all='ignore'):
                res = getattr(obj.copy(), n)(*vs[0][1], **vs[0][2])
            legs = find_legs(res)
            e['returns_leg'] = bool(legs)
            e['result'] = type(res).__name__ if not isinstance(res, tuple) else 'tuple(%s)' % ', '.join(type(x).__name__ for x in res)
        except Exception as ex:
            e['returns_leg'] = None
            e['result'] = 'raised ' + type(ex).__name__ + ': ' + str(ex)[:60]
        table[n] = e
    return table


# --------------------------------------------------------------------------------------------

def pipe_desc(p, with_leg_qflat=True):
    """the documented attributes of a LegPipe + map_incoming_flat on every index tuple of the STORED incoming legs"""
    from tenpy.linalg.charges import LegCharge, LegPipe
    legs = list(p.legs)
    out = {'charges': charges2(p, len(p.slices) - 1), 'slices': ints(p.slices),
           'q_map': ints2(p.q_map), 'q_map_slices': ints(p.q_map_slices),
           'sorted': bool(p.sorted), 'bunched': bool(p.bunched), 'ind_len': int(p.ind_len),
           'block_number': int(p.block_number), 'qconj': int(p.qconj),
           'legs': [leg_spec(l) for l in legs],
           'legs_plain': all(type(l) is LegCharge for l in legs),
           'attrs_ok': bool(p.nlegs == len(legs) and tuple(p.subshape) == tuple(l.ind_len for l in legs)
                            and tuple(p.subqshape) == tuple(l.block_number for l in legs)
                            and all(l.chinfo == p.chinfo for l in legs))}
    mif = []
    for t in itertools.product(*[range(l.ind_len) for l in legs]):
        try:
            mif.append(int(p.map_incoming_flat(list(t))))
        except Exception as e:
            mif.append(None)
            out.setdefault('mif_error', type(e).__name__ + ': ' + str(e)[:80])
    out['mif'] = mif
    out['qflat'] = ints2(p.to_qflat())
    if with_leg_qflat:
        out['leg_qflat'] = [ints2(l.to_qflat()) for l in legs]
    out['sane'] = sane(p)
    try:
        grid = np.array(list(itertools.product(*[range(l.block_number) for l in legs])), dtype=np.intp).reshape(-1, len(legs))
        j = p._map_incoming_qind(grid)
        out['qind_ok'] = bool(np.all(p.q_map[j, 3:] == grid))
    except Exception as e:
        out['qind_ok'] = False
        out['qind_error'] = type(e).__name__ + ': ' + str(e)[:80]
    return out


def legs_identical(l1, l2):
    return (l1.qconj == l2.qconj and np.array_equal(l1.slices, l2.slices) and np.array_equal(l1.charges, l2.charges)
            and l1.chinfo == l2.chinfo)


def pipe_array_check(X, mif, seed):
    """An Array carrying the pipe X as leg 0 (leg 1: the plain conjugate of X's outgoing leg, built from the raw slices
    and charges): split_legs(0) and combine_legs(pipes=[X]) against the dense data."""
    import tenpy.linalg.np_conserved as npc
    from tenpy.linalg.charges import LegCharge
    res = {}
    k = len(X.legs)
    other = LegCharge(X.chinfo, np.array(X.slices), np.array(X.charges), -int(X.qconj))
    rng = np.random.default_rng(seed)

    def func(shape):
        return rng.integers(1, 50, size=shape).astype(np.float64)
    a = npc.Array.from_func(func, [X, other], dtype=np.float64, qtotal=None)
    a.test_sanity()
    ad = a.to_ndarray()
    res['stored_blocks'] = int(a.stored_blocks)
    sp = a.split_legs(0)
    try:
        sp.test_sanity()
        res['split_sane'] = None
    except Exception as e:
        res['split_sane'] = type(e).__name__ + ': ' + ' '.join(str(e).split())[:100]
    spd = sp.to_ndarray()
    shape = tuple(int(l.ind_len) for l in X.legs)
    n = int(X.ind_len)
    ok = spd.shape == shape + (n,) and None not in mif
    if ok and spd.size > 0:
        exp = ad[np.array(mif, dtype=np.intp)].reshape(shape + (n,))      # dense reshape: entry t <- row mif[t]
        ok = bool(np.array_equal(spd, exp))
    res['split_dense_ok'] = bool(ok)
    res['split_legs'] = [leg_spec(l) for l in sp.legs[:k]]
    res['split_last_ok'] = bool(legs_identical(sp.legs[-1], other))
    # charge rule on every non-zero entry of the split tensor, from the raw attributes of its legs
    mods = ints(X.chinfo.mod)
    qtot = ints(a.qtotal)
    nz = np.argwhere(spd != 0)
    rule_ok = True
    if len(mods) > 0 and len(nz) > 0:
        tot = np.zeros((len(nz), len(mods)), dtype=np.int64)
        for ax, l in enumerate(sp.legs):
            tot += int(l.qconj) * np.asarray(l.to_qflat(), dtype=np.int64).reshape(l.ind_len, len(mods))[nz[:, ax]]
        for c, m in enumerate(mods):
            d = tot[:, c] - qtot[c]
            rule_ok = rule_ok and bool(np.all(d == 0) if m == 1 else np.all(d % m == 0))
    res['split_charge_rule_ok'] = rule_ok
    try:
        c = sp.combine_legs(list(range(k)), pipes=[X])
        c.test_sanity()
        res['recombine_ok'] = bool(np.array_equal(c.to_ndarray(), ad))
    except Exception as e:
        res['recombine_ok'] = False
        res['recombine_error'] = type(e).__name__ + ': ' + ' '.join(str(e).split())[:100]
    return res


def describe(X, obj, base_pipe, arr_seed):
    from tenpy.linalg.charges import LegCharge, LegPipe
    sl = np.asarray(X.slices)
    d = {'type': type(X).__name__, 'is_pipe': isinstance(X, LegPipe), 'is_self': X is obj,
         'blocks': [[int(s), c] for s, c in zip(sl[1:] - sl[:-1], charges2(X, len(sl) - 1))],
         'qconj': int(X.qconj), 'sane': sane(X), 'sorted': bool(X.sorted), 'bunched': bool(X.bunched),
         'is_sorted': bool(X.is_sorted()), 'is_bunched': bool(X.is_bunched()), 'ind_len': int(X.ind_len)}
    if d['is_pipe']:
        try:
            pd = pipe_desc(X, with_leg_qflat=False)
            if arr_seed is not None:
                try:
                    pd['array'] = pipe_array_check(X, pd['mif'], arr_seed)
                except Exception as e:
                    pd['array'] = {'error': type(e).__name__ + ': ' + ' '.join(str(e).split())[:160]}
            if base_pipe is not None:      # compact: only what differs from the pipe the method was applied to
                same = sorted(k for k in pd if k in base_pipe and base_pipe[k] == pd[k])
                pd = {'same': same, 'diff': {k: v for k, v in pd.items() if k not in same}}
            else:
                pd = {'same': [], 'diff': pd}
            d['pipe'] = pd
        except Exception as e:
            d['pipe_error'] = type(e).__name__ + ': ' + ' '.join(str(e).split())[:160]
    return d


_CAND = {}


def apply_all(obj, aux, base_pipe=None, arr_seed=None):
    """apply every public method that can return a leg; one record per (method, variant)"""
    cls = type(obj)
    out = []
    if cls not in _CAND:
        _CAND[cls] = [n for n in public_names(cls) if kind_of(cls, n) == 'method' and n not in NOT_LEG]
    for n in _CAND[cls]:
        vs = variants(obj, n, aux)
        if isinstance(vs, str):
            continue
        for var, args, kwargs in vs:
            rec = {'method': n, 'variant': var}
            try:
                res = getattr(obj, n)(*args, **kwargs)
            except Exception as e:
                rec['error'] = type(e).__name__ + ': ' + ' '.join(str(e).split())[:160]
                out.append(rec)
                continue
            legs = find_legs(res)
            if not legs:
                continue
            rec['aux'] = [jsonable(x) for x in res if not hasattr(x, 'chinfo')] if isinstance(res, tuple) else []
            rec['legs'] = [describe(X, obj, base_pipe, arr_seed) for X in legs]
            out.append(rec)
    return out


# public methods with a known signature that return no leg (verified once per process by method_table: `returns_leg`)
NOT_LEG = {'get_slice', 'get_charge', 'get_qindex', 'get_qindex_of_charges', 'test_contractible', 'test_equal',
           'perm_flat_from_perm_qind', 'perm_qind_from_perm_flat', 'map_incoming_flat', 'save_hdf5', 'test_sanity',
           'to_qflat', 'to_qdict', 'is_blocked', 'is_sorted', 'is_bunched', 'get_block_sizes', 'charge_sectors'}
