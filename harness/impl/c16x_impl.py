"""Further runners of the C16 check (coverage audit), imported by c16_impl.py: line recording for
tenpy/linalg/krylov_based.py and tenpy/linalg/sparse.py, wrapper trees (Sum / Shift / Boost / Orthogonal: matvec, to_matrix,
adjoint, unwrapped, attribute delegation, list-valued vectors), FlatLinearOperator.eigenvectors, lanczos_arpack.
Pure data plumbing: results are dumped as JSON, nothing is judged here."""
import os
import sys
import traceback

import numpy as np

sys.path.insert(0, os.path.join(os.environ.get('VERIF_DIR', '/verif'), 'harness'))
import c16_gen as G  # noqa: E402

TARGETS = {'krylov_based': os.sep.join(['tenpy', 'linalg', 'krylov_based.py']),
           'sparse': os.sep.join(['tenpy', 'linalg', 'sparse.py'])}
HIT = {k: set() for k in TARGETS}


def start_monitor():
    """record the executed source lines of the two anchored files (each location once)"""
    mon = getattr(sys, 'monitoring', None)
    if mon is not None:
        tid = mon.COVERAGE_ID
        try:
            mon.use_tool_id(tid, 'c16cov')
        except ValueError:
            return 'unavailable'

        def cb(code, line):
            fn = code.co_filename
            for k, t in TARGETS.items():
                if fn.endswith(t):
                    HIT[k].add(line)
            return mon.DISABLE
        mon.register_callback(tid, mon.events.LINE, cb)
        mon.set_events(tid, mon.events.LINE)
        return 'sys.monitoring'

    def tracer(frame, event, arg):
        fn = frame.f_code.co_filename
        key = [k for k, t in TARGETS.items() if fn.endswith(t)]
        if not key:
            return None

        def local(frame, event, arg):
            if event == 'line':
                HIT[key[0]].add(frame.f_lineno)
            return local
        HIT[key[0]].add(frame.f_lineno)
        return local
    sys.settrace(tracer)
    return 'sys.settrace'


def hit_lines():
    return {k: sorted(v) for k, v in HIT.items()}


def reflect():
    """public names / signatures / option reads of the two modules, taken from the code under test"""
    import inspect
    from tenpy.linalg import krylov_based, sparse
    out = {}
    for mname, mod in (('krylov_based', krylov_based), ('sparse', sparse)):
        names = {}
        for name, obj in sorted(vars(mod).items()):
            if getattr(obj, '__module__', None) != mod.__name__:
                continue
            if inspect.isclass(obj):
                for an, av in sorted(vars(obj).items()):
                    f = av.fget if isinstance(av, property) else av.__func__ if isinstance(av, (classmethod, staticmethod)) else av
                    if inspect.isfunction(f):
                        names['%s.%s' % (name, an)] = [p for p in inspect.signature(f).parameters if p not in ('self', 'cls')]
            elif inspect.isfunction(obj):
                names[name] = list(inspect.signature(obj).parameters)
        out[mname] = {'names': names, 'all': list(getattr(mod, '__all__', []))}
    return out


# ------------------------------------------------------------------------------ helpers
def make_leg(npc, leg):
    mods = leg['mods']
    chinfo = npc.ChargeInfo(list(mods))
    sizes = leg['sizes']
    ch = np.array(leg['charges'], dtype=int).reshape(len(sizes), len(mods))
    if mods:
        ch = chinfo.make_valid(ch)
    return npc.LegCharge.from_qind(chinfo, np.cumsum([0] + sizes), ch, leg['qconj'])


def npc_vec(npc, v, leg, spec, label='v'):
    v = np.asarray(v)
    return npc.Array.from_ndarray(v, [leg], labels=[label], cutoff=0., qtotal=leg.get_charge(spec['sector']))


def npc_op(npc, M, leg):
    return npc.Array.from_ndarray(M, [leg, leg.conj()], labels=['v', 'v*'], cutoff=0.)


def vec_out(a):
    return G.enc(a.to_ndarray())


def err(e):
    return {'error': type(e).__name__ + ': ' + str(e)[:200]}


_LEAF = {}


def leaf_class(sparse):
    if 'cls' not in _LEAF:
        class Leaf(sparse.NpcLinearOperator):
            """an operator as the effective Hamiltonians of tenpy are: matvec, to_matrix, adjoint and some attribute"""
            acts_on = ['v']

            def __init__(self, M, tag):
                self.M = M
                self.tag = tag
                self.dtype = M.dtype

            def matvec(self, vec):
                if isinstance(vec, list):
                    return [self.M.matvec(v) for v in vec]
                return self.M.matvec(vec)

            def to_matrix(self):
                return self.M

            def adjoint(self):
                return Leaf(self.M.conj().itranspose(['v', 'v*']), self.tag)
        _LEAF['cls'] = Leaf
    return _LEAF['cls']


def leaf2_class(npc, sparse):
    if 'cls2' not in _LEAF:
        class Leaf2(sparse.NpcLinearOperator):
            """HA (x) 1 + 1 (x) HB on two-leg vectors theta[a, b]; to_matrix with the legs combined to pipes, as the effective Hamiltonians do"""
            acts_on = ['a', 'b']

            def __init__(self, HA, HB, tag):
                self.HA, self.HB = HA, HB
                self.tag = tag
                self.dtype = np.result_type(HA.dtype, HB.dtype)

            def matvec(self, th):
                if isinstance(th, list):
                    return [self.matvec(t) for t in th]
                labels = th.get_leg_labels()
                r1 = npc.tensordot(self.HA, th, axes=['a*', 'a'])
                r2 = npc.tensordot(self.HB, th, axes=['b*', 'b']).itranspose(r1.get_leg_labels())
                return (r1 + r2).itranspose(labels)

            def to_matrix(self):
                Ia = npc.eye_like(self.HA, 0, labels=['a', 'a*'])
                Ib = npc.eye_like(self.HB, 0, labels=['b', 'b*'])
                K = npc.outer(self.HA, Ib) + npc.outer(Ia, self.HB)
                return K.combine_legs([['a', 'b'], ['a*', 'b*']], qconj=[+1, -1])

            def adjoint(self):
                return Leaf2(self.HA.conj().itranspose(['a', 'a*']), self.HB.conj().itranspose(['b', 'b*']), self.tag)
        _LEAF['cls2'] = Leaf2
    return _LEAF['cls2']


def npc_vec2(npc, v, leg, legB, spec, spec2):
    X = np.asarray(v).reshape(leg.ind_len, legB.ind_len)
    q = leg.chinfo.make_valid(leg.get_charge(spec['sector']) + legB.get_charge(spec2['sector']))
    return npc.Array.from_ndarray(X, [leg, legB], labels=['a', 'b'], cutoff=0., qtotal=q)


def build_tree(npc, sparse, spec, tree, leg, spec2=None, legB=None):
    """the operator object a tree (see c16_gen) describes; leaves are Leaf / Leaf2 objects"""
    kind = tree[0]

    def mk(v):
        return npc_vec(npc, v, leg, spec) if spec2 is None else npc_vec2(npc, v, leg, legB, spec, spec2)
    if kind == 'leaf':
        M = G.dense_operator(dict(spec, seed=spec['seed'] + tree[1], herm=bool(tree[2])))
        if spec2 is None:
            return leaf_class(sparse)(npc_op(npc, M, leg), 1000 + tree[1])
        MB = G.dense_operator(dict(spec2, seed=spec2['seed'] + tree[1], herm=bool(tree[2])))
        return leaf2_class(npc, sparse)(npc_op(npc, M, leg).iset_leg_labels(['a', 'a*']), npc_op(npc, MB, legB).iset_leg_labels(['b', 'b*']),
                                        1000 + tree[1])
    sub = build_tree(npc, sparse, spec, tree[1], leg, spec2, legB)
    if kind == 'sum':
        return sparse.SumNpcLinearOperator(sub, build_tree(npc, sparse, spec, tree[2], leg, spec2, legB))
    if kind == 'shift':
        s = complex(*tree[2])
        return sparse.ShiftNpcLinearOperator(sub, s if s.imag != 0 else s.real)
    if kind == 'boost':
        vs = G.tree_vectors(spec, len(tree[2]), tree[3], tree[4], tree[5] if len(tree) > 5 else None, spec2)
        bs = [complex(*b) if b[1] != 0 else b[0] for b in tree[2]]
        return sparse.BoostNpcLinearOperator(sub, bs, [mk(v) for v in vs])
    if kind == 'ortho':
        ovs = G.tree_ortho_vectors(spec, tree, spec2)
        return sparse.OrthogonalNpcLinearOperator(sub, [mk(v) for v in ovs])
    raise ValueError(kind)


def first_leaf(op):
    while hasattr(op, 'orig_operator'):
        op = op.orig_operator
    return op


# ------------------------------------------------------------------------------ wrapper algebra
def run_wrapper(case):
    import tenpy.linalg.np_conserved as npc
    from tenpy.linalg import krylov_based, sparse
    spec, tree = case['spec'], case['tree']
    spec2 = case.get('spec2')
    leg = make_leg(npc, spec['leg'])
    legB = make_leg(npc, spec2['leg']) if spec2 else None
    op = build_tree(npc, sparse, spec, tree, leg, spec2, legB)

    def mk(v):
        return npc_vec(npc, v, leg, spec) if spec2 is None else npc_vec2(npc, v, leg, legB, spec, spec2)

    def vout(a):
        return G.enc(a.to_ndarray()) if spec2 is None else G.enc(a.transpose(['a', 'b']).to_ndarray().reshape(-1))

    def mat_out(m):
        if spec2 is None:
            return G.enc(m.transpose(['v', 'v*']).to_ndarray())
        n = leg.ind_len * legB.ind_len
        return G.enc(m.split_legs().transpose(['a', 'b', 'a*', 'b*']).to_ndarray().reshape(n, n))
    x = G.tree_vectors(spec, 1, 9, case['x_cplx'], None, spec2)[0]
    xv = mk(x)
    out = {}

    def attempt(name, f):
        try:
            out[name] = f()
        except Exception as e:
            out[name] = err(e)
            out[name]['tb'] = traceback.format_exc()[-500:]
    out['leg_sorted_blocked'] = bool(leg.is_sorted() and leg.is_blocked())
    attempt('mv', lambda: vout(op.matvec(xv)))
    out['x_untouched'] = bool(np.array_equal(vout(xv), G.enc(x)))
    attempt('mat', lambda: mat_out(op.to_matrix()))
    attempt('adj_mv', lambda: vout(op.adjoint().matvec(xv)))
    attempt('adj_mat', lambda: mat_out(op.adjoint().to_matrix()))
    attempt('adj_adj_mv', lambda: vout(op.adjoint().adjoint().matvec(xv)))
    attempt('mv2', lambda: vout(op.matvec(xv)))      # the same object again, after to_matrix / adjoint were formed from it
    attempt('unwrapped_is_first_leaf', lambda: bool(op.unwrapped() is first_leaf(op)))
    attempt('delegated', lambda: [int(op.tag), list(op.acts_on), int(first_leaf(op).tag)])
    if case.get('list_ok'):
        x2 = G.tree_vectors(spec, 1, 10, case['x_cplx'], None, spec2)[0]
        attempt('mv_list', lambda: [vout(r) for r in op.matvec([xv.copy(), mk(x2)])])
        out['x2'] = G.enc(x2)
    # module-level hooks on lists of arrays
    a, b, c, d = [G.tree_vectors(spec, 1, 11 + i, case['x_cplx'], None, spec2)[0] for i in range(4)]
    w = [mk(a), mk(b)]
    v = [mk(c), mk(d)]
    al = complex(*case['alpha']) if case['x_cplx'] else case['alpha'][0]

    def hooks():
        krylov_based.iadd_prefactor_other(w, al, v)
        krylov_based.iscale_prefactor(w, case['scale'])
        return {'w': [vout(t) for t in w], 'v': [vout(t) for t in v],
                'ref': [G.enc((a + al * c) * case['scale']), G.enc((b + al * d) * case['scale'])], 'vref': [G.enc(c), G.enc(d)]}
    attempt('hooks_list', hooks)
    if case.get('solve'):
        # the wrapped operator is given to a solver (multi-leg vectors when spec2 is there)
        def solve():
            E, psi, N = krylov_based.LanczosGroundState(op, xv, dict(case['solve'])).run()
            return {'E': float(np.real(E)), 'psi': vout(psi), 'N': int(N), 'labels': list(psi.get_leg_labels())}
        attempt('solve', solve)
    return out


# ------------------------------------------------------------------------------ FlatLinearOperator.eigenvectors
def sector_value(leg, spec, cs):
    if cs == 'block':
        return [int(v) for v in leg.get_charge(spec['sector'])]
    return cs


def run_flateig(case):
    import scipy.sparse.linalg
    import tenpy.linalg.np_conserved as npc
    from tenpy.linalg import sparse
    spec = case['spec']
    leg = make_leg(npc, spec['leg'])
    tree = case.get('tree')
    M = G.tree_dense(spec, tree) if tree else G.dense_operator(spec)
    cls = sparse.FlatHermitianOperator if case['herm_cls'] else sparse.FlatLinearOperator
    kw = {}
    if case.get('compact_flat') is not None:
        kw['compact_flat'] = case['compact_flat']
    cs_init = sector_value(leg, spec, case['cs_init'])
    cs = sector_value(leg, spec, case['charge_sector'])
    out = {'blocked': bool(leg.is_blocked()), 'sorted': bool(leg.is_sorted())}
    try:
        if tree:
            op_npc = build_tree(npc, sparse, spec, tree, leg)
            if case.get('ctor_defaults'):
                op = cls(op_npc.matvec, leg, M.dtype)         # charge_sector=0, vec_label=None, compact_flat=None
            else:
                op = cls(op_npc.matvec, leg, M.dtype, cs_init, 'v', **kw)
        elif case.get('cs_kw_omitted'):
            op = cls.from_NpcArray(npc_op(npc, M, leg), **kw)
        else:
            op = cls.from_NpcArray(npc_op(npc, M, leg), charge_sector=cs_init, **kw)
    except ValueError as e:
        out['init_error'] = str(e)[:150]
        return out
    rs = np.random.RandomState(spec['seed'] % 1000 + 17)
    out['compact0'] = bool(op.compact_flat)
    try:
        if case['use_setter']:
            n0 = op.shape[0]
            if n0:
                op.matvec(rs.standard_normal(n0))          # the object is used before its sector is changed
            op.charge_sector = cs
        out['shape'] = [int(s) for s in op.shape]
        out['charge_sector'] = None if op.charge_sector is None else [int(v) for v in op.charge_sector]
        out['compact'] = bool(op.compact_flat)
        n = op.shape[0]
        mask = np.arange(leg.ind_len)[op._mask] if isinstance(op._mask, slice) else np.nonzero(op._mask)[0]
        out['mask_idx'] = [int(i) for i in mask]
        # matvec with a column matrix / with a dtype that differs from the operator's
        xr = rs.standard_normal(n)
        xc = xr + 1j * rs.standard_normal(n)
        cnt0 = int(op.matvec_count)
        out['mv_real'] = G.enc(op.matvec(xr))
        out['mv_cplx'] = G.enc(op.matvec(xc))
        y = op._matvec(xr.reshape(-1, 1))                     # `Vector (or N x 1 matrix) to be acted on by self`
        out['mv_col_shape'] = [int(s) for s in np.shape(y)]
        out['mv_col'] = G.enc(np.reshape(y, (-1,)))
        X2 = np.stack([xr, xc], axis=1)
        out['matmat'] = G.enc(op.matmat(X2))
        if case['herm_cls']:
            out['adjoint_is_self'] = bool(op.adjoint() is op)
            out['rmatvec'] = G.enc(op.rmatvec(xc))
        out['count_delta'] = int(op.matvec_count) - cnt0
        out['xr'], out['xc'] = G.enc(xr), G.enc(xc)
    except (ValueError, KeyError) as e:
        out['use_error'] = type(e).__name__ + ': ' + str(e)[:150]
        return out
    ekw = {}
    for key in ('num_ev', 'which', 'cutoff', 'max_num_ev'):
        if case.get(key) is not None and not (key == 'which' and case.get('which_default')) and \
                not (key == 'num_ev' and case.get('num_ev_default')):
            ekw[key] = case[key]
    for key in ('maxiter', 'max_tol', 'ncv'):
        if case.get(key) is not None:
            ekw[key] = case[key]
    if case.get('hermitian_flag'):
        ekw['hermitian'] = True
    if case.get('tol') is not None:
        ekw['tol'] = case['tol']
    v0 = rs.standard_normal(n) + (1j * rs.standard_normal(n) if np.iscomplexobj(M) else 0)
    if case['v0'] == 'flat':
        ekw['v0'] = v0
    elif case['v0'] == 'npc':
        ekw['v0_npc'] = op.flat_to_npc(v0)

    def pack(eta, ws):
        return {'eta': G.enc(np.asarray(eta, dtype=complex)), 'vecs': [vec_out(w) for w in ws],
                'qtotal': [[int(q) for q in w.qtotal] for w in ws], 'labels': [list(w.get_leg_labels()) for w in ws],
                'leg_ok': [bool(w.legs[0] == leg or w.legs[0].to_LegCharge() == leg) for w in ws]}
    import warnings as _w
    try:
        with _w.catch_warnings(record=True) as rec:
            _w.simplefilter('always')
            eta, ws = op.eigenvectors(**ekw)
        out['retried'] = bool(any('increased `num_ev`' in str(x.message) for x in rec))
        out['first'] = pack(eta, ws)
        # the result is used again: start vector of a second call on the same object
        k2 = dict(ekw)
        k2.pop('v0', None)
        k2.pop('v0_npc', None)
        if op.charge_sector is not None:
            g = ws[0].copy()
            g.iadd_prefactor_other(0.3, op.flat_to_npc(v0.astype(g.dtype) if not np.iscomplexobj(v0) else v0))
            k2['v0_npc'] = g
        else:
            k2['v0'] = ws[0].to_ndarray() + 0.3 * v0
        eta2, ws2 = op.eigenvectors(**k2)
        out['second'] = pack(eta2, ws2)
    except scipy.sparse.linalg.ArpackNoConvergence as e:
        out['arpack_noconv'] = str(e)[:100]
    except Exception as e:
        out['eig_error'] = type(e).__name__ + ': ' + str(e)[:200]
        out['tb'] = traceback.format_exc()[-800:]
    out['count'] = int(op.matvec_count)
    return out


# ------------------------------------------------------------------------------ lanczos_arpack
def run_arpack(case):
    import tenpy.linalg.np_conserved as npc
    from tenpy.linalg import krylov_based, sparse
    spec = case['spec']
    leg = make_leg(npc, spec['leg'])
    M = G.dense_operator(spec)
    opts = {k: v for k, v in case['opts'].items() if v is not None}
    if case['mode'] == 'vector':
        H = npc_op(npc, M, leg)
        if case.get('wrap_shift') is not None:
            Hn = H

            class Shifted(sparse.ShiftNpcLinearOperator):
                dtype = Hn.dtype
            H = Shifted(Hn, case['wrap_shift'])
        v0 = G.start_vector(spec, M)
        psi = npc_vec(npc, v0 if spec['cplx'] else v0.real, leg, spec)
        try:
            if case.get('no_options'):
                E, psi0 = krylov_based.lanczos_arpack(H, psi)
            else:
                E, psi0 = krylov_based.lanczos_arpack(H, psi, dict(opts))
        except Exception as e:
            r = err(e)
            r['tb'] = traceback.format_exc()[-800:]
            return r
        return {'E': float(np.real(E)), 'E_imag': float(np.imag(E)), 'psi': vec_out(psi0), 'labels': list(psi0.get_leg_labels()),
                'qtotal_ok': bool(np.all(psi0.qtotal == psi.qtotal)), 'psi_in_untouched': bool(np.array_equal(psi.to_ndarray(), v0 if spec['cplx'] else v0.real))}
    # two-leg "vector" theta[a, b];  H = MA (x) 1 + 1 (x) MB
    spec2 = case['spec2']
    MB = G.dense_operator(spec2)
    legB = make_leg(npc, spec2['leg'])
    HA = npc_op(npc, M, leg).iset_leg_labels(['a', 'a*'])
    HB = npc_op(npc, MB, legB).iset_leg_labels(['b', 'b*'])
    guess = np.outer(G.start_vector(spec, M), G.start_vector(spec2, MB))
    if not (spec['cplx'] or spec2['cplx']):
        guess = guess.real
    order = case['label_order']
    theta = npc.Array.from_ndarray(guess, [leg, legB], labels=['a', 'b'], cutoff=0.)
    theta = theta.transpose(order)

    class TwoSite:
        dtype = np.result_type(HA.dtype, HB.dtype)

        def matvec(self, th):
            labels = th.get_leg_labels()
            r1 = npc.tensordot(HA, th, axes=['a*', 'a'])
            r2 = npc.tensordot(HB, th, axes=['b*', 'b']).itranspose(r1.get_leg_labels())
            return (r1 + r2).itranspose(labels)
    try:
        if case.get('no_options'):
            E, psi0 = krylov_based.lanczos_arpack(TwoSite(), theta)
        else:
            E, psi0 = krylov_based.lanczos_arpack(TwoSite(), theta, dict(opts))
    except Exception as e:
        r = err(e)
        r['tb'] = traceback.format_exc()[-800:]
        return r
    return {'E': float(np.real(E)), 'E_imag': float(np.imag(E)), 'labels': list(psi0.get_leg_labels()),
            'psi': G.enc(psi0.transpose(['a', 'b']).to_ndarray()), 'qtotal_ok': bool(np.all(psi0.qtotal == theta.qtotal)),
            'guess': G.enc(guess)}
