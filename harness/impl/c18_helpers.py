"""Helpers of harness/impl/c18_impl.py: fault-injecting file-system layer, a resumable dummy algorithm,
checkpoint listeners.  Importable by name (tenpy resolves listeners/classes through module names)."""
import builtins
import hashlib
import os
import pathlib

from tenpy.algorithms.algorithm import Algorithm
from tenpy.tools import hdf5_io


class SimulatedCrash(BaseException):
    """The process dies here.  BaseException: must not be swallowed by `except Exception`."""


class SimulatedInterrupt(BaseException):
    """Raised by a checkpoint listener (after the save of that checkpoint)."""


# --------------------------------------------------------------------------------------------
# originals (never patched versions) for the harness' own file handling
# --------------------------------------------------------------------------------------------
_o_rename, _o_replace, _o_unlink, _o_remove = os.rename, os.replace, os.unlink, os.remove
_o_path_exists = os.path.exists
_o_Path_exists = pathlib.Path.exists
_o_Path_open = pathlib.Path.open
_o_save = hdf5_io.save
_o_open = builtins.open


class FaultFS:
    """Traces the primitive path operations on the files of one simulation directory and kills the
    'process' (raises SimulatedCrash) before primitive step number `crash_at`; if that step is a
    write and `partial` is not None, the first `partial` (fraction in [0,1] or int bytes) bytes of the
    file that would have been written are left on disk (crash inside the write).

    ops: ['E', name, bool] exists, ['U', name] unlink, ['R', src, dst] rename/replace,
         ['W', name, k] complete write of checkpoint k, ['M', name] text marker written.
    """

    def __init__(self, directory, names, ckpt_of, crash_at=None, partial=None):
        self.dir = os.path.realpath(str(directory))
        self.names = names              # {'data.pkl': 'out', 'data.backup.pkl': 'bak'}
        self.ckpt_of = ckpt_of          # results dict -> checkpoint number
        self.crash_at = crash_at
        self.partial = partial
        self.ops = []
        self.partials = {}              # sha1 of content -> k   (provenance of partial files)
        self.crashed = False
        self.wsizes = {}                # op index of a completed write -> number of bytes
        self._saved = None

    # -- naming
    def name(self, p):
        try:
            p = os.fspath(p)
        except TypeError:
            return None
        if isinstance(p, bytes):
            return None
        ap = os.path.realpath(os.path.join(os.getcwd(), p))
        if os.path.dirname(ap) != self.dir:
            return None
        b = os.path.basename(ap)
        if b.endswith('.log') or b.startswith('.c18tmp'):
            return None
        return self.names.get(b, b)

    def _step(self, op):
        """Called before performing `op`.  Returns normally if the op may be performed."""
        idx = len(self.ops)
        if self.crash_at is not None and idx == self.crash_at and not self.crashed:
            self.crashed = True
            return True
        self.ops.append(op)
        return False

    # -- patched primitives
    def install(self):
        fs = self

        def p_exists(path, *a, **kw):
            n = fs.name(path)
            r = _o_path_exists(path)
            if n is not None and not fs.crashed:
                if fs._step(['E', n, bool(r)]):
                    raise SimulatedCrash('before exists(%s)' % n)
            return r

        def P_exists(self, *a, **kw):
            n = fs.name(self)
            r = _o_Path_exists(self, *a, **kw)
            if n is not None and not fs.crashed:
                if fs._step(['E', n, bool(r)]):
                    raise SimulatedCrash('before exists(%s)' % n)
            return r

        def mk_rename(orig):
            def f(src, dst, *a, **kw):
                ns, nd = fs.name(src), fs.name(dst)
                if (ns is not None or nd is not None) and not fs.crashed:
                    if fs._step(['R', ns, nd]):
                        raise SimulatedCrash('before rename(%s,%s)' % (ns, nd))
                return orig(src, dst, *a, **kw)
            return f

        def mk_unlink(orig):
            def f(path, *a, **kw):
                n = fs.name(path)
                if n is not None and not fs.crashed:
                    if fs._step(['U', n]):
                        raise SimulatedCrash('before unlink(%s)' % n)
                return orig(path, *a, **kw)
            return f

        def P_open(self, mode='r', *a, **kw):
            n = fs.name(self)
            if n is not None and not fs.crashed and any(c in mode for c in 'wax+'):
                if fs._step(['M', n]):
                    raise SimulatedCrash('before marker(%s)' % n)
            return _o_Path_open(self, mode, *a, **kw)

        def save(data, filename, mode='w'):
            n = fs.name(filename)
            if n is None or fs.crashed:
                return _o_save(data, filename, mode)
            k = fs.ckpt_of(data)
            ext = os.path.splitext(str(filename))[1]
            tmp = os.path.join(fs.dir, '.c18tmp' + ext)
            widx = len(fs.ops)
            crash = fs._step(['W', n, k])
            if crash and fs.partial is None:
                raise SimulatedCrash('before write(%s)' % n)
            _o_save(data, tmp, 'w')
            with _o_open(tmp, 'rb') as f:
                content = f.read()
            _o_unlink(tmp)
            if not crash:
                fs.wsizes[widx] = len(content)
            if crash:
                nb = fs.partial if isinstance(fs.partial, int) else int(round(fs.partial * len(content)))
                nb = max(0, min(len(content) - 1, nb))
                content = content[:nb]
                fs.partials[hashlib.sha1(content).hexdigest()] = k
            with _o_open(str(filename), 'wb') as f:   # truncates an existing file, as open(.., 'wb') / h5py 'w' do
                f.write(content)
            if crash:
                raise SimulatedCrash('inside write(%s) after %d bytes' % (n, len(content)))

        self._saved = (os.rename, os.replace, os.unlink, os.remove, os.path.exists, pathlib.Path.exists,
                       pathlib.Path.open, hdf5_io.save)
        os.rename = mk_rename(_o_rename)
        os.replace = mk_rename(_o_replace)
        os.unlink = mk_unlink(_o_unlink)
        os.remove = mk_unlink(_o_remove)
        os.path.exists = p_exists
        pathlib.Path.exists = P_exists
        pathlib.Path.open = P_open
        hdf5_io.save = save
        return self

    def uninstall(self):
        (os.rename, os.replace, os.unlink, os.remove, os.path.exists, pathlib.Path.exists,
         pathlib.Path.open, hdf5_io.save) = self._saved

    def __enter__(self):
        return self.install()

    def __exit__(self, *a):
        self.uninstall()
        return False


def classify(path, ckpt_of, partials):
    """What is on disk at `path`: ['A'] | ['M'] | ['C', k] | ['P', k or -1]."""
    if not _o_path_exists(path):
        return ['A'], None
    with _o_open(path, 'rb') as f:
        content = f.read()
    if content.startswith(b'simulation initialized on'):
        return ['M'], None
    try:
        data = hdf5_io.load(path)
        k = ckpt_of(data)
        return ['C', int(k)], data
    except BaseException:
        return ['P', int(partials.get(hashlib.sha1(content).hexdigest(), -1))], None


# --------------------------------------------------------------------------------------------
# a cheap resumable algorithm: `N_steps` steps with a checkpoint after each
# --------------------------------------------------------------------------------------------

class C18StepAlgorithm(Algorithm):
    def __init__(self, psi, model, options, *, resume_data=None, cache=None):
        super().__init__(psi, model, options, resume_data=resume_data, cache=cache)
        self.step = 0
        if self.resume_data:
            self.step = self.resume_data['step']
        self.N_steps = self.options.get('N_steps', 3)

    def run(self):
        while self.step < self.N_steps:
            self.step += 1
            self.checkpoint.emit(self)
        return None, self.psi

    def get_resume_data(self, sequential_simulations=False):
        data = super().get_resume_data(sequential_simulations)
        data['step'] = self.step
        return data


def m_step(results, psi, model, simulation):
    results['step'] = simulation.engine.step


def m_sweeps(results, psi, model, simulation):
    results['sweeps'] = int(simulation.engine.sweeps)


# --------------------------------------------------------------------------------------------
# checkpoint listeners (connected by name through `connect_algorithm_checkpoint`)
# --------------------------------------------------------------------------------------------
_counter = {'n': 0}


def reset_counter():
    _counter['n'] = 0


def interrupt_at_checkpoint(algorithm, at):
    """Raise at the `at`-th (1-based) checkpoint of this process; connected with priority below
    save_at_checkpoint's -100, i.e. called after the save."""
    _counter['n'] += 1
    if _counter['n'] == at:
        raise SimulatedInterrupt('at checkpoint %d' % at)


def count_checkpoints(algorithm):
    _counter['n'] += 1


# --------------------------------------------------------------------------------------------
# observation-only instrumentation of the Simulation class (no change of behaviour): what
# group_sites_for_algorithm / group_split did to psi.grouped and to the model, how many records the
# results held at each COMPLETED save_results call, and the simulation object itself (final psi also
# when save_psi=False).  A deterministic clock for `save_every_x_seconds`.
# --------------------------------------------------------------------------------------------
OBS = {'group': [], 'saves': [], 'sim': None, 'sweeps': [], 'engine_init': []}


def reset_obs():
    OBS['group'], OBS['saves'], OBS['sim'], OBS['sweeps'], OBS['engine_init'] = [], [], None, [], []


def counters_of(holder):
    """The counters an algorithm carries across a resume, read from an engine or from a resume_data dictionary
    (same keys): evolved_time, sweeps, trunc_err as [eps, ov], number of entries of sweep_stats.  Missing -> absent."""
    get = (lambda k: holder.get(k, _MISSING)) if isinstance(holder, dict) else (lambda k: getattr(holder, k, _MISSING))
    out = {}
    v = get('evolved_time')
    if v is not _MISSING:
        out['evolved_time'] = [float(v.real), float(v.imag)]      # float | complex
    v = get('sweeps')
    if v is not _MISSING:
        out['sweeps'] = int(v)
    v = get('trunc_err')
    if v is not _MISSING and v is not None:
        out['trunc_err'] = [float(v.eps), float(v.ov)]
    v = get('sweep_stats')
    if v is not _MISSING and v is not None:
        out['n_sweep_stats'] = sorted(set(len(x) for x in v.values())) if len(v) else []
    return out


_MISSING = object()


def _n_records(sim):
    m = sim.results.get('measurements') or {}
    return max([len(v) for v in m.values()] + [0])


def instrument():
    from tenpy.simulations.simulation import Simulation
    if getattr(Simulation, '_c18_instrumented', False):
        return
    o_group, o_split, o_save = Simulation.group_sites_for_algorithm, Simulation.group_split, Simulation.save_results
    o_init_alg = Simulation.init_algorithm

    def init_algorithm(self, **kwargs):
        # the counters of the engine right after it was (re-)created, before run_algorithm / resume_run_algorithm
        r = o_init_alg(self, **kwargs)
        ev = counters_of(self.engine)
        ev['n_records'] = _n_records(self)
        ev['loaded'] = bool(self.loaded_from_checkpoint)
        OBS['engine_init'].append(ev)
        return r

    def group_sites_for_algorithm(self):
        OBS['sim'] = self
        ev = {'what': 'enter', 'loaded': bool(self.loaded_from_checkpoint), 'before': int(self.psi.grouped),
              'L_model': int(self.model.lat.N_sites), 'L_psi': int(self.psi.L)}
        try:
            return o_group(self)
        finally:
            ev.update(gs=int(getattr(self, 'grouped', -1)), after=int(self.psi.grouped),
                      L_model_after=int(self.model.lat.N_sites), L_psi_after=int(self.psi.L))
            OBS['group'].append(ev)

    def group_split(self):
        ev = {'what': 'split', 'gs': int(self.grouped), 'before': int(self.psi.grouped)}
        try:
            return o_split(self)
        finally:
            ev.update(after=int(self.psi.grouped), sim_grouped=int(self.grouped), L_model_after=int(self.model.lat.N_sites),
                      L_psi_after=int(self.psi.L))
            OBS['group'].append(ev)

    def save_results(self, results=None):
        r = o_save(self, results)
        OBS['saves'].append(_n_records(self) if results is None else -1)
        return r

    Simulation.group_sites_for_algorithm = group_sites_for_algorithm
    Simulation.group_split = group_split
    Simulation.save_results = save_results
    Simulation.init_algorithm = init_algorithm
    Simulation._c18_instrumented = True

    # the state of the DMRG engine that an optimizing sweep starts from: [sweeps done so far, [class, amplitude] of the
    # active mixer | None (no mixer), number of entries of sweep_stats]
    from tenpy.algorithms.dmrg import DMRGEngine
    o_sweep = DMRGEngine.sweep

    def sweep(self, optimize=True, meas_E_trunc=False):
        if optimize:
            mx = getattr(self, 'mixer', None)
            amp = None if mx is None else getattr(mx, 'amplitude', None)
            OBS['sweeps'].append([int(self.sweeps), None if mx is None else [type(mx).__name__, None if amp is None else float(amp)],
                                  len(self.sweep_stats.get('E', []))])
        return o_sweep(self, optimize, meas_E_trunc)

    DMRGEngine.sweep = sweep


class FakeClock:
    """Stands in for the module `time` inside tenpy.simulations.simulation: every call of time() advances
    the clock by `tick` seconds, so that `save_every_x_seconds` > 0 selects a deterministic subset of the
    checkpoints (and exercises the adaptive increase of the option)."""

    def __init__(self, tick):
        import time as _time
        self._time, self.tick, self.t = _time, float(tick), 1000.

    def reset(self):
        self.t = 1000.

    def time(self):
        self.t += self.tick
        return self.t

    def __getattr__(self, name):
        return getattr(self._time, name)


def install_clock(tick):
    import tenpy.simulations.simulation as S
    if not isinstance(S.time, FakeClock):
        S.time = FakeClock(tick)
    S.time.tick = float(tick)
    S.time.reset()
    return S.time
