"""Runs tenpy.models.lattice on the lattice specifications of harness/c19.py (fresh interpreter).

Pure data plumbing: builds the lattice described by a spec, calls the public methods and dumps
their raw results as JSON.  No checking is done here.

Besides the results the runner reports the set of source lines of tenpy/models/lattice.py that were executed
(sys.monitoring LINE events, each location disabled after its first hit), from which harness/c19_audit.py builds the
coverage table function x branch.
"""
import json
import os
import sys
import traceback
import warnings

import numpy as np

warnings.simplefilter('ignore')

TARGET = os.sep.join(['tenpy', 'models', 'lattice.py'])
HIT = set()


def start_monitor():
    mon = getattr(sys, 'monitoring', None)
    if mon is not None:
        tid = mon.COVERAGE_ID
        try:
            mon.use_tool_id(tid, 'c19cov')
        except ValueError:
            return 'unavailable'

        def cb(code, line):
            if code.co_filename.endswith(TARGET):
                HIT.add(line)
            return mon.DISABLE
        mon.register_callback(tid, mon.events.LINE, cb)
        mon.set_events(tid, mon.events.LINE)
        return 'sys.monitoring'

    def tracer(frame, event, arg):
        if not frame.f_code.co_filename.endswith(TARGET):
            return None

        def local(frame, event, arg):
            if event == 'line':
                HIT.add(frame.f_lineno)
            return local
        HIT.add(frame.f_lineno)
        return local
    sys.settrace(tracer)
    return 'sys.settrace'


def tolist(a):
    return np.asarray(a).astype(int).tolist()


def flist(a):
    return np.asarray(a, dtype=float).tolist()


def conv_order(o):
    if isinstance(o, str):
        return o
    o = list(o)
    if o[0] == 'standard':
        return ('standard', tuple(bool(b) for b in o[1]), None if o[2] is None else tuple(o[2]))
    if o[0] == 'grouped':
        return ('grouped', [tuple(g) for g in o[1]]) + ((tuple(o[2]),) if len(o) > 2 and o[2] is not None else ())
    raise ValueError(o)


def label(s):
    """printable identity of an entry of the unit cell (strings for plain lattices, Site objects by local dimension)"""
    if s is None or isinstance(s, str):
        return s
    return 'dim%d' % s.dim


def labels(sites):
    return [label(s) for s in sites]


BASE_INFO = {}
BASE_AFTER = {}
PROBES = {}


def lat_state(lat):
    st = {'Ls': [int(x) for x in lat.Ls], 'N_sites': int(lat.N_sites), 'order': tolist(lat.order), 'bc_MPS': lat.bc_MPS,
          'boundary_conditions': [b if isinstance(b, str) else int(b) for b in lat.boundary_conditions]}
    try:
        st['mps_sites'] = labels(lat.mps_sites())
    except Exception as e:
        st['mps_sites'] = {'error': type(e).__name__ + ': ' + str(e)[:200]}
    return st


def build(spec):
    """the lattice of spec, with the order change spec['reorder'] and the lattice-transforming method of spec['transform'] applied"""
    PROBES.clear()
    BASE_INFO.clear()
    BASE_AFTER.clear()
    lat = build_base(spec)
    opts = spec.get('opts') or {}
    if opts.get('bc_roundtrip'):
        lat.boundary_conditions = lat.boundary_conditions      # getter -> setter
    ro = spec.get('reorder')
    if ro is not None:
        # use the lattice first (fills every cache), then give it another order through the property setter
        PROBES['pre_reorder_sites'] = labels(lat.mps_sites())
        lat.mps2lat_idx(0)
        lat.lat2mps_idx(lat.order[-1])
        lat.possible_couplings(0, 0, np.ones(lat.dim, dtype=np.intp))
        lat.order = lat.ordering(conv_order(ro))
    tr = spec.get('transform')
    if not tr:
        return lat
    # state before the transform (input of the model of the transform)
    BASE_INFO.update(lat_state(lat))       # (calls mps_sites(): the transform starts from a lattice that has been used)
    reg = getattr(lat, 'regular_lattice', None)
    if reg is not None:
        BASE_INFO.update({'reg_N_cells': int(reg.N_cells), 'reg_order': tolist(reg.order)})
    if tr['op'] == 'enlarge':
        if tr.get('factor') is None:
            lat.enlarge_mps_unit_cell()               # default factor=2
        else:
            lat.enlarge_mps_unit_cell(tr['factor'])       # in place
        return lat
    if tr['op'] == 'segment':
        if tr.get('enlarge') is not None:
            seg = lat.extract_segment(enlarge=tr['enlarge'])
        elif tr.get('last') is None:
            seg = lat.extract_segment() if not tr.get('first') else lat.extract_segment(tr['first'])
        else:
            seg = lat.extract_segment(tr['first'], tr['last'])
        BASE_AFTER.update(lat_state(lat))            # extract_segment returns a copy: `lat` itself stays as it was
        return seg
    raise ValueError(tr)


def species_sites(n):
    """distinguishable sites: species k has local dimension k + 2"""
    from tenpy.networks import site as tsite
    return [tsite.SpinSite(S=0.5 * (k + 1), conserve=None) for k in range(n)]


def build_base(spec, simple_only=False):
    from tenpy.models import lattice
    cls = spec['cls']
    wrap = spec.get('wrap')
    opts = spec.get('opts') or {}
    kw = {'bc': [b for b in spec['bc']] if not isinstance(spec['bc'], str) else spec['bc'],
          'bc_MPS': spec['bc_MPS']}
    ms_or_simple_order = conv_order(spec['order'])
    if not (wrap and wrap['kind'] == 'multi'):
        kw['order'] = ms_or_simple_order
    Lu = spec['Lu']
    if wrap and wrap['kind'] == 'helical':
        uc = species_sites(Lu)            # (HelicalLattice reads unit_cell[0].leg: needs Site instances)
    else:
        uc = ['u%d' % u for u in range(Lu)]         # distinguishable entries of the unit cell
    Ls = spec['Ls']
    geom = spec.get('geom')
    if opts.get('sites_none') and cls in ('Ladder', 'NLegLadder', 'Honeycomb', 'Kagome') and not (wrap and wrap['kind'] == 'helical'):
        uc = None                 # a single entry (here None) instead of a list: used for every site of the unit cell
    if geom and cls in ('Chain', 'Square', 'Triangular'):
        kw['positions'] = list(geom['positions'])            # "positions can be specified as a single vector"
        if geom.get('basis'):
            kw['basis'] = np.array(geom['basis'], dtype=float)
    if cls == 'Chain':
        lat = lattice.Chain(Ls[0], uc[0], **kw)
    elif cls == 'Ladder':
        lat = lattice.Ladder(Ls[0], uc, **kw)
    elif cls == 'NLegLadder':
        lat = lattice.NLegLadder(Ls[0], Lu, uc, **kw)
    elif cls in ('Square', 'Triangular'):
        lat = getattr(lattice, cls)(Ls[0], Ls[1], uc[0], **kw)
    elif cls in ('Honeycomb', 'Kagome'):
        lat = getattr(lattice, cls)(Ls[0], Ls[1], uc, **kw)
    elif cls == 'Lattice':
        if geom:
            kw['basis'] = np.array(geom['basis'], dtype=float)
            kw['positions'] = np.array(geom['positions'], dtype=float)
        lat = lattice.Lattice(Ls, uc, **kw)
    elif cls == 'Trivial':
        lat = lattice.TrivialLattice(uc, **kw)
    else:
        raise ValueError(cls)
    if opts.get('disorder_seed') is not None:
        rs = np.random.RandomState(opts['disorder_seed'])
        lat.position_disorder = 0.1 * rs.random_sample(tuple(lat.shape) + (lat.basis.shape[-1],))
        lat.test_sanity()
    if spec.get('custom_perm') is not None and not (wrap and wrap['kind'] == 'multi'):
        lat.mps_sites()             # (fill the cache before the order changes)
        lat.order = lat.order[np.array(spec['custom_perm'], dtype=np.intp)]
    if wrap is None or simple_only:
        return lat
    if wrap['kind'] == 'multi':
        ms = lattice.MultiSpeciesLattice(lat, species_sites(wrap['n_species']), wrap.get('names'))
        ms.mps_sites()
        ms.order = ms.ordering(ms_or_simple_order)
        if spec.get('custom_perm') is not None:
            ms.order = ms.order[np.array(spec['custom_perm'], dtype=np.intp)]
        return ms
    if wrap['kind'] == 'irregular':
        add = None
        if wrap.get('add'):
            add = (np.array(wrap['add'][0], dtype=np.intp), list(wrap['add'][1]))
        rem = wrap.get('remove') or None
        nuc = wrap.get('n_add_uc', 0)
        # (the default add_positions assumes dim == Dim, which fails for the ladders: give them explicitly)
        return lattice.IrregularLattice(lat, remove=rem, add=add, add_unit_cell=['a%d' % k for k in range(nuc)],
                                        add_positions=np.zeros((nuc, lat.unit_cell_positions.shape[1])))
    if wrap['kind'] == 'helical':
        return lattice.HelicalLattice(lat, wrap['N_unit_cells'])
    raise ValueError(wrap)


def snapshot(lat):
    """everything the queries must leave untouched"""
    s = {'order': tolist(lat.order), 'Ls': [int(x) for x in lat.Ls], 'shape': [int(x) for x in lat.shape],
         'N_sites': int(lat.N_sites), 'N_cells': int(lat.N_cells), 'bc': [bool(b) for b in lat.bc],
         'bc_shift': None if lat.bc_shift is None else tolist(lat.bc_shift), 'bc_MPS': lat.bc_MPS,
         'perm': tolist(lat._perm), 'fix_u': [tolist(a) for a in lat._mps_fix_u], 'strides': tolist(lat._strides),
         'pairs': {k: [[int(u1), int(u2), tolist(dx)] for (u1, u2, dx) in v] for k, v in lat.pairs.items()},
         'uc_pos': flist(lat.unit_cell_positions), 'basis': flist(lat.basis)}
    for name in ('_mps2lat_vals_idx',):
        if hasattr(lat, name):
            s[name] = tolist(getattr(lat, name))
    if hasattr(lat, '_mps2lat_vals_idx_fix_u'):
        s['vals_idx_fix_u'] = [tolist(a) for a in lat._mps2lat_vals_idx_fix_u]
    reg = getattr(lat, 'regular_lattice', None)
    if reg is not None:
        s['reg_order'] = tolist(reg.order)
        s['reg_perm'] = tolist(reg._perm)
    return s


def strength_for(k, sh):
    """three forms of the `strength` argument, by query number: full array / array with zeros / scalar"""
    n = int(np.prod(sh))
    if k % 3 == 0:
        return np.arange(1, n + 1).reshape(sh).astype(float)
    if k % 3 == 1:
        return (np.arange(n) % 3).reshape(sh).astype(float)
    return 2.5


def run(spec):
    try:
        lat = build(spec)
    except Exception as e:
        return {'build_error': type(e).__name__ + ': ' + str(e)[:200], 'tb': traceback.format_exc()[-600:]}
    q = spec['queries']
    out = {}
    if spec.get('geom') and spec['cls'] == 'Lattice':
        # documented use of find_coupling_pairs: its shells become the pairs of the lattice
        try:
            fp = lat.find_coupling_pairs(2, None)
            for name, key in zip(['nearest_neighbors', 'next_nearest_neighbors', 'next_next_nearest_neighbors'], sorted(fp)):
                lat.pairs[name] = fp[key]
        except Exception as e:
            return {'build_error': 'find_coupling_pairs: ' + type(e).__name__ + ': ' + str(e)[:200], 'tb': traceback.format_exc()[-600:]}
    if spec.get('transform'):
        out['base'] = dict(BASE_INFO)
        if BASE_AFTER:
            out['base_after'] = dict(BASE_AFTER)
    out['probes'] = dict(PROBES)
    helical = bool(spec.get('wrap')) and spec['wrap']['kind'] == 'helical'
    out['Ls'] = [int(x) for x in lat.Ls]
    out['shape'] = [int(x) for x in lat.shape]
    out['N_sites'] = int(lat.N_sites)
    out['N_cells'] = int(lat.N_cells)
    out['bc_open'] = [bool(b) for b in lat.bc]
    out['bc_shift'] = None if lat.bc_shift is None else tolist(lat.bc_shift)
    out['bc_MPS'] = lat.bc_MPS
    out['boundary_conditions'] = [b if isinstance(b, str) else int(b) for b in lat.boundary_conditions]
    out['order'] = tolist(lat.order)
    out['dim'] = int(lat.dim)

    def guarded(name, f, dest=None):
        dest = out if dest is None else dest
        try:
            dest[name] = f()
        except Exception as e:
            dest[name] = {'error': type(e).__name__ + ': ' + str(e)[:200]}

    guarded('snap0', lambda: snapshot(lat))
    # the sites of the MPS (cache filled before build() changed the order / enlarged the unit cell)
    guarded('uc_labels', lambda: labels(lat.unit_cell))
    N = int(lat.N_sites)
    guarded('site_i', lambda: [[i, label(lat.site(i))] for i in sorted(set([0, N - 1, N // 2, -1]))])
    guarded('mps_sites', lambda: labels(lat.mps_sites()))

    # named orderings evaluated on this lattice (ordering() does not change the lattice)
    def named():
        res = []
        for o in q.get('orderings', []):
            try:
                res.append(tolist(lat.ordering(conv_order(o))))
            except Exception as e:
                res.append({'error': type(e).__name__ + ': ' + str(e)[:200]})
        return res
    perm_before = np.array(lat._perm).copy()
    guarded('orderings', named)
    if not np.array_equal(perm_before, np.asarray(lat._perm)):
        # ordering() is a query; when it leaves the lattice in another state this is reported, and the state put back so
        # that the remaining queries are those of the lattice as specified
        out['ordering_changed_perm'] = [tolist(perm_before), tolist(lat._perm)]
        lat._perm = perm_before
    # index maps, one call with the whole array and one call per element; every returned array is overwritten afterwards
    # (the results must be independent copies)
    step_m = max(1, len(q['mps_idx']) // 6)
    step_l = max(1, len(q['lat_idx']) // 6)

    def m2l_array():
        if not q['mps_idx']:
            return []
        r = lat.mps2lat_idx(np.array(q['mps_idx'], dtype=np.intp))
        v = tolist(r)
        r[...] = -77
        return v

    def m2l_single():
        res = []
        for i in q['mps_idx'][::step_m]:
            r = lat.mps2lat_idx(int(i))
            res.append(tolist(r))
            r += 1000
            r[...] = -77
        return res

    def l2m_array():
        if not q['lat_idx']:
            return []
        arg = np.array(q['lat_idx'], dtype=np.intp)
        arg0 = arg.copy()
        r = lat.lat2mps_idx(arg)
        v = tolist(r)
        out['l2m_arg_changed'] = not np.array_equal(arg, arg0)
        r[...] = -77
        return v
    guarded('mps2lat', m2l_array)
    guarded('mps2lat_single', m2l_single)
    guarded('lat2mps', l2m_array)
    guarded('lat2mps_single', lambda: [int(lat.lat2mps_idx(x)) for x in q['lat_idx'][::step_l]])
    guarded('fix_u', lambda: [tolist(lat.mps_idx_fix_u(u)) for u in range(len(lat.unit_cell))])
    guarded('fix_u_none', lambda: tolist(lat.mps_idx_fix_u(None)))
    guarded('lat_fix_u', lambda: [[tolist(a) for a in lat.mps_lat_idx_fix_u(u)] for u in range(len(lat.unit_cell))])

    # ---- other argument forms of the index maps, results fed into the inverse map
    ex = {}
    mi = list(q['mps_idx'])

    def forms_m2l():
        r = {}
        r['list'] = tolist(lat.mps2lat_idx(list(mi)))
        h = len(mi) // 2
        r['2d'] = tolist(lat.mps2lat_idx(np.array(mi[:2 * h], dtype=np.intp).reshape(2, h))) if h else []
        r['npint'] = [tolist(lat.mps2lat_idx(np.int64(i))) for i in mi[::step_m]]
        return r

    def forms_l2m():
        r = {}
        li = q['lat_idx']
        r['tuple'] = [int(lat.lat2mps_idx(tuple(x))) for x in li[::step_l]]
        h = len(li) // 2
        r['3d'] = tolist(lat.lat2mps_idx(np.array(li[:2 * h], dtype=np.intp).reshape(2, h, -1))) if h else []
        r['nested_list'] = tolist(lat.lat2mps_idx([list(x) for x in li[:7]]))
        return r

    def roundtrip():
        a = lat.mps2lat_idx(np.array(mi, dtype=np.intp))
        b = lat.lat2mps_idx(a)                           # the returned array itself as argument of the inverse
        c = lat.mps2lat_idx(b)
        return {'l2m_of_m2l': tolist(b), 'm2l_again': tolist(c)}
    guarded('forms_m2l', forms_m2l, ex)
    guarded('forms_l2m', forms_l2m, ex)
    if mi:
        guarded('roundtrip', roundtrip, ex)
    guarded('fix_u_default', lambda: tolist(lat.mps_idx_fix_u()), ex)
    guarded('lat_fix_u_none', lambda: [tolist(a) for a in lat.mps_lat_idx_fix_u()], ex)

    # couplings
    cps = []
    for k, (u1, u2, dx) in enumerate(q.get('couplings', [])):
        try:
            dxa = np.array(dx, dtype=np.intp) if k % 4 else list(dx)         # array and plain list
            i, j, li, sh = lat.possible_couplings(u1, u2, dxa)
            r = {'i': tolist(i), 'j': tolist(j), 'lat': tolist(li) if len(li) else [], 'shape': [int(x) for x in sh]}
            cs, _sft = lat.coupling_shape(dxa)
            r['cshape'] = [int(x) for x in cs]
            r['cshift'] = tolist(_sft)
            if any(x == 0 for x in sh) and not helical:
                i2, j2, sv = lat.possible_couplings(u1, u2, np.array(dx, dtype=np.intp), 2.5)
                r['spat'] = 2
                r['s_i'] = tolist(i2)
                r['s_j'] = tolist(j2)
                r['s_v'] = flist(sv)
            if all(x > 0 for x in sh) and (not helical or k % 3 == 2):
                strength = strength_for(k, sh)
                i2, j2, sv = lat.possible_couplings(u1, u2, np.array(dx, dtype=np.intp), strength)
                r['spat'] = k % 3
                r['s_i'] = tolist(i2)
                r['s_j'] = tolist(j2)
                r['s_v'] = flist(sv)
        except Exception as e:
            r = {'error': type(e).__name__ + ': ' + str(e)[:200]}
        cps.append(r)
    out['couplings'] = cps
    mcs = []
    for k, ops in enumerate(q.get('multi', [])):
        try:
            o = [('X', list(dx), int(u)) for (dx, u) in ops]
            ijkl, li, sh = lat.possible_multi_couplings(o)
            r = {'ijkl': tolist(ijkl) if len(ijkl) else [], 'lat': tolist(li) if len(li) else [],
                 'shape': [int(x) for x in sh]}
            ms, msft = lat.multi_coupling_shape(np.array([dx for dx, _ in ops], dtype=np.intp))
            r['mshape'] = [int(x) for x in ms]
            r['mshift'] = tolist(msft)
            if any(x == 0 for x in sh) and not helical:
                ijkl2, sv = lat.possible_multi_couplings(o, 2.5)
                r['spat'] = 2
                r['s_ijkl'] = tolist(ijkl2) if len(ijkl2) else []
                r['s_v'] = flist(sv)
            if all(x > 0 for x in sh) and (not helical or k % 3 == 2):
                strength = strength_for(k, sh)
                ijkl2, sv = lat.possible_multi_couplings(o, strength)
                r['spat'] = k % 3
                r['s_ijkl'] = tolist(ijkl2) if len(ijkl2) else []
                r['s_v'] = flist(sv)
        except Exception as e:
            r = {'error': type(e).__name__ + ': ' + str(e)[:200]}
        mcs.append(r)
    out['multi'] = mcs

    # reshaping of per-site values
    def vals():
        A = np.arange(N) + 1000
        return tolist(lat.mps2lat_values(A))
    guarded('values', vals)

    def vals2():
        A = (np.arange(N)[:, None, None] * 10000 + np.arange(2)[None, :, None] * 1000000 + np.arange(N)[None, None, :])
        return tolist(lat.mps2lat_values(A, axes=[-1, 0]))
    if q.get('values2'):
        guarded('values2', vals2)

    def vals_u():
        res = []
        for u in range(len(lat.unit_cell)):
            mu = lat.mps_idx_fix_u(u)
            A = (np.arange(N) + 1000)[mu]
            res.append(tolist(lat.mps2lat_values(A, u=u)))
        return res
    guarded('values_u', vals_u)

    def vals_forms():
        """single axis that is not the first one (positive, negative, as tuple), and u together with two axes"""
        r = {}
        A2 = np.arange(N)[:, None] * 10 + np.arange(3)[None, :]
        r['ax0'] = tolist(lat.mps2lat_values(A2, axes=(0,)))
        r['ax1'] = tolist(lat.mps2lat_values(A2.T, axes=1))              # (non-contiguous input)
        r['axm1'] = tolist(lat.mps2lat_values(np.ascontiguousarray(A2.T), axes=-1))
        Nc = int(lat.N_cells)
        if Nc <= 9:
            u = len(lat.unit_cell) - 1
            B = np.arange(Nc)[:, None] * 100 + np.arange(Nc)[None, :]
            r['u2'] = {'u': u, 'val': tolist(lat.mps2lat_values(B, axes=[0, 1], u=u))}
        return r
    if not helical and N <= 24:
        guarded('values_forms', vals_forms, ex)

    def vals_masked():
        res = []
        for inds in q.get('masked', []):
            inds = np.array(inds, dtype=np.intp)
            A = inds + 5000
            for incl in (None, True, False):
                m = lat.mps2lat_values_masked(A, axes=0, mps_inds=inds, include_u=incl)
                res.append({'inds': tolist(inds), 'incl': incl, 'shape': list(m.shape),
                            'data': tolist(np.ma.getdata(m)), 'mask': tolist(np.ma.getmaskarray(m))})
        return res
    guarded('values_masked', vals_masked)

    def masked_forms():
        """several axes with an untouched axis in between, lists of mps_inds / include_u; all defaults"""
        r = {}
        ms = q.get('masked', [])
        if len(ms) >= 2 and len(ms[0]) * len(ms[1]) <= 400:
            i1 = np.array(ms[0], dtype=np.intp)
            i2 = np.array(ms[1], dtype=np.intp)
            A = i1[:, None, None] * 1000 + np.arange(2)[None, :, None] * 500000 + (i2[None, None, :] + 100)
            var = q.get('masked_variant', 0)
            if var == 0:
                m = lat.mps2lat_values_masked(A, axes=[0, 2], mps_inds=[i1, i2], include_u=[True, False])
            elif var == 1:      # axes given in descending order, a negative one
                m = lat.mps2lat_values_masked(A, axes=[-1, 0], mps_inds=[i2, i1], include_u=[False, True])
            elif var == 2:
                m = lat.mps2lat_values_masked(A, axes=(0, 2), mps_inds=[i1, i2])
            else:               # several axes, mps_inds and include_u left at their defaults
                kk = min(N, 3)
                i1 = i2 = np.arange(kk)
                A = i1[:, None, None] * 1000 + np.arange(2)[None, :, None] * 500000 + (i2[None, None, :] + 100)
                m = lat.mps2lat_values_masked(A, axes=[0, 2])
            r['multi'] = {'var': var, 'shape': list(m.shape), 'data': tolist(np.ma.getdata(m)),
                          'mask': tolist(np.ma.getmaskarray(m))}
        k = min(N, 3)
        A = np.arange(k) + 7000
        m = lat.mps2lat_values_masked(A)                 # axes=-1, mps_inds=arange(k), include_u = (Lu > 1)
        r['default'] = {'k': k, 'shape': list(m.shape), 'data': tolist(np.ma.getdata(m)), 'mask': tolist(np.ma.getmaskarray(m))}
        A = np.arange(2 * k).reshape(2, k) + 8000
        m = lat.mps2lat_values_masked(A, axes=1, include_u=True)      # mps_inds default on the second axis
        r['default_ax1'] = {'k': k, 'shape': list(m.shape), 'data': tolist(np.ma.getdata(m)), 'mask': tolist(np.ma.getmaskarray(m))}
        return r
    guarded('masked_forms', masked_forms, ex)

    # MultiSpeciesLattice: the maps between its unit cell index, the one of the simple lattice and the species
    if spec.get('wrap') and spec['wrap']['kind'] == 'multi' and hasattr(lat, 'simple_u_to_species_u'):
        def species_maps():
            res = []
            for u in range(len(lat.unit_cell)):
                su, sp = lat.self_u_to_simple_u(u), lat.self_u_to_species_idx(u)
                res.append([u, int(su), int(sp), int(lat.simple_u_to_species_u(su, sp))])
            arr = np.arange(len(lat.unit_cell))
            return {'rows': res, 'arr': [tolist(lat.self_u_to_simple_u(arr)), tolist(lat.self_u_to_species_idx(arr))],
                    'N_species': int(lat.N_species), 'simple_Lu': int(lat.simple_Lu), 'names': list(lat.species_names),
                    'dims': [int(s.dim) for s in lat.unit_cell], 'uc_pos': flist(lat.unit_cell_positions),
                    'simple_uc_pos': flist(lat.simple_lattice.unit_cell_positions)}
        guarded('species_maps', species_maps, ex)

    def grouped():
        m = max(1, (N + 1) // 2)
        names = ['g%d' % k for k in range(m)]
        g = lat.with_grouped_sites(names)
        return {'cls': type(g).__name__, 'shape': [int(x) for x in g.shape], 'bc_MPS': g.bc_MPS, 'N_sites': int(g.N_sites),
                'order': tolist(g.order), 'sites': labels(g.mps_sites()), 'width': g.mps_unit_cell_width,
                'own_width': lat.mps_unit_cell_width, 'm2l': tolist(g.mps2lat_idx(np.arange(m))),
                'l2m': tolist(g.lat2mps_idx(g.order))}
    guarded('grouped', grouped, ex)

    # geometry
    def geom():
        g = {}
        g['pairs'] = {k: [[int(u1), int(u2), tolist(dx)] for (u1, u2, dx) in v] for k, v in lat.pairs.items()}
        g['basis'] = np.asarray(lat.basis, dtype=float).tolist()
        g['uc_pos'] = np.asarray(lat.unit_cell_positions, dtype=float).tolist()
        dis = lat.position_disorder
        lat.position_disorder = None
        g['pos_order'] = np.asarray(lat.position(lat.order), dtype=float).tolist()
        # other argument forms of position(): one index, indices outside the unit cell along x, a 3D index array
        far = np.array(lat.order[: 6]).copy()
        far[:, 0] += np.arange(len(far)) * 2 - 3
        g['pos_forms'] = {'one': [tolist(lat.order[-1]), flist(lat.position(lat.order[-1]))],
                          'far': [tolist(far), flist(lat.position(far))],
                          'list': flist(lat.position([list(map(int, r)) for r in lat.order[: 3]])),
                          '3d': flist(lat.position(np.array([far, far])))}

        def dist_or_none(u1, u2, dx):
            try:
                return float(lat.distance(u1, u2, np.asarray(dx)))
            except Exception:
                return None
        g['dist'] = {k: [dist_or_none(u1, u2, dx) for (u1, u2, dx) in v] for k, v in lat.pairs.items()}
        # a batch of displacements in one call
        g['dist_batch'] = {k: [flist(lat.distance(u1, u2, np.array([np.asarray(dx), -np.asarray(dx), 2 * np.asarray(dx)])))
                               for (u1, u2, dx) in v] for k, v in lat.pairs.items()}
        g['count'] = {k: [int(lat.count_neighbors(u, k)) for u in range(len(lat.unit_cell))] for k in lat.pairs}
        if 'nearest_neighbors' in lat.pairs:
            g['count_default'] = int(lat.count_neighbors())
        g['uc_dims'] = [None if (st is None or isinstance(st, str)) else int(st.dim) for st in lat.unit_cell]
        if spec.get('wrap') and spec['wrap']['kind'] == 'multi':
            # the simple lattice, built separately
            sl = build_base(spec, simple_only=True)
            g['simple'] = {'pairs': {k: [[int(u1), int(u2), tolist(dx)] for (u1, u2, dx) in v] for k, v in sl.pairs.items()},
                           'uc_pos': np.asarray(sl.unit_cell_positions, dtype=float).tolist()}
        # the couplings of every predefined pair
        pc = {}
        for k, v in lat.pairs.items():
            rows = []
            for (u1, u2, dx) in v:
                try:
                    i, j, li, sh = lat.possible_couplings(u1, u2, np.asarray(dx, dtype=np.intp))
                    rows.append({'i': tolist(i), 'j': tolist(j), 'lat': tolist(li) if len(li) else [], 'shape': [int(x) for x in sh]})
                except Exception as e:
                    rows.append({'error': type(e).__name__ + ': ' + str(e)[:200]})
            pc[k] = rows
        g['pair_couplings'] = pc
        if dis is not None:
            # positions and distances with position_disorder
            lat.position_disorder = dis
            d = {'disorder': flist(dis), 'pos_order': flist(lat.position(lat.order)),
                 'pos_far': flist(lat.position(far))}
            da = {}
            for k, v in lat.pairs.items():
                rows = []
                for (u1, u2, dx) in v:
                    try:
                        a = lat.distance(u1, u2, np.asarray(dx))
                        rows.append({'shape': list(np.shape(a)), 'val': flist(a)})
                    except Exception as e:
                        rows.append({'error': type(e).__name__ + ': ' + str(e)[:200]})
                da[k] = rows
            d['dist_arr'] = da
            g['with_disorder'] = d
        return g
    if q.get('geometry'):
        guarded('geometry', geom)

        def fcp():
            dis = lat.position_disorder
            lat.position_disorder = None          # (with disorder the distances are arrays: not what find_coupling_pairs is for)
            try:
                if q.get('fcp_defaults'):
                    r = lat.find_coupling_pairs()
                else:
                    r = lat.find_coupling_pairs(q.get('max_dx', 3), q.get('cutoff', 2.5))
            finally:
                lat.position_disorder = dis
            return [[float(d), [[int(u1), int(u2), tolist(dx)] for (u1, u2, dx) in v]] for d, v in r.items()]
        guarded('find_pairs', fcp)

    # ---- second pass: the same queries again on the same object, then the state of the object
    def repeat():
        r = {}
        if q['mps_idx']:
            r['mps2lat'] = tolist(lat.mps2lat_idx(np.array(q['mps_idx'], dtype=np.intp)))
            r['mps2lat_single'] = [tolist(lat.mps2lat_idx(int(i))) for i in q['mps_idx'][::step_m]]
        if q['lat_idx']:
            r['lat2mps'] = tolist(lat.lat2mps_idx(np.array(q['lat_idx'], dtype=np.intp)))
        cs = []
        for (u1, u2, dx) in q.get('couplings', [])[:: max(1, len(q.get('couplings', [])) // 8)]:
            i, j, li, sh = lat.possible_couplings(u1, u2, np.array(dx, dtype=np.intp))
            cs.append([[u1, u2, list(dx)], tolist(i), tolist(j)])
        r['couplings'] = cs
        msr = []
        for ops in q.get('multi', [])[:3]:
            ijkl, li, sh = lat.possible_multi_couplings([('X', list(dx), int(u)) for (dx, u) in ops])
            msr.append(tolist(ijkl) if len(ijkl) else [])
        r['multi'] = msr
        r['mps_sites'] = labels(lat.mps_sites())
        return r
    guarded('repeat', repeat, ex)

    def set_unit_cell():
        # "If you want to specify it only after initialization, use None entries": the unit cell is assigned later
        old = lat.unit_cell
        lat.unit_cell = ['v%d' % u for u in range(len(old))]
        got = labels(lat.mps_sites())
        lat.unit_cell = old
        lat.basis = lat.basis
        return {'new': got, 'restored': labels(lat.mps_sites())}
    guarded('unit_cell_set', set_unit_cell, ex)
    guarded('snap1', lambda: snapshot(lat))
    out['extras'] = ex
    return out


def main():
    payload = json.load(open(sys.argv[1]))
    how = start_monitor() if payload.get('trace', True) else 'off'
    res = []
    for spec in payload['specs']:
        try:
            res.append(run(spec))
        except Exception:
            res.append({'runner_error': traceback.format_exc()[-1200:]})
    json.dump({'results': res, 'lines': sorted(HIT), 'trace': how}, open(sys.argv[2], 'w'))


if __name__ == '__main__':
    main()
