"""Runs tenpy.models.lattice on the lattice specifications of harness/c19.py (fresh interpreter).

Pure data plumbing: builds the lattice described by a spec, calls the public methods and dumps
their raw results as JSON.  No checking is done here.
"""
import json
import sys
import traceback
import warnings

import numpy as np

warnings.simplefilter('ignore')


def tolist(a):
    return np.asarray(a).astype(int).tolist()


def conv_order(o):
    if isinstance(o, str):
        return o
    o = list(o)
    if o[0] == 'standard':
        return ('standard', tuple(bool(b) for b in o[1]), None if o[2] is None else tuple(o[2]))
    if o[0] == 'grouped':
        return ('grouped', [tuple(g) for g in o[1]]) + ((tuple(o[2]),) if len(o) > 2 and o[2] is not None else ())
    raise ValueError(o)


BASE_INFO = {}


def build(spec):
    """the lattice of spec, with the lattice-transforming method of spec['transform'] applied"""
    lat = build_base(spec)
    tr = spec.get('transform')
    if not tr:
        return lat
    # state before the transform (input of the model of the transform)
    BASE_INFO.clear()
    BASE_INFO.update({'Ls': [int(x) for x in lat.Ls], 'N_sites': int(lat.N_sites), 'order': tolist(lat.order)})
    reg = getattr(lat, 'regular_lattice', None)
    if reg is not None:
        BASE_INFO.update({'reg_N_cells': int(reg.N_cells), 'reg_order': tolist(reg.order)})
    if tr['op'] == 'enlarge':
        lat.enlarge_mps_unit_cell(tr['factor'])       # in place
        return lat
    if tr['op'] == 'segment':
        if tr.get('enlarge') is not None:
            return lat.extract_segment(enlarge=tr['enlarge'])
        return lat.extract_segment(tr['first'], tr['last'])
    raise ValueError(tr)


def species_sites(n):
    """distinguishable sites: species k has local dimension k + 2"""
    from tenpy.networks import site as tsite
    return [tsite.SpinSite(S=0.5 * (k + 1), conserve=None) for k in range(n)]


def build_base(spec, simple_only=False):
    from tenpy.models import lattice
    from tenpy.networks import site as tsite
    cls = spec['cls']
    wrap = spec.get('wrap')
    kw = {'bc': [b for b in spec['bc']] if not isinstance(spec['bc'], str) else spec['bc'],
          'bc_MPS': spec['bc_MPS']}
    ms_or_simple_order = conv_order(spec['order'])
    if not (wrap and wrap['kind'] == 'multi'):
        kw['order'] = ms_or_simple_order
    s = None
    if wrap and wrap['kind'] == 'helical':
        s = tsite.SpinHalfSite(conserve=None)
    Ls = spec['Ls']
    if cls == 'Chain':
        lat = lattice.Chain(Ls[0], s, **kw)
    elif cls == 'Ladder':
        lat = lattice.Ladder(Ls[0], s, **kw)
    elif cls == 'NLegLadder':
        lat = lattice.NLegLadder(Ls[0], spec['Lu'], s, **kw)
    elif cls in ('Square', 'Triangular', 'Honeycomb', 'Kagome'):
        lat = getattr(lattice, cls)(Ls[0], Ls[1], s, **kw)
    elif cls == 'Lattice':
        lat = lattice.Lattice(Ls, [s] * spec['Lu'], **kw)
    else:
        raise ValueError(cls)
    if spec.get('custom_perm') is not None and not (wrap and wrap['kind'] == 'multi'):
        lat.order = lat.order[np.array(spec['custom_perm'], dtype=np.intp)]
    if wrap is None or simple_only:
        return lat
    if wrap['kind'] == 'multi':
        ms = lattice.MultiSpeciesLattice(lat, species_sites(wrap['n_species']), wrap.get('names'))
        ms.order = ms.ordering(ms_or_simple_order)
        if spec.get('custom_perm') is not None:
            ms.order = ms.order[np.array(spec['custom_perm'], dtype=np.intp)]
        return ms
    if wrap['kind'] == 'irregular':
        add = None
        if wrap.get('add'):
            add = (np.array(wrap['add'][0], dtype=np.intp), list(wrap['add'][1]))
        rem = wrap.get('remove') or None
        nuc = wrap.get('n_add_uc', 0)
        # (the default add_positions assumes dim == Dim, which fails for the ladders: give them explicitly)
        return lattice.IrregularLattice(lat, remove=rem, add=add, add_unit_cell=[None] * nuc,
                                        add_positions=np.zeros((nuc, lat.unit_cell_positions.shape[1])))
    if wrap['kind'] == 'helical':
        return lattice.HelicalLattice(lat, wrap['N_unit_cells'])
    raise ValueError(wrap)


def run(spec):
    try:
        lat = build(spec)
    except Exception as e:
        return {'build_error': type(e).__name__ + ': ' + str(e)[:200], 'tb': traceback.format_exc()[-600:]}
    q = spec['queries']
    out = {}
    if spec.get('transform'):
        out['base'] = dict(BASE_INFO)
    # (HelicalLattice accepts translation invariant strengths only: strength variant not exercised)
    helical = bool(spec.get('wrap')) and spec['wrap']['kind'] == 'helical'
    out['Ls'] = [int(x) for x in lat.Ls]
    out['shape'] = [int(x) for x in lat.shape]
    out['N_sites'] = int(lat.N_sites)
    out['N_cells'] = int(lat.N_cells)
    out['bc_open'] = [bool(b) for b in lat.bc]
    out['bc_shift'] = None if lat.bc_shift is None else tolist(lat.bc_shift)
    out['bc_MPS'] = lat.bc_MPS
    out['boundary_conditions'] = [b if isinstance(b, str) else int(b) for b in lat.boundary_conditions]
    out['order'] = tolist(lat.order)
    out['dim'] = int(lat.dim)

    def guarded(name, f):
        try:
            out[name] = f()
        except Exception as e:
            out[name] = {'error': type(e).__name__ + ': ' + str(e)[:200]}

    # named orderings evaluated on this lattice (ordering() does not change the lattice)
    def named():
        res = []
        for o in q.get('orderings', []):
            try:
                res.append(tolist(lat.ordering(conv_order(o))))
            except Exception as e:
                res.append({'error': type(e).__name__ + ': ' + str(e)[:200]})
        return res
    guarded('orderings', named)
    # index maps, one call with the whole array and one call per element
    guarded('mps2lat', lambda: tolist(lat.mps2lat_idx(np.array(q['mps_idx'], dtype=np.intp))) if q['mps_idx'] else [])
    guarded('mps2lat_single', lambda: [tolist(lat.mps2lat_idx(int(i))) for i in q['mps_idx'][:: max(1, len(q['mps_idx']) // 6)]])
    guarded('lat2mps', lambda: tolist(lat.lat2mps_idx(np.array(q['lat_idx'], dtype=np.intp))) if q['lat_idx'] else [])
    guarded('lat2mps_single', lambda: [int(lat.lat2mps_idx(x)) for x in q['lat_idx'][:: max(1, len(q['lat_idx']) // 6)]])
    guarded('fix_u', lambda: [tolist(lat.mps_idx_fix_u(u)) for u in range(len(lat.unit_cell))])
    guarded('fix_u_none', lambda: tolist(lat.mps_idx_fix_u(None)))
    guarded('lat_fix_u', lambda: [[tolist(a) for a in lat.mps_lat_idx_fix_u(u)] for u in range(len(lat.unit_cell))])

    # couplings
    cps = []
    for (u1, u2, dx) in q.get('couplings', []):
        try:
            i, j, li, sh = lat.possible_couplings(u1, u2, np.array(dx, dtype=np.intp))
            r = {'i': tolist(i), 'j': tolist(j), 'lat': tolist(li) if len(li) else [], 'shape': [int(x) for x in sh]}
            cs, _sft = lat.coupling_shape(np.array(dx, dtype=np.intp))
            r['cshape'] = [int(x) for x in cs]
            r['cshift'] = tolist(_sft)
            if all(x > 0 for x in sh) and not helical:
                strength = np.arange(1, int(np.prod(sh)) + 1).reshape(sh).astype(float)
                i2, j2, sv = lat.possible_couplings(u1, u2, np.array(dx, dtype=np.intp), strength)
                r['s_i'] = tolist(i2)
                r['s_j'] = tolist(j2)
                r['s_v'] = tolist(sv)
        except Exception as e:
            r = {'error': type(e).__name__ + ': ' + str(e)[:200]}
        cps.append(r)
    out['couplings'] = cps
    mcs = []
    for ops in q.get('multi', []):
        try:
            o = [('X', list(dx), int(u)) for (dx, u) in ops]
            ijkl, li, sh = lat.possible_multi_couplings(o)
            r = {'ijkl': tolist(ijkl) if len(ijkl) else [], 'lat': tolist(li) if len(li) else [],
                 'shape': [int(x) for x in sh]}
            if all(x > 0 for x in sh) and not helical:
                strength = np.arange(1, int(np.prod(sh)) + 1).reshape(sh).astype(float)
                ijkl2, sv = lat.possible_multi_couplings(o, strength)
                r['s_ijkl'] = tolist(ijkl2) if len(ijkl2) else []
                r['s_v'] = tolist(sv)
        except Exception as e:
            r = {'error': type(e).__name__ + ': ' + str(e)[:200]}
        mcs.append(r)
    out['multi'] = mcs

    # reshaping of per-site values
    N = int(lat.N_sites)

    def vals():
        A = np.arange(N) + 1000
        return tolist(lat.mps2lat_values(A))
    guarded('values', vals)

    def vals2():
        A = (np.arange(N)[:, None, None] * 10000 + np.arange(2)[None, :, None] * 1000000 + np.arange(N)[None, None, :])
        return tolist(lat.mps2lat_values(A, axes=[-1, 0]))
    if q.get('values2'):
        guarded('values2', vals2)

    def vals_u():
        res = []
        for u in range(len(lat.unit_cell)):
            mu = lat.mps_idx_fix_u(u)
            A = (np.arange(N) + 1000)[mu]
            res.append(tolist(lat.mps2lat_values(A, u=u)))
        return res
    guarded('values_u', vals_u)

    def vals_masked():
        res = []
        for inds in q.get('masked', []):
            inds = np.array(inds, dtype=np.intp)
            A = inds + 5000
            for incl in (None, True, False):
                m = lat.mps2lat_values_masked(A, axes=0, mps_inds=inds, include_u=incl)
                res.append({'inds': tolist(inds), 'incl': incl, 'shape': list(m.shape),
                            'data': tolist(np.ma.getdata(m)), 'mask': tolist(np.ma.getmaskarray(m))})
        return res
    guarded('values_masked', vals_masked)

    # geometry
    def geom():
        g = {}
        g['pairs'] = {k: [[int(u1), int(u2), tolist(dx)] for (u1, u2, dx) in v] for k, v in lat.pairs.items()}
        g['basis'] = np.asarray(lat.basis, dtype=float).tolist()
        g['uc_pos'] = np.asarray(lat.unit_cell_positions, dtype=float).tolist()
        g['pos_order'] = np.asarray(lat.position(lat.order), dtype=float).tolist()
        def dist_or_none(u1, u2, dx):
            try:
                return float(lat.distance(u1, u2, np.asarray(dx)))
            except Exception:
                return None
        g['dist'] = {k: [dist_or_none(u1, u2, dx) for (u1, u2, dx) in v] for k, v in lat.pairs.items()}
        g['count'] = {k: [int(lat.count_neighbors(u, k)) for u in range(len(lat.unit_cell))] for k in lat.pairs}
        g['uc_dims'] = [None if st is None else int(st.dim) for st in lat.unit_cell]
        if spec.get('wrap') and spec['wrap']['kind'] == 'multi':
            # the simple lattice, built separately
            sl = build_base(spec, simple_only=True)
            g['simple'] = {'pairs': {k: [[int(u1), int(u2), tolist(dx)] for (u1, u2, dx) in v] for k, v in sl.pairs.items()},
                           'uc_pos': np.asarray(sl.unit_cell_positions, dtype=float).tolist()}
        # the couplings of every predefined pair
        pc = {}
        for k, v in lat.pairs.items():
            rows = []
            for (u1, u2, dx) in v:
                try:
                    i, j, _, _ = lat.possible_couplings(u1, u2, np.asarray(dx, dtype=np.intp))
                    rows.append({'i': tolist(i), 'j': tolist(j)})
                except Exception as e:
                    rows.append({'error': type(e).__name__ + ': ' + str(e)[:200]})
            pc[k] = rows
        g['pair_couplings'] = pc
        return g
    if q.get('geometry'):
        guarded('geometry', geom)

        def fcp():
            r = lat.find_coupling_pairs(q.get('max_dx', 3), q.get('cutoff', 2.5))
            return [[float(d), [[int(u1), int(u2), tolist(dx)] for (u1, u2, dx) in v]] for d, v in r.items()]
        guarded('find_pairs', fcp)
    return out


def main():
    payload = json.load(open(sys.argv[1]))
    res = []
    for spec in payload['specs']:
        try:
            res.append(run(spec))
        except Exception:
            res.append({'runner_error': traceback.format_exc()[-1200:]})
    json.dump(res, open(sys.argv[2], 'w'))


if __name__ == '__main__':
    main()
