"""Line recording inside the runner process for the coverage table of C13 (harness/c13_cover.py).

Uses sys.monitoring (Python >= 3.12): LINE events are enabled only on the code objects defined in the anchored tenpy files and every
(code, line) location is disabled again after its first hit, so that the cost is a few thousand callbacks per process.  Older
interpreters fall back to sys.settrace restricted to the same files."""
import os
import sys
import types

_hit = {}          # absolute file name -> set of line numbers
_files = set()


def _code_objects(code):
    yield code
    for c in code.co_consts:
        if isinstance(c, types.CodeType):
            yield from _code_objects(c)


def _module_codes(mod):
    """all code objects whose source is the file of `mod` (functions, methods, properties, nested functions)."""
    fn = mod.__file__
    seen = set()
    out = []

    def add(f):
        code = getattr(f, '__code__', None)
        if code is not None and code.co_filename == fn and id(code) not in seen:
            for c in _code_objects(code):
                if id(c) not in seen:
                    seen.add(id(c))
                    out.append(c)

    def visit(obj, depth=0):
        if isinstance(obj, (staticmethod, classmethod)):
            obj = obj.__func__
        if isinstance(obj, property):
            for f in (obj.fget, obj.fset, obj.fdel):
                if f is not None:
                    add(f)
            return
        if isinstance(obj, types.FunctionType):
            add(obj)
            w = getattr(obj, '__wrapped__', None)
            if w is not None:
                visit(w, depth)
            return
        if isinstance(obj, type) and depth < 2 and getattr(obj, '__module__', None) == mod.__name__:
            for v in vars(obj).values():
                visit(v, depth + 1)
    for v in vars(mod).values():
        visit(v)
    return out


def install(module_names):
    import importlib
    mods = [importlib.import_module(m) for m in module_names]
    for m in mods:
        _files.add(m.__file__)
        _hit.setdefault(m.__file__, set())
    mon = getattr(sys, 'monitoring', None)
    if mon is not None:
        tool = mon.COVERAGE_ID
        try:
            mon.use_tool_id(tool, 'c13_cover')
        except ValueError:
            return False

        def on_line(code, line):
            _hit[code.co_filename].add(line)
            return mon.DISABLE
        mon.register_callback(tool, mon.events.LINE, on_line)
        for m in mods:
            for code in _module_codes(m):
                mon.set_local_events(tool, code, mon.events.LINE)
        return True

    def tracer(frame, event, arg):      # pragma: no cover (Python < 3.12)
        fn = frame.f_code.co_filename
        if fn not in _files:
            return None
        s = _hit[fn]

        def local(frame, event, arg):
            if event == 'line':
                s.add(frame.f_lineno)
            return local
        s.add(frame.f_lineno)
        return local
    sys.settrace(tracer)
    return True


def report(repo_root):
    return {os.path.relpath(fn, repo_root): sorted(s) for fn, s in _hit.items()}
