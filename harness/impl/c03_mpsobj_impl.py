"""Runner of the stream `mps-object` of harness/c03.py (generator and judge: harness/c03_mpsobj.py).

One case = one main MPS `psi` (finite / infinite / segment - segments with or without segment_boundaries, i.e. before or after
canonical_form()), a list of partner states on the same sites (same charge sector and gauge; ANOTHER total-charge sector; the same
sector stored in ANOTHER charge gauge, i.e. with different outermost virtual legs), the MPO of the model, and a long list of calls:

  * every public method / property of the class of psi found by REFLECTION (inspect.getattr_static over dir(type(psi))) that is
    not documented to act in place, with the argument variants of PURE_TABLE,
  * every function of two MPS (overlap, add, MPSEnvironment + its measurement methods, TransferMatrix, overlap_translate_finite,
    MPOEnvironment, expand_into of subspace_expansion) with every partner in BOTH operand positions,
  * MPO functions of psi (expectation_value, variance, apply/apply_naively/apply_zipup on a deep copy, ...),
  * every documented in-place method, called on a fresh DEEP copy of psi (receiver = the copy).

ALL objects stay alive.  Before and after every call the WHOLE of every live object is fingerprinted generically from its
__dict__ (whole_fp): identity and length of every list (_B, _S, form, sites, ...), identity of every stored tensor, and for every
tensor the dense values, dtype, labels, qtotal, identity and content (charges, slices, qconj) of every leg; norm, bc,
segment_boundaries, chinfo, the sites (their leg and operators).  The report names the parts that changed per object; the judge
allows changes of the receiver of an in-place call only."""
import copy as pycopy
import hashlib
import inspect
import os
import sys
import warnings

import numpy as np

warnings.simplefilter('ignore')
sys.path.insert(0, os.path.dirname(os.path.abspath(__file__)))
import c04_impl as base  # noqa: E402   (dense)
import tenpy.linalg.np_conserved as npc  # noqa: E402
from tenpy.linalg import charges as chg  # noqa: E402


def _h(b):
    return hashlib.sha1(b).hexdigest()[:12]


def _leg_fp(l):
    parts = [np.ascontiguousarray(l.charges).tobytes(), np.ascontiguousarray(l.slices).tobytes(),
             repr((int(l.qconj), int(l.ind_len), int(l.block_number), type(l).__name__)).encode()]
    if isinstance(l, chg.LegPipe):
        parts += [np.ascontiguousarray(l.q_map).tobytes(), repr([_leg_fp(s) for s in l.legs]).encode()]
    return _h(b'|'.join(parts))


# ------------------------------------------------------------------------------------------------
# generic fingerprint of a whole object
# ------------------------------------------------------------------------------------------------

_VAL_MEMO = {}


def _val_hash(a):
    """hash of the dense values of a tensor.  The dense array is a function of (block bytes in stored order, _qdata, slices of
    the legs, dtype), so it is memoised under a hash of exactly these: unchanged raw storage -> no dense conversion needed;
    a changed representation (block order, dropped zero blocks) is converted and compared by its dense values."""
    try:
        hh = hashlib.sha1()
        for b in a._data:
            hh.update(np.ascontiguousarray(b).tobytes())
            hh.update(str(b.shape).encode())
        hh.update(np.ascontiguousarray(a._qdata).tobytes())
        for l in a.legs:
            hh.update(np.ascontiguousarray(l.slices).tobytes())
        hh.update(str(a.dtype).encode())
        key = hh.digest()
    except Exception as e:
        return 'BROKEN-RAW:' + type(e).__name__
    v = _VAL_MEMO.get(key)
    if v is None:
        try:
            d = base.dense(a)
            v = _h(np.ascontiguousarray(d).tobytes() + str(d.shape).encode())
        except Exception as e:
            v = 'BROKEN:' + type(e).__name__
        _VAL_MEMO[key] = v
    return v

class Snap:
    """flat {part name: value} fingerprint of one object; keeps every visited object alive (ids stay unique)"""

    def __init__(self, obj, site_cache):
        self.parts = {}
        self.keep = []
        self.site_cache = site_cache
        self.walk('', obj, 0, top=True)

    def put(self, name, v):
        self.parts[name] = v

    def array(self, name, a):
        self.keep.append(a)
        self.put(name + '#id', id(a))
        self.put(name + '.val', _val_hash(a))
        self.put(name + '.dtype', str(a.dtype))
        self.put(name + '.labels', repr(list(a._labels)))
        self.put(name + '.qtotal', repr([int(x) for x in a.qtotal]))
        self.put(name + '.rank', int(a.rank))
        for k, l in enumerate(a.legs):
            self.keep.append(l)
            self.put(name + '.legs[%d]#id' % k, id(l))
            self.put(name + '.legs[%d]' % k, _leg_fp(l))
        self.put(name + '.consistent', (len(a._data) == int(np.asarray(a._qdata).shape[0])))

    def site(self, name, s):
        self.keep.append(s)
        self.put(name + '#id', id(s))
        if id(s) not in self.site_cache:
            ops = []
            for opn in sorted(s.opnames):
                try:
                    o = s.get_op(opn)
                    ops.append(opn + ':' + _val_hash(o) + repr(list(o._labels)) + repr(id(o)))
                except Exception as e:
                    ops.append(opn + ':ERR' + type(e).__name__)
            fp = _h(repr((_leg_fp(s.leg), id(s.leg), ops, sorted(s.state_labels.items()), sorted(getattr(s, 'need_JW_string', [])),
                          type(s).__name__)).encode())
            self.site_cache[id(s)] = (s, fp)       # hashed once per snapshot (sites are shared by all MPS/MPO of a case)
        self.put(name + '.content', self.site_cache[id(s)][1])

    def walk(self, name, x, depth, top=False):
        from tenpy.networks.site import Site
        if isinstance(x, npc.Array):
            return self.array(name, x)
        if isinstance(x, chg.LegCharge):
            self.keep.append(x)
            self.put(name + '#id', id(x))
            return self.put(name, _leg_fp(x))
        if isinstance(x, Site):
            return self.site(name, x)
        if isinstance(x, np.ndarray):
            self.keep.append(x)
            self.put(name + '#id', id(x))
            if x.dtype == object:
                return self.walk(name + '.items', list(x.flat), depth + 1)
            return self.put(name, _h(np.ascontiguousarray(x).tobytes() + str(x.shape).encode() + str(x.dtype).encode()))
        if isinstance(x, (list, tuple)):
            if isinstance(x, list):
                self.keep.append(x)
                self.put(name + '#id', id(x))
            self.put(name + '#len', len(x))
            if all(isinstance(y, (int, float, complex, str, bool, type(None), np.generic)) for y in x) or depth > 6:
                return self.put(name, repr(x))
            for k, y in enumerate(x):
                self.walk('%s[%d]' % (name, k), y, depth + 1)
            return
        if isinstance(x, dict):
            self.keep.append(x)
            self.put(name + '#id', id(x))
            self.put(name + '#keys', repr(sorted(map(repr, x.keys()))))
            if depth > 6:
                return
            for k in sorted(x.keys(), key=repr):
                self.walk('%s{%r}' % (name, k), x[k], depth + 1)
            return
        if isinstance(x, (int, float, complex, str, bool, type(None), np.generic)):
            return self.put(name, repr(x))
        if isinstance(x, npc.ChargeInfo):
            self.keep.append(x)
            return self.put(name, repr((id(x), [int(m) for m in x.mod], list(x.names))))
        if top and hasattr(x, '__dict__'):
            self.put('#class', type(x).__name__)
            for k in sorted(vars(x)):
                self.walk(k, vars(x)[k], depth + 1)
            return
        # other objects held by reference (an MPS inside an environment, a cache, a lattice, ...): identity only
        self.keep.append(x)
        self.put(name + '#ref', '%s@%d' % (type(x).__name__, id(x)))


def snapshot(objs):
    cache = {}
    return {k: Snap(o, cache) for k, o in objs.items()}


def diff(s0, s1):
    """names of the parts that differ (stable order, shortened)"""
    a, b = s0.parts, s1.parts
    out = [k for k in a if k not in b or a[k] != b[k]] + [k for k in b if k not in a]
    return sorted(out)


# ------------------------------------------------------------------------------------------------
# classification of the public interface (reflection)
# ------------------------------------------------------------------------------------------------

# methods DOCUMENTED to modify the MPS they are called on ("in place" / "Modifies self" / setters)
INPLACE_DOC = {
    'apply_local_op', 'apply_local_term', 'apply_product_op', 'canonical_form', 'canonical_form_finite',
    'canonical_form_infinite1', 'canonical_form_infinite2', 'compress', 'compress_svd', 'convert_form', 'enlarge_chi',
    'enlarge_mps_unit_cell', 'gauge_total_charge', 'group_sites', 'group_split', 'permute_sites', 'perturb',
    'roll_mps_unit_cell', 'set_B', 'set_SL', 'set_SR', 'set_svd_theta', 'spatial_inversion', 'subspace_expansion', 'swap_sites',
    # compute_K: parameter `canonicalize` - "Check that self is in canonical form; call canonical_form() if norm_test() yields more":
    # documented to bring `self` to canonical B form (convert_form('B') / canonical_form()), the permutation runs on a copy
    'compute_K',
}


def reflect(cls):
    """public names of the class -> kind ('property' | 'method' | 'classmethod' | 'staticmethod' | 'attribute')"""
    out = {}
    for n in dir(cls):
        if n.startswith('_'):
            continue
        a = inspect.getattr_static(cls, n)
        if isinstance(a, property):
            out[n] = 'property'
        elif isinstance(a, classmethod):
            out[n] = 'classmethod'
        elif isinstance(a, staticmethod):
            out[n] = 'staticmethod'
        elif inspect.isfunction(a):
            out[n] = 'method'
        else:
            out[n] = 'attribute'
    return out


def op_names(psi):
    s = psi.sites[0]
    if 'Sz' in s.opnames:
        return 'Sz', 'Sp', 'Sm', 'Sz'
    return 'Sigmaz', 'Sigmax', 'Sigmax', 'Sigmaz'


def pure_table(psi, K):
    """name -> list of (text, thunk): argument variants for every public method that is NOT documented in-place.
    K: context (partners, rng seed, conserve)."""
    L = psi.L
    inf = psi.bc == 'infinite'
    o0, o1, o2, oz = op_names(psi)
    m = L // 2
    phi = K['partners'][0][1] if K['partners'] else psi
    T = {}

    def add(name, *thunks):
        lst = T.setdefault(name, [])
        for f in thunks:
            lst.append(('%s#%d' % (name, len(lst)), f))

    two = npc.outer(psi.sites[0].get_op(o1).replace_labels(['p', 'p*'], ['p0', 'p0*']),
                    psi.sites[1 % L].get_op(o2).replace_labels(['p', 'p*'], ['p1', 'p1*']))
    add('average_charge', lambda: psi.average_charge(0), lambda: psi.average_charge(m))
    add('charge_variance', lambda: psi.charge_variance(m))
    add('probability_per_charge', lambda: psi.probability_per_charge(m), lambda: psi.probability_per_charge(0))
    add('copy', lambda: psi.copy(), lambda: pycopy.copy(psi))
    add('correlation_function', lambda: psi.correlation_function(o1, o2), lambda: psi.correlation_function(oz, oz, sites1=[0], sites2=[1, L - 1]),
        lambda: psi.correlation_function(o1, o2, opstr=oz, hermitian=True))
    add('correlation_length', lambda: psi.correlation_length(), lambda: psi.correlation_length(target=2, charge_sector=None))
    add('correlation_length2', lambda: psi.correlation_length2())
    add('correlation_length_charge_sectors', lambda: psi.correlation_length_charge_sectors())
    add('entanglement_entropy', lambda: psi.entanglement_entropy(), lambda: psi.entanglement_entropy(n=2, bonds=[m]),
        lambda: psi.entanglement_entropy(n=np.inf))
    add('entanglement_entropy_segment', lambda: psi.entanglement_entropy_segment([0, 1]), lambda: psi.entanglement_entropy_segment([0], first_site=[1]))
    add('entanglement_entropy_segment2', lambda: psi.entanglement_entropy_segment2([0, 2]))
    add('entanglement_spectrum', lambda: psi.entanglement_spectrum(), lambda: psi.entanglement_spectrum(by_charge=True))
    add('expectation_value', lambda: psi.expectation_value(o0), lambda: psi.expectation_value([o0, o1], sites=[0, L - 1]),
        lambda: psi.expectation_value(two, sites=[0]), lambda: psi.expectation_value(psi.sites[0].get_op(o0)))
    add('expectation_value_multi_sites', lambda: psi.expectation_value_multi_sites([o1, oz, o2], 0),
        lambda: psi.expectation_value_multi_sites([oz, oz], L - 2))
    add('expectation_value_term', lambda: psi.expectation_value_term([(o1, 0), (o2, 2)]), lambda: psi.expectation_value_term([(oz, L - 1)]))
    add('expectation_value_terms_sum', lambda: psi.expectation_value_terms_sum(_term_list(psi)))
    add('extract_segment', lambda: psi.extract_segment(1, L - 2), lambda: psi.extract_segment(0, L - 1),
        lambda: psi.extract_segment(1, 2 * L - 2) if inf else psi.extract_segment(0, 1))
    bg = K.get('background') or psi
    f, l = K.get('first', 0), K.get('last', L - 1)
    add('extract_enlarged_segment', lambda: psi.extract_enlarged_segment(bg, bg, f, l, new_first_last=(f - 1, l + 1) if bg.bc == 'infinite' else (max(f - 1, 0), min(l + 1, bg.L - 1))),
        lambda: psi.extract_enlarged_segment(bg, bg, f, l, add_unitcells=1))
    add('get_B', lambda: [psi.get_B(i, form=fm, copy=cp) for i in range(L) for fm in ('B', 'A', 'C', None) for cp in (False, True)],
        lambda: psi.get_B(L - 1, 'Th', label_p='1'), lambda: psi.get_B(-1 if inf else 0, 'G'))
    add('get_SL', lambda: [psi.get_SL(i) for i in range(L)])
    add('get_SR', lambda: [psi.get_SR(i) for i in range(L)])
    add('get_grouped_mps', lambda: psi.get_grouped_mps(2))
    add('get_op', lambda: psi.get_op([o0, o1], 1), lambda: psi.get_op([psi.sites[0].get_op(o0)], 0))
    add('get_rho_segment', lambda: psi.get_rho_segment([0, 1]), lambda: psi.get_rho_segment([0, L - 1]))
    add('get_site', lambda: [psi.get_site(i) for i in (range(-1, L + 1) if inf else range(L))])
    add('get_theta', lambda: [psi.get_theta(i, n=n) for n in (1, 2, 3) for i in range(L - n + 1)], lambda: psi.get_theta(0, 2, formL=0., formR=0.5))
    add('get_total_charge', lambda: total_charge_observed(psi, K), lambda: total_charge_observed(psi, K),
        lambda: total_charge_observed(psi, K, only_physical_legs=True))
    add('mutinf_two_site', lambda: psi.mutinf_two_site(max_range=2))
    add('norm_test', lambda: psi.norm_test())
    add('outer_virtual_legs', lambda: psi.outer_virtual_legs())
    add('overlap', lambda: psi.overlap(psi, understood_infinite=True), lambda: psi.overlap(phi, understood_infinite=True),
        lambda: psi.overlap(phi, ignore_form=True, understood_infinite=True), lambda: psi.overlap(phi, charge_sector=0, understood_infinite=True))
    add('overlap_translate_finite', lambda: psi.overlap_translate_finite(psi, 1), lambda: psi.overlap_translate_finite(phi, 2))
    add('add', lambda: psi.add(psi, 0.5, 0.5), lambda: psi.add(phi, 1., -0.5))
    add('sample_measurements', lambda: psi.sample_measurements(rng=np.random.default_rng(3)),
        lambda: psi.sample_measurements(1, L - 2, ops=[oz], rng=np.random.default_rng(4), complex_amplitude=False))
    add('save_hdf5', lambda: _save_hdf5(psi))
    add('shift_Array_unit_cells', lambda: psi.shift_Array_unit_cells(psi.get_B(0, form=None, copy=False), 1),
        lambda: psi.shift_Array_unit_cells(psi.get_B(L - 1, form=None, copy=False), -2))
    add('shift_Site_unit_cells', lambda: psi.shift_Site_unit_cells(psi.sites[0], 1))
    add('shift_charges_unit_cells', lambda: psi.shift_charges_unit_cells(psi.get_B(0, form=None).get_leg('vL').charges, 1),
        lambda: psi.shift_charges_unit_cells(psi.get_B(L - 1, form=None).qtotal, 2))
    add('term_correlation_function_right', lambda: psi.term_correlation_function_right([(o1, 0)], [(o2, 0)]))
    add('term_correlation_function_left', lambda: psi.term_correlation_function_left([(o1, 0)], [(o2, 0)], i_L=[0, 1], j_R=L - 1))
    add('term_list_correlation_function_right', lambda: _tlcf(psi, o1, o2))
    add('test_sanity', lambda: psi.test_sanity())
    add('apply_JW_string_left_of_virt_leg', lambda: psi.apply_JW_string_left_of_virt_leg(psi.get_B(1, form=None, copy=False), 0, 1))
    return T


def _term_list(psi):
    from tenpy.networks.terms import TermList
    o0, o1, o2, oz = op_names(psi)
    return TermList([[(oz, 0)], [(o1, 0), (o2, 1)], [(oz, 1), (oz, psi.L - 1)]], [0.5, 1., -2.])


def _tlcf(psi, o1, o2):
    from tenpy.networks.terms import TermList
    return psi.term_list_correlation_function_right(TermList([[(o1, 0)]], [1.]), TermList([[(o2, 0)]], [1.]))


def _save_hdf5(x):
    import h5py
    from tenpy.tools import hdf5_io
    with h5py.File('c03_mem_%d.h5' % os.getpid(), 'w', driver='core', backing_store=False) as f:
        hdf5_io.save_to_hdf5(f, x)


def two_mps_calls(psi, name, phi, H, K):
    """functions of two MPS, `psi` and the partner `phi`, in both operand positions"""
    from tenpy.networks.mps import MPSEnvironment, TransferMatrix
    from tenpy.networks.mpo import MPOEnvironment
    o0, o1, o2, oz = op_names(psi)
    L = psi.L
    inf = psi.bc == 'infinite'
    calls = []

    def env_program(a, b):
        env = MPSEnvironment(a, b)
        K['keep'].append(env)
        out = [env.full_contraction(0)] if not inf else []
        out.append(env.expectation_value(o0))
        if not inf:
            out += [env.get_LP(L - 1), env.get_RP(0), env.full_contraction(L // 2)]
            out.append(env.correlation_function(oz, oz))
            out.append(env.expectation_value_term([(oz, 0), (oz, 1)]))
            out.append(env.get_initialization_data())
            env.clear()
        return out

    def tm_program(a, b, **kw):
        TM = TransferMatrix(a, b, **kw)
        K['keep'].append(TM)
        v = TM.matvec(TM.initial_guess())
        if inf:
            TM.eigenvectors(num_ev=1)
        return v

    def mpoenv(a, b):
        env = MPOEnvironment(a, H, b, **K.get('init_env_data', {}))
        K['keep'].append(env)
        return env.full_contraction(0) if not inf else env.get_LP(1)

    for (a, an, b, bn) in ((psi, 'psi', phi, name), (phi, name, psi, 'psi')):
        t = '%s, %s' % (an, bn)
        calls.append(('overlap', '%s.overlap(%s)' % (an, bn), lambda a=a, b=b: a.overlap(b, understood_infinite=True)))
        calls.append(('overlap', '%s.overlap(%s, ignore_form=True)' % (an, bn), lambda a=a, b=b: a.overlap(b, ignore_form=True, understood_infinite=True)))
        calls.append(('overlap', '%s.overlap(%s, charge_sector=None)' % (an, bn), lambda a=a, b=b: a.overlap(b, charge_sector=None, understood_infinite=True)))
        calls.append(('add', '%s.add(%s, 1., 0.5)' % (an, bn), lambda a=a, b=b: a.add(b, 1., 0.5)))
        calls.append(('MPSEnvironment', 'MPSEnvironment(%s) + full_contraction/expectation_value/get_LP/get_RP/correlation_function/'
                      'expectation_value_term/get_initialization_data' % t, lambda a=a, b=b: env_program(a, b)))
        calls.append(('TransferMatrix', 'TransferMatrix(%s).matvec [+eigenvectors]' % t, lambda a=a, b=b: tm_program(a, b)))
        calls.append(('TransferMatrix', 'TransferMatrix(%s, transpose=True, charge_sector=None, form=None).matvec' % t,
                      lambda a=a, b=b: tm_program(a, b, transpose=True, charge_sector=None, form=None)))
        calls.append(('overlap_translate_finite', '%s.overlap_translate_finite(%s)' % (an, bn), lambda a=a, b=b: a.overlap_translate_finite(b, 1)))
        calls.append(('gauge_compatible', '%s._gauge_compatible_vL_vR(%s)' % (an, bn), lambda a=a, b=b: gauge_compatible_observed(a, b, K)))
        if H is not None:
            calls.append(('MPOEnvironment', 'MPOEnvironment(%s, H, %s)' % (an, bn), lambda a=a, b=b: mpoenv(a, b)))
    return calls


def gauge_compatible_observed(a, b, K):
    """res = a._gauge_compatible_vL_vR(b), observed at the level of the container layer (Model/StoreMpsObj.v): is the result the
    object b / does it hold the LIST object b._B / which items differ / does b still hold its list with its items"""
    need = bool(a.chinfo.qnumber > 0 and a.outer_virtual_legs() != b.outer_virtual_legs())
    lst = b._B
    items = list(lst)
    K['keep'].append(items)
    res = a._gauge_compatible_vL_vR(b)
    K['keep'].append(res)
    K['obs'] = {'kind': 'gc', 'need': need, 'L': len(items), 'same_obj': bool(res is b), 'same_list': bool(res._B is lst),
                'b_unchanged': bool(b._B is lst and len(lst) == len(items) and all(x is y for x, y in zip(lst, items))),
                'replaced': [i for i in range(len(res._B)) if i >= len(items) or res._B[i] is not items[i]]}
    return res


def total_charge_observed(psi, K, **kw):
    bnd = bool(psi.segment_boundaries[0] is not None)
    L = len(psi._B)
    try:
        return psi.get_total_charge(**kw)
    finally:
        K['obs'] = {'kind': 'ql', 'L': L, 'bnd': bnd, 'len_after': len(psi._B)}


def mpo_calls(psi, H, K):
    L = psi.L
    opts = {'compression_method': 'SVD', 'trunc_params': {'chi_max': 12}}
    calls = []
    ied = K.get('init_env_data', {})

    def on_copy(f):
        c = psi.copy()
        K['keep'].append(c)
        return f(c)
    calls.append(('MPO.expectation_value', 'H.expectation_value(psi)', lambda: H.expectation_value(psi, init_env_data=ied) if ied else H.expectation_value(psi)))
    calls.append(('MPO.variance', 'H.variance(psi)', lambda: H.variance(psi)))
    calls.append(('MPO.expectation_value_power', 'H.expectation_value_power(psi)', lambda: H.expectation_value_power(psi, max_range=2 * L)))
    calls.append(('MPO.apply', 'H.apply(psi.copy(), SVD)', lambda: on_copy(lambda c: H.apply(c, dict(opts)))))
    calls.append(('MPO.apply_naively', 'H.apply_naively(psi.copy())', lambda: on_copy(lambda c: H.apply_naively(c))))
    calls.append(('MPO.apply_zipup', 'H.apply_zipup(psi.copy())', lambda: on_copy(lambda c: H.apply_zipup(c, {'trunc_params': {'chi_max': 12}}))))
    calls.append(('MPO.make_U.apply', 'H.make_U_II(0.05j).apply(psi.copy())', lambda: on_copy(lambda c: H.make_U_II(0.05j).apply(c, dict(opts)))))
    calls.append(('MPO.misc', 'H.dagger(), is_hermitian, is_equal, H + H, copy, sort_legcharges on a copy, get_grouped... ',
                  lambda: [H.dagger(), H.is_hermitian(), H.is_equal(H), H + H, H.copy(), H.to_TermList(None) if False else None]))
    calls.append(('MPO.save_hdf5', 'save H', lambda: _save_hdf5(H)))
    return calls


def inplace_calls(psi, phi, gau, H, K):
    """documented in-place methods, each on a fresh deep copy `c` of psi; only `c` may change"""
    from tenpy.linalg.charges import LegCharge
    L = psi.L
    o0, o1, o2, oz = op_names(psi)
    tp = {'chi_max': 6, 'svd_min': 1.e-12}
    T = {}

    def add(name, *fs):
        T.setdefault(name, []).extend(fs)
    add('apply_local_op', lambda c: c.apply_local_op(1, o1, unitary=False, understood_infinite=True), lambda c: c.apply_local_op(0, oz, unitary=True, understood_infinite=True))
    add('apply_local_term', lambda c: c.apply_local_term([(o1, 0), (o2, 1)]))
    add('apply_product_op', lambda c: c.apply_product_op([oz] * L))
    add('canonical_form', lambda c: c.canonical_form(), lambda c: c.canonical_form(renormalize=False))
    add('canonical_form_finite', lambda c: c.canonical_form_finite(cutoff=1.e-12))
    add('canonical_form_infinite1', lambda c: c.canonical_form_infinite1())
    add('canonical_form_infinite2', lambda c: c.canonical_form_infinite2())
    add('compute_K', lambda c: c.compute_K(np.roll(np.arange(L), 1), canonicalize=1.e-6))
    add('compress', lambda c: c.compress({'compression_method': 'SVD', 'trunc_params': tp}))
    add('compress_svd', lambda c: c.compress_svd(tp))
    add('convert_form', lambda c: c.convert_form('A'), lambda c: c.convert_form(['A', 'C'] * (L // 2) + ['B'] * (L % 2)))
    add('enlarge_chi', lambda c: c.enlarge_chi([None] + [1] * (L - 1) + ([None] if c.bc != 'infinite' else [])))
    add('enlarge_mps_unit_cell', lambda c: c.enlarge_mps_unit_cell(2))
    add('gauge_total_charge', lambda c: c.gauge_total_charge(qtotal=[1] * c.chinfo.qnumber), lambda c: c.gauge_total_charge(None, *gau.outer_virtual_legs()))
    add('group_sites', lambda c: c.group_sites(2))
    add('group_split', lambda c: (c.group_sites(2), c.group_split(tp)))
    add('permute_sites', lambda c: c.permute_sites(np.roll(np.arange(L), 1), trunc_par=tp))
    add('perturb', lambda c: c.perturb({'N_steps': 1, 'trunc_params': tp}, close_1=True))
    add('roll_mps_unit_cell', lambda c: c.roll_mps_unit_cell(1))
    add('set_B', lambda c: c.set_B(1, c.get_B(1, copy=True) * 2., form=None))
    add('set_SL', lambda c: c.set_SL(1, c.get_SL(1) * 0.5))
    add('set_SR', lambda c: c.set_SR(1, c.get_SR(1) * 0.5))
    add('set_svd_theta', lambda c: c.set_svd_theta(0, c.get_theta(0, 2).combine_legs([['vL', 'p0'], ['p1', 'vR']], qconj=[+1, -1]), trunc_par=tp, update_norm=True))
    add('spatial_inversion', lambda c: c.spatial_inversion())
    add('subspace_expansion', lambda c: c.subspace_expansion([], tp), lambda c: c.subspace_expansion([phi], tp))
    add('swap_sites', lambda c: c.swap_sites(1, trunc_par=tp), lambda c: c.swap_sites(0, swap_op=None, trunc_par=tp))
    return T


# ------------------------------------------------------------------------------------------------
# building the states of a case
# ------------------------------------------------------------------------------------------------

def build(c):
    from tenpy.networks.mps import MPS
    from tenpy.algorithms import tebd
    from tenpy.networks.mpo import MPOEnvironment
    conserve = c['conserve']
    seg = c['bc'] == 'segment'
    bc0 = c.get('background_bc', 'finite') if seg else c['bc']
    L0 = c['L0']
    if c['model'] == 'xxz':
        from tenpy.models.xxz_chain import XXZChain
        M = XXZChain({'L': L0, 'Jxx': 1.0, 'Jz': 0.7, 'hz': 0.1, 'bc_MPS': bc0, 'conserve': conserve})
        up, dn = 'up', 'down'
    else:
        from tenpy.models.tf_ising import TFIChain
        M = TFIChain({'L': L0, 'J': 1.0, 'g': 0.8, 'bc_MPS': bc0, 'conserve': conserve})
        up, dn = 'up', 'down'
    sites = M.lat.mps_sites()
    H = M.calc_H_MPO()

    def evolved(state, dt, chargeL=None, steps=2):
        p = MPS.from_product_state(sites, [up if s else dn for s in state], bc=bc0, chargeL=chargeL)
        if c.get('entangle', True):
            tebd.TEBDEngine(p, M, {'dt': dt, 'N_steps': steps, 'order': 2, 'trunc_params': {'chi_max': c['chi'], 'svd_min': 1e-10}}).run()
        return p
    qn = H.chinfo.qnumber
    st0 = list(c['state'])
    full = {'psi': evolved(st0, 0.1, c.get('chargeL'))}
    full['same'] = evolved(st0, 0.13, c.get('chargeL'))
    K = {'keep': [], 'conserve': conserve, 'build_errors': {}}

    def attempt(key, f):
        try:
            full[key] = f()
        except Exception as e:
            K['build_errors'][key] = type(e).__name__ + ': ' + str(e)[:80]
    if qn:
        st1 = list(st0)
        st1[c['flip']] = not st1[c['flip']]              # another total-charge sector (Sz +-1 / other parity)
        attempt('sector', lambda: evolved(st1, 0.11, c.get('chargeL')))
        if bc0 == 'infinite':
            # the same kind of state, all virtual legs shifted by a constant charge
            attempt('gauged', lambda: evolved(st0, 0.12, [c['gauge_q']] * qn))
        else:
            def gauged():
                g = evolved(st0, 0.12, c.get('chargeL'))
                g.gauge_total_charge(qtotal=[c['gauge_q']] * qn)     # charge booked on the last tensor / right leg
                return g
            attempt('gauged', gauged)
    if not seg:
        objs = dict(full)
    else:
        f, l = c['first'], c['last']
        objs = {}
        for k, p in full.items():
            objs[k] = p.extract_segment(f, l)
        if qn:
            # same block structure as `same`, outer right leg shifted by a constant charge; no boundaries (gauge is possible)
            try:
                g = objs['same'].copy()
                g.gauge_total_charge(qtotal=[c['gauge_q']] * qn)
                objs['seg_gauged'] = g
            except Exception as e:
                K['build_errors']['seg_gauged'] = type(e).__name__ + ': ' + str(e)[:80]
        for k in c.get('canonicalize', ['psi']):
            if k in objs:
                try:
                    objs[k].canonical_form()                      # sets segment_boundaries = (U_L, V_R)
                except Exception as e:
                    K['build_errors']['canonical_form ' + k] = type(e).__name__ + ': ' + str(e)[:80]
        K['background'], K['first'], K['last'] = full['psi'], f, l
        try:
            env0 = MPOEnvironment(full['psi'], H, full['psi'])
            K['init_env_data'] = env0.get_initialization_data(f, l)
            H = H.extract_segment(f, l)
            K['keep'].append(env0)
        except Exception as e:
            K['init_env_error'] = type(e).__name__ + ': ' + str(e)[:80]
            H = None
        objs['background'] = full['psi']
    psi = objs.pop('psi')
    if c.get('store_form'):
        psi.convert_form(c['store_form'])
    return psi, objs, H, K


def run_mps_object(c):
    psi, others, H, K = build(c)
    rs = np.random.RandomState(c['seed'])
    live = {'psi': psi}
    live.update(others)
    if H is not None:
        live['H'] = H
    partners = [(k, v) for k, v in others.items() if k != 'background']
    K['partners'] = partners
    refl = reflect(type(psi))
    table = pure_table(psi, K)
    coverage = {}
    calls = []            # (group, text, receiver-or-None, thunk)
    for n, kind in sorted(refl.items()):
        if kind == 'property':
            coverage[n] = 'property'
            calls.append(('property', 'psi.' + n, None, lambda n=n: getattr(psi, n)))
        elif kind in ('classmethod', 'staticmethod'):
            coverage[n] = 'constructor/static (no MPS operand)'
        elif n in INPLACE_DOC:
            coverage[n] = 'in-place (on a deep copy)'
        elif n in table:
            coverage[n] = 'pure x%d' % len(table[n])
            for text, f in table[n]:
                calls.append((n, 'psi.' + text, None, f))
        else:
            coverage[n] = 'UNCOVERED'
    partner_of = {}
    for name, phi in partners:
        for group, text, f in two_mps_calls(psi, name, phi, H, K):
            calls.append((group, text, None, f))
            partner_of[text] = name
    if H is not None:
        for group, text, f in mpo_calls(psi, H, K):
            calls.append((group, text, None, f))
    order = rs.permutation(len(calls))
    calls = [calls[i] for i in order]
    # the in-place methods run last, each on its own deep copy
    itab = inplace_calls(psi, dict(partners).get('same', psi), dict(partners).get('gauged', psi), H, K)
    for n in sorted(itab):
        if n not in refl:
            continue
        for k, f in enumerate(itab[n]):
            calls.append((n, 'c = psi.copy(); c.%s#%d' % (n, k), 'c', f))
    for n in INPLACE_DOC:
        if n in refl and n not in itab:
            coverage[n] = 'UNCOVERED'
    before = snapshot(live)
    out = {'bc': psi.bc, 'L': psi.L, 'qnumber': int(psi.chinfo.qnumber), 'chi': [int(x) for x in psi.chi],
           'boundaries': {k: bool(getattr(v, 'segment_boundaries', (None, None))[0] is not None) for k, v in live.items() if k != 'H'},
           'outer_legs_differ': {k: bool(psi.outer_virtual_legs() != v.outer_virtual_legs()) for k, v in partners},
           'partners': [k for k, _ in partners], 'coverage': coverage, 'init_env_error': K.get('init_env_error'),
           'build_errors': K['build_errors'], 'forms': [repr(f) for f in psi.form]}
    recs = []
    for group, text, recv, f in calls:
        rec = {'group': group, 'call': text}
        if text in partner_of:
            rec['partner'] = partner_of[text]
        if recv is not None:
            rec['recv'] = recv
            try:
                cpy = psi.copy()
                K['keep'].append(cpy)
                f(cpy)
            except Exception as e:
                rec['error'] = type(e).__name__ + ': ' + str(e)[:100]
        else:
            try:
                res = f()
                K['keep'].append(res)
            except Exception as e:
                rec['error'] = type(e).__name__ + ': ' + str(e)[:100]
        if 'obs' in K:
            rec['obs'] = K.pop('obs')
        after = snapshot(live)
        ch = {}
        for k in live:
            d = diff(before[k], after[k])
            if d:
                ch[k] = d[:12]
        rec['changed'] = ch
        before = after
        recs.append(rec)
    out['calls'] = recs
    return out
