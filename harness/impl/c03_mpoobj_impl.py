"""Runner of the stream `mpo-object` of harness/c03.py (generator and judge: harness/c03_mpoobj.py).

The whole-object fingerprint machinery of the stream `mps-object` (c03_mpsobj_impl.py) extended to MPO objects, Site objects,
lattices, term collections and models.  One case = one Site object `site` (spin-1/2, spin-1, fermion, boson; every `conserve`),
shared by a lattice `lat`, an MPS `psi`, and by EVERY MPO / MPOGraph / model built during the case:

  phase 1 (constructors): MPO.from_grids (entries: operator names, [(op, strength)], SUMS [(op1, s1), (op2, s2), ...] with unit and
      non-unit first prefactors), MPOGraph + add/add_string.../add_missing_IdL_IdR + build_MPO, OnsiteTerms/CouplingTerms +
      MPOGraph.from_terms + build_MPO, TermList + MPOGraph.from_term_list + build_MPO, CouplingModel(lat) + add_onsite/add_coupling +
      calc_H_MPO + MPOModel, a stock CouplingMPOModel built on the SAME lattice object (model parameter `lattice`), MPO.from_Wflat,
      MPO.from_wavepacket.  Every object that was built stays alive.
  phase 2 (random order): every public method / property / dunder of the MPO class found by REFLECTION that is not documented in-place
      with the argument variants of mpo_pure_table (make_U_I / make_U_II / make_U with real, imaginary and complex dt - the
      Hamiltonian itself is real or complex, depending on the case -, dagger, is_hermitian, is_equal, expectation_value*, variance,
      prefactor, to_TermList, plus_identity, overlap, distance, __add__, extract_segment, get_W, ...), the pure methods of the Site,
      MPOGraph and model classes, apply / apply_naively / apply_zipup on a copy of psi, MPOEnvironment,
  phase 3: every documented in-place method of MPO / Site / model on a fresh copy (shallow MPO.copy() where tenpy documents that
      the method may be used on it, deep copies otherwise): only the copy may change.

Live while all of this runs: the site, the lattice, psi, every MPO (plus a shallow copy `Hs` of the main MPO `H`), every graph, the
term collections, the models.  After EVERY call the WHOLE of every live object is fingerprinted from its __dict__ (Snap2): identity
and length of every list / dict, identity, dense values, dtype, labels, qtotal, identity and content of every leg of every stored
tensor; for sites ALL onsite operators (same observables), leg, perm, state labels, opnames, need_JW_string, hc_ops, JW_exponent.
The judge allows changes of the documented receiver only.

Representation, not value (reported separately as `axis_order`, never judged): the ORDER of the axes of a completely labelled
tensor.  tenpy addresses the legs of W tensors by label, and MPO.make_U_II / group_sites / _make_graph `itranspose` the stored W.
Lazily computed private caches (MPO._graph/_outer_permutation/_cycles, MPOGraph._ordered_states, Lattice._mps_sites_cache) are not
part of the observable state."""
import copy as pycopy
import hashlib
import inspect
import os
import sys
import warnings

import numpy as np

warnings.simplefilter('ignore')
sys.path.insert(0, os.path.dirname(os.path.abspath(__file__)))
import c04_impl as base  # noqa: E402   (dense)
import c03_mpsobj_impl as mo  # noqa: E402   (_leg_fp, _h, reflect, _save_hdf5)
import tenpy.linalg.np_conserved as npc  # noqa: E402
from tenpy.linalg import charges as chg  # noqa: E402

_h = mo._h
_leg_fp = mo._leg_fp

CACHE_ATTRS = {'_graph', '_outer_permutation', '_cycles', '_ordered_states', '_mps_sites_cache', '_rng'}
# TermList.order_combine (called by MPOGraph.from_term_list -> to_OnsiteTerms_CouplingTerms) re-creates the inner python lists of the
# TermList (equal values for terms that are already ordered): the identity of these lists is not judged, their values are
VALUE_ONLY = {'tl'}
SCALARS = (int, float, complex, str, bool, type(None), np.generic)

_VAL_MEMO = {}


def _val_hash(a, order):
    """hash of the dense values of a tensor with its axes brought into the order `order`; memoised under the raw storage"""
    try:
        hh = hashlib.sha1()
        for b in a._data:
            hh.update(np.ascontiguousarray(b).tobytes())
            hh.update(str(b.shape).encode())
        hh.update(np.ascontiguousarray(a._qdata).tobytes())
        for l in a.legs:
            hh.update(np.ascontiguousarray(l.slices).tobytes())
        hh.update(str(a.dtype).encode())
        hh.update(repr(tuple(order)).encode())
        key = hh.digest()
    except Exception as e:
        return 'BROKEN-RAW:' + type(e).__name__
    v = _VAL_MEMO.get(key)
    if v is None:
        try:
            d = np.transpose(base.dense(a), list(order))
            v = _h(np.ascontiguousarray(d).tobytes() + str(d.shape).encode())
        except Exception as e:
            v = 'BROKEN:' + type(e).__name__
        _VAL_MEMO[key] = v
    return v


class Snap2:
    """flat {part name: value} fingerprint of one object; keeps every visited object alive (ids stay unique)"""

    def __init__(self, obj, site_cache):
        self.parts = {}
        self.keep = []
        self.site_cache = site_cache
        self.visited = set()
        self.walk('', obj, 0, top=True)

    def put(self, name, v):
        self.parts[name] = v

    def array(self, name, a):
        self.keep.append(a)
        labels = list(a._labels)
        canon = all(isinstance(l, str) for l in labels) and len(set(labels)) == len(labels)
        order = sorted(range(len(labels)), key=lambda k: labels[k]) if canon else list(range(len(labels)))
        self.put(name + '#id', id(a))
        self.put(name + '.val', _val_hash(a, order))
        self.put(name + '.dtype', str(a.dtype))
        self.put(name + '.labels', repr(sorted(labels) if canon else labels))
        self.put(name + '.qtotal', repr([int(x) for x in a.qtotal]))
        self.put(name + '.rank', int(a.rank))
        for k in order:
            l = a.legs[k]
            self.keep.append(l)
            key = labels[k] if canon else k
            self.put(name + '.leg{%s}#id' % key, id(l))
            self.put(name + '.leg{%s}' % key, _leg_fp(l))
        self.put(name + '.consistent', (len(a._data) == int(np.asarray(a._qdata).shape[0])))
        self.put(name + '.axis_order', repr(labels))

    def site(self, name, s, top):
        self.keep.append(s)
        self.put(name + '#id', id(s))
        ent = self.site_cache.get(id(s))
        if ent is None:
            sub = Snap2.__new__(Snap2)
            sub.parts, sub.keep, sub.site_cache, sub.visited = {}, [], self.site_cache, {id(s)}
            sub.put('#class', type(s).__name__)
            for k in sorted(vars(s)):
                sub.walk(k, vars(s)[k], 1)
            body = {k: v for k, v in sub.parts.items() if not k.endswith('.axis_order')}
            ent = (s, sub.parts, _h(repr(sorted(body.items())).encode()), sub.keep)
            self.site_cache[id(s)] = ent      # fingerprinted once per snapshot (the site is shared by all objects of a case)
        if top:
            self.parts.update(ent[1])
        else:
            self.put(name + '.content', ent[2])

    def walk(self, name, x, depth, top=False):
        from tenpy.networks.site import Site
        if isinstance(x, npc.Array):
            return self.array(name, x)
        if isinstance(x, chg.LegCharge):
            self.keep.append(x)
            self.put(name + '#id', id(x))
            return self.put(name, _leg_fp(x))
        if isinstance(x, Site):
            return self.site(name, x, top)
        if isinstance(x, np.ndarray):
            self.keep.append(x)
            self.put(name + '#id', id(x))
            if x.dtype == object:
                return self.walk(name + '.items', list(x.flat), depth + 1)
            return self.put(name, _h(np.ascontiguousarray(x).tobytes() + str(x.shape).encode() + str(x.dtype).encode()))
        if isinstance(x, SCALARS):
            return self.put(name, repr(x))
        if isinstance(x, (list, tuple)):
            if isinstance(x, list):
                self.keep.append(x)
                self.put(name + '#id', id(x))
            self.put(name + '#len', len(x))
            if all(isinstance(y, SCALARS) for y in x) or depth > 8:
                return self.put(name, repr(x))
            for k, y in enumerate(x):
                self.walk('%s[%d]' % (name, k), y, depth + 1)
            return
        if isinstance(x, (set, frozenset)):
            self.keep.append(x)
            self.put(name + '#id', id(x))
            return self.put(name, repr(sorted(map(repr, x))))
        if isinstance(x, dict):
            self.keep.append(x)
            self.put(name + '#id', id(x))
            self.put(name + '#keys', repr([repr(k) for k in x.keys()]))       # insertion order is observable (order of grid entries)
            if depth > 8:
                return
            for k in list(x.keys()):
                self.walk('%s{%r}' % (name, k), x[k], depth + 1)
            return
        if isinstance(x, npc.ChargeInfo):
            self.keep.append(x)
            return self.put(name, repr((id(x), [int(m) for m in x.mod], list(x.names))))
        mod = type(x).__module__ or ''
        expandable = (hasattr(x, '__dict__') and mod.startswith('tenpy.') and not mod.startswith('tenpy.tools')
                      and not isinstance(x, type) and not callable(x))
        if (top or (expandable and depth <= 5)) and hasattr(x, '__dict__') and id(x) not in self.visited:
            self.visited.add(id(x))
            self.keep.append(x)
            self.put(name + '#class', type(x).__name__)
            self.put(name + '#id', id(x))
            for k in sorted(vars(x)):
                if k in CACHE_ATTRS:
                    continue
                self.walk((name + '.' if name else '') + k, vars(x)[k], depth + 1)
            return
        # everything else (Config, rng, logger, an object met a second time): identity only
        self.keep.append(x)
        self.put(name + '#ref', '%s@%d' % (type(x).__name__, id(x)))


def snapshot(objs):
    cache = {}
    return {k: Snap2(o, cache) for k, o in objs.items()}


def diff(s0, s1):
    a, b = s0.parts, s1.parts
    return sorted([k for k in a if k not in b or a[k] != b[k]] + [k for k in b if k not in a])


# ------------------------------------------------------------------------------------------------
# classification of the public interfaces (reflection)
# ------------------------------------------------------------------------------------------------

MPO_INPLACE_DOC = {'enlarge_mps_unit_cell', 'group_sites', 'sort_legcharges', 'set_W'}
# apply* : "Apply `self` to an MPS `psi` and compress `psi` in place" - in place on the ARGUMENT psi; the MPO is an operand
MPO_INPLACE_ARG = {'apply', 'apply_naively', 'apply_zipup'}
SITE_INPLACE_DOC = {'add_op', 'change_charge', 'remove_op', 'rename_op', 'sort_charge'}
GRAPH_INPLACE_DOC = {'add', 'add_string_left_to_right', 'add_string_right_to_left', 'add_missing_IdL_IdR'}
MODEL_INPLACE_DOC = {'add_coupling', 'add_coupling_term', 'add_exponentially_decaying_centered_terms', 'add_exponentially_decaying_coupling',
                     'add_local_term', 'add_multi_coupling', 'add_multi_coupling_term', 'add_onsite', 'add_onsite_term',
                     'enlarge_mps_unit_cell', 'group_sites', 'update_time_parameter', 'init_H_from_terms', 'init_terms'}


def reflect(cls):
    """public names + the dunder methods defined by the tenpy classes themselves (e.g. MPO.__add__)"""
    out = mo.reflect(cls)
    for k in cls.__mro__:
        if (k.__module__ or '').startswith('tenpy.'):
            for n, a in vars(k).items():
                if n.startswith('__') and n.endswith('__') and inspect.isfunction(a) and n not in (
                        '__init__', '__repr__', '__str__', '__getstate__', '__setstate__'):
                    out.setdefault(n, 'method')
    return out


def cplx(x):
    return complex(x[1], x[2]) if isinstance(x, list) else x


# ------------------------------------------------------------------------------------------------
# building blocks of a case
# ------------------------------------------------------------------------------------------------

def make_site(spec):
    from tenpy.networks import site as S
    kind, conserve = spec['kind'], spec['conserve']
    if kind == 'spinhalf':
        return S.SpinHalfSite(conserve=conserve)
    if kind == 'spin1':
        return S.SpinSite(S=1., conserve=conserve)
    if kind == 'fermion':
        return S.FermionSite(conserve=conserve)
    return S.BosonSite(Nmax=2, conserve=conserve)


def op_tables(site):
    """operators of the site that need no Jordan-Wigner string, grouped by their charge"""
    plain = [n for n in sorted(site.opnames) if not site.op_needs_JW(n)]
    neutral = [n for n in plain if not np.any(site.get_op(n).qtotal)]
    bycharge = {}
    for n in plain:
        bycharge.setdefault(tuple(int(q) for q in site.get_op(n).qtotal), []).append(n)
    pairs = [(n, site.get_hc_op_name(n)) for n in plain if n != 'Id' and site.get_hc_op_name(n) in plain]
    jw_pairs = [(n, site.get_hc_op_name(n)) for n in sorted(site.opnames) if site.op_needs_JW(n) and n != 'JW']
    return {'plain': plain, 'neutral': neutral, 'bycharge': bycharge, 'pairs': pairs, 'jw_pairs': jw_pairs}


def resolve(c, site):
    """abstract term specification of the generator -> operator names of this site"""
    T = op_tables(site)
    neutral = [n for n in T['neutral'] if n != 'Id'] or T['neutral']
    onsite = []
    for pick, s in c['onsite']:
        used = [o for o, _ in onsite]
        free = [neutral[(pick + t) % len(neutral)] for t in range(len(neutral)) if neutral[(pick + t) % len(neutral)] not in used]
        if free:
            onsite.append((free[0], cplx(s)))
    channels = []
    for ch in c['channels']:
        A, B = T['pairs'][ch['pair'] % len(T['pairs'])]
        same = T['bycharge'][tuple(int(q) for q in site.get_op(A).qtotal)]
        a_entry = [(A, cplx(ch['a'][0][1]))]
        for pick, s in ch['a'][1:]:
            a_entry.append((same[pick % len(same)], cplx(s)))
        channels.append({'A': A, 'B': B, 'a_entry': a_entry, 'J': cplx(ch['J']), 'form': ch['form']})
    return {'onsite': onsite, 'channels': channels, 'jw_pairs': T['jw_pairs'], 'tables': T}


def entry(ops, form):
    """one grid entry for the sum of (op, strength)"""
    if form == 'str' and len(ops) == 1 and ops[0][1] == 1.0:
        return ops[0][0]
    return [(o, s) for o, s in ops]


def build_grid(R):
    nch = len(R['channels'])
    D = nch + 2
    grid = [[None] * D for _ in range(D)]
    grid[0][0] = 'Id'
    grid[D - 1][D - 1] = 'Id'
    if R['onsite']:
        grid[0][D - 1] = entry(R['onsite'], 'sum')
    for k, ch in enumerate(R['channels']):
        grid[0][1 + k] = entry(ch['a_entry'], ch['form'])
        grid[1 + k][D - 1] = entry([(ch['B'], ch['J'])], ch['form'])
    return grid


class Prog:
    """the live objects of a case and the record of every call"""

    def __init__(self):
        self.live = {}
        self.keep = []
        self.recs = []
        self.before = None
        self.names = {}

    def start(self):
        self.before = snapshot(self.live)

    def call(self, group, text, f, recv=(), result=None, cls=None):
        """run f(); `recv`: names of live objects documented to change; `result`: name under which the result stays alive"""
        rec = {'group': group, 'call': text, 'recv': list(recv)}
        if cls:
            rec['cls'] = cls
        res = None
        try:
            res = f()
            self.keep.append(res)
        except Exception as e:
            rec['error'] = type(e).__name__ + ': ' + str(e)[:120]
        if result is not None and res is not None:
            self.live[result] = res
        after = snapshot(self.live)
        ch, order = {}, {}
        for k in self.before:
            d = diff(self.before[k], after[k])
            o = [p for p in d if p.endswith('.axis_order')]
            d = [p for p in d if not p.endswith('.axis_order')]
            if k in VALUE_ONLY:
                d = [p for p in d if not p.endswith('#id')]
            if d:
                ch[k] = d[:14]
            if o:
                order[k] = o[:6]
        rec['changed'] = ch
        if order:
            rec['axis_order_changed'] = order
        self.before = after
        self.recs.append(rec)
        return res


def build_psi(c, lat, site):
    from tenpy.networks.mps import MPS
    L = lat.N_sites
    labels = list(site.state_labels.keys()) or [0]
    st = [c['state'][i % len(c['state'])] % site.dim for i in range(L)]
    if site.leg.chinfo.qnumber and lat.bc_MPS == 'infinite':
        st = ([0, site.dim - 1] * L)[:L]
    psi = MPS.from_product_state(lat.mps_sites(), st, bc=lat.bc_MPS, unit_cell_width=lat.mps_unit_cell_width)
    if c.get('entangle', True):
        try:
            psi.perturb({'N_steps': 2, 'trunc_params': {'chi_max': 4}}, close_1=True, canonicalize=True)
        except Exception:
            pass
    return psi


def phase1(P, c, R):
    """constructors: every builder gets the SAME shared site / lattice"""
    from tenpy.networks.mpo import MPO, MPOGraph, grid_insert_ops
    from tenpy.networks.terms import OnsiteTerms, CouplingTerms, TermList
    from tenpy.models.model import CouplingModel, MPOModel
    site, lat = P.live['site'], P.live['lat']
    L, bc = lat.N_sites, lat.bc_MPS
    sites = lat.mps_sites()
    inf = bc == 'infinite'
    bonds = list(range(L if inf else L - 1))
    grid = build_grid(R)
    args = P.live['args']           # the caller's argument objects are operands, too
    args.update({'grid': grid, 'grids': [grid] * L, 'IdL': [0] * (L + 1), 'IdR': [-1] * (L + 1)})
    P.before = snapshot(P.live)
    P.call('MPO.from_grids', 'H_grid = MPO.from_grids([site]*%d, [grid]*%d, %r, IdL=[0]*(L+1), IdR=[-1]*(L+1)) with grid = %r' % (L, L, bc, grid),
           lambda: MPO.from_grids(sites, args['grids'], bc, IdL=args['IdL'], IdR=args['IdR'], mps_unit_cell_width=lat.mps_unit_cell_width), result='H_grid', cls='MPO')
    P.call('grid_insert_ops', 'grid_insert_ops(site, grid)', lambda: grid_insert_ops(site, grid), cls='MPO')
    # ---- graph by hand
    G = P.call('MPOGraph', 'G = MPOGraph(sites, bc)', lambda: MPOGraph(sites, bc, unit_cell_width=lat.mps_unit_cell_width), result='G', cls='MPOGraph')
    if G is not None:
        def fill():
            for i in range(L):
                for o, s in R['onsite']:
                    G.add(i, 'IdL', 'IdR', o, s)
            for k, ch in enumerate(R['channels']):
                for i in bonds:
                    for o, s in ch['a_entry']:
                        G.add(i, 'IdL', ('left', i, 'ch%d' % k, 'Id'), o, s)
                    G.add(i + 1, ('left', i, 'ch%d' % k, 'Id'), 'IdR', ch['B'], ch['J'])
            if L >= 3 and R['channels']:
                ch = R['channels'][0]      # one next-nearest neighbour term through an identity string
                G.add(0, 'IdL', ('left', 0, 'nnn', 'Id'), ch['A'], 1.0)
                lab = G.add_string_left_to_right(0, 2, ('left', 0, 'nnn', 'Id'), 'Id')
                G.add(2, lab, 'IdR', ch['B'], 0.25)
            G.max_range = 2
        P.call('MPOGraph.add', 'G.add(i, keyL, keyR, op, strength) for onsite %r / channels %r; add_string_left_to_right' % (
            R['onsite'], [(ch['a_entry'], ch['B'], ch['J']) for ch in R['channels']]), fill, recv=('G',), cls='MPOGraph')
        P.call('MPOGraph.add_missing_IdL_IdR', 'G.add_missing_IdL_IdR()', lambda: G.add_missing_IdL_IdR(), recv=('G',), cls='MPOGraph')
        P.call('MPOGraph.pure', 'G.has_edge, G.test_sanity, str(G), properties', lambda: [G.has_edge(0, 'IdL', 'IdR'), G.test_sanity(), str(G), repr(G), G.L, G.dim, G.finite, G.get_site(0)], cls='MPOGraph')
        P.call('MPOGraph.build_MPO', 'H_graph = G.build_MPO()', lambda: G.build_MPO(), result='H_graph', cls='MPOGraph')
    # ---- term collections

    def terms():
        ot, ct = OnsiteTerms(L), CouplingTerms(L)
        for i in range(L):
            for o, s in R['onsite']:
                ot.add_onsite_term(s, i, o)
        for ch in R['channels']:
            for i in bonds:
                ct.add_coupling_term(ch['a_entry'][0][1] * ch['J'], i, i + 1, ch['A'], ch['B'])
        for A, B in R['jw_pairs'][:1]:
            for i in bonds:
                ct.add_coupling_term(0.5, i, i + 1, A, B, 'JW')
                ct.add_coupling_term(0.5, i, i + 1, B, A, 'JW')
        return ot, ct
    tt = P.call('terms', 'ot, ct = OnsiteTerms(L), CouplingTerms(L) filled with the same terms', terms, cls='terms')
    if tt is not None:
        P.live['ot'], P.live['ct'] = tt
        P.before = snapshot(P.live)
        G2 = P.call('MPOGraph.from_terms', 'G2 = MPOGraph.from_terms((ot, ct), sites, bc)',
                    lambda: MPOGraph.from_terms(tt, sites, bc, unit_cell_width=lat.mps_unit_cell_width), result='G2', cls='MPOGraph')
        if G2 is not None:
            P.call('MPOGraph.build_MPO', 'H_terms = G2.build_MPO()', lambda: G2.build_MPO(), result='H_terms', cls='MPOGraph')
        P.call('terms.pure', 'ot.to_TermList(), ct.to_TermList(), ot.to_Arrays(sites), ct.to_nn_bond_Arrays(sites), ct.max_range()',
               lambda: [tt[0].to_TermList(), tt[1].to_TermList(), tt[0].to_Arrays(sites), tt[1].max_range(),
                        tt[1].to_nn_bond_Arrays(sites) if not R['jw_pairs'] else None], cls='terms')

    def termlist():
        terms, strengths = [], []
        for i in range(L):
            for o, s in R['onsite']:
                terms.append([(o, i)])
                strengths.append(s)
        for ch in R['channels']:
            for i in bonds:
                terms.append([(ch['A'], i), (ch['B'], i + 1)])
                strengths.append(ch['J'])
        return TermList(terms, strengths)
    tl = P.call('terms', 'tl = TermList(terms, strengths)', termlist, result='tl', cls='terms')
    if tl is not None:
        G3 = P.call('MPOGraph.from_term_list', 'G3 = MPOGraph.from_term_list(tl, sites, bc)',
                    lambda: MPOGraph.from_term_list(tl, sites, bc, unit_cell_width=lat.mps_unit_cell_width), result='G3', cls='MPOGraph')
        if G3 is not None:
            P.call('MPOGraph.build_MPO', 'H_tl = G3.build_MPO()', lambda: G3.build_MPO(), result='H_tl', cls='MPOGraph')
    # ---- a model assembled by hand on the shared lattice
    M = P.call('CouplingModel', 'M = CouplingModel(lat)', lambda: CouplingModel(lat), result='M', cls='model')
    if M is not None:
        def addterms():
            for o, s in R['onsite']:
                M.add_onsite(s, 0, o)
            for ch in R['channels']:
                J = ch['a_entry'][0][1] * ch['J']
                M.add_coupling(J, 0, ch['A'], 0, ch['B'], 1, plus_hc=bool(np.iscomplexobj(J)))
            for A, B in R['jw_pairs'][:1]:
                M.add_coupling(0.5, 0, A, 0, B, 1, plus_hc=True)
        P.call('model.add_terms', 'M.add_onsite(s, 0, op) for %r; M.add_coupling(J, 0, A, 0, B, 1) for %r' % (
            R['onsite'], [(ch['A'], ch['B'], ch['a_entry'][0][1] * ch['J']) for ch in R['channels']]), addterms, recv=('M',), cls='model')
        HM = P.call('model.calc_H_MPO', 'H_M = M.calc_H_MPO()', lambda: M.calc_H_MPO(), result='H_M', cls='model')
        P.call('model.pure', 'M.all_onsite_terms(), M.all_coupling_terms(), M.calc_H_bond(), M.test_sanity(), M.copy()',
               lambda: [M.all_onsite_terms(), M.all_coupling_terms(), M.calc_H_bond(), M.test_sanity(), M.copy()], cls='model')
        if HM is not None:
            P.call('MPOModel', 'MM = MPOModel(lat, H_M)', lambda: MPOModel(lat, HM), result='MM', cls='model')
    # ---- a stock model of tenpy on the SAME lattice object
    spec = c.get('stock')
    if spec:
        def stock():
            import importlib
            mod = importlib.import_module(spec['module'])
            pars = {k: cplx(v) for k, v in spec['params'].items()}
            pars['lattice'] = lat
            return getattr(mod, spec['cls'])(pars)
        SM = P.call('stock-model', 'SM = %s.%s(dict(lattice=lat, %s))' % (spec['module'], spec['cls'], spec['params']), stock, result='SM', cls='model')
        if SM is not None:
            P.live['H_SM'] = SM.H_MPO          # the MPO stored inside the model (same object)
            P.before = snapshot(P.live)
    # ---- other MPO constructors
    Hg = P.live.get('H_grid')
    if Hg is not None and not inf:
        P.call('MPO.from_Wflat', 'MPO.from_Wflat(sites, [H_grid.get_W(i).to_ndarray()], bc, H_grid.IdL, H_grid.IdR)',
               lambda: MPO.from_Wflat(sites, [Hg.get_W(i).transpose(['p', 'p*', 'wL', 'wR']).to_ndarray() for i in range(L)], bc, IdL=Hg.IdL, IdR=Hg.IdR, permute=False),
               result='H_flat', cls='MPO')
        o = (R['onsite'] or [('Id', 1.)])[0][0]
        P.call('MPO.from_wavepacket', 'MPO.from_wavepacket(sites, coeff, %r)' % o,
               lambda: MPO.from_wavepacket(sites, [1.0] + [0.5] * (L - 1), o), result='H_wave', cls='MPO')
    P.call('MPO.__init__', 'MPO(sites, [W of H_grid], bc, IdL, IdR): the constructor copies the tensors it is given',
           lambda: MPO(sites, list(Hg._W), bc, Hg.IdL, Hg.IdR, Hg.max_range, mps_unit_cell_width=lat.mps_unit_cell_width) if Hg is not None else None,
           result='H_init', cls='MPO')


def mpo_pure_table(H, P, c, R):
    """name -> list of (text, thunk) for every public MPO method that is not documented in-place"""
    from tenpy.networks.mpo import MPOEnvironment
    psi = P.live['psi']
    others = [(k, v) for k, v in P.live.items() if k.startswith('H_') and v is not H and type(v).__name__ == 'MPO' and v.L == H.L and v.bc == H.bc]
    Hs = P.live['Hs']
    L = H.L
    inf = H.bc == 'infinite'
    NS = L if inf else None
    T = {}

    def add(name, *items):
        lst = T.setdefault(name, [])
        for text, f in items:
            lst.append(('%s' % text, f))
    dts = [('-0.05', -0.05), ('-0.05j', -0.05j), ('(0.03-0.02j)', 0.03 - 0.02j)]
    add('make_U_I', *[('H.make_U_I(%s)' % t, lambda dt=dt: H.make_U_I(dt)) for t, dt in dts])
    add('make_U_II', *[('H.make_U_II(%s)' % t, lambda dt=dt: H.make_U_II(dt)) for t, dt in dts])
    add('make_U', *[('H.make_U(%s, %r)' % (t, ap), lambda dt=dt, ap=ap: H.make_U(dt, ap)) for t, dt in dts for ap in ('I', 'II')])
    add('dagger', ('H.dagger()', lambda: H.dagger()))
    add('is_hermitian', ('H.is_hermitian()', lambda: H.is_hermitian()))
    add('is_equal', ('H.is_equal(H)', lambda: H.is_equal(H)), ('H.is_equal(Hs)', lambda: H.is_equal(Hs)),
        *[('H.is_equal(%s)' % k, lambda v=v: H.is_equal(v)) for k, v in others[:2]],
        *[('%s.is_equal(H)' % k, lambda v=v: v.is_equal(H)) for k, v in others[:1]])
    add('expectation_value', ('H.expectation_value(psi)', lambda: H.expectation_value(psi)))
    add('expectation_value_finite', ('H.expectation_value_finite(psi)', lambda: H.expectation_value_finite(psi)))
    add('expectation_value_TM', ('H.expectation_value_TM(psi)', lambda: H.expectation_value_TM(psi)))
    add('expectation_value_power', ('H.expectation_value_power(psi)', lambda: H.expectation_value_power(psi, max_range=3 * L)))
    add('variance', ('H.variance(psi)', lambda: H.variance(psi)))
    ops2 = [R['channels'][0]['A'], R['channels'][0]['B']] if R['channels'] else ['Id', 'Id']
    add('prefactor', ('H.prefactor(0, %r)' % ops2, lambda: H.prefactor(0, ops2)),
        ('H.prefactor(%d, [op])' % (L // 2), lambda: H.prefactor(L // 2, [(R['onsite'] or [('Id', 1.)])[0][0]])))
    basis = R['tables']['plain']
    add('to_TermList', ('H.to_TermList(%r)' % basis, lambda: H.to_TermList(basis, max_range=3)))
    add('plus_identity', ('H.plus_identity(0.5, 2.)', lambda: H.plus_identity(0.5, 2.)), ('H.plus_identity(1., 1., sites=[1])', lambda: H.plus_identity(1., 1., sites=[1])))
    add('overlap', ('H.overlap(H)', lambda: H.overlap(H, understood_infinite=True, num_sites=NS)),
        *[('H.overlap(%s)' % k, lambda v=v: H.overlap(v, understood_infinite=True, num_sites=NS)) for k, v in others[:2]])
    add('distance', ('H.distance(Hs)', lambda: H.distance(Hs, understood_infinite=True, num_sites=NS)),
        *[('%s.distance(H)' % k, lambda v=v: v.distance(H, understood_infinite=True, num_sites=NS)) for k, v in others[:1]])
    add('__add__', ('H + H', lambda: H + H), ('H + Hs', lambda: H + Hs),
        *[('H + %s' % k, lambda v=v: H + v) for k, v in others[:2]], *[('%s + H' % k, lambda v=v: v + H) for k, v in others[:2]])
    add('extract_segment', ('H.extract_segment(1, L-1)', lambda: H.extract_segment(1, L - 1)), ('H.extract_segment(0, L-1)', lambda: H.extract_segment(0, L - 1)),
        ('H.extract_segment(1, 2L-2)', lambda: H.extract_segment(1, 2 * L - 2)) if inf else ('H.extract_segment(0, 0)', lambda: H.extract_segment(0, 0)))
    add('get_W', ('[H.get_W(i, copy) for all i, copy]', lambda: [H.get_W(i, copy=cp) for i in range(-1 if inf else 0, L + (1 if inf else 0)) for cp in (False, True)]))
    add('get_IdL', ('[H.get_IdL(i)]', lambda: [H.get_IdL(i) for i in range(L)]))
    add('get_IdR', ('[H.get_IdR(i)]', lambda: [H.get_IdR(i) for i in range(L)]))
    add('get_site', ('[H.get_site(i)]', lambda: [H.get_site(i) for i in range(L)]))
    add('copy', ('H.copy()', lambda: H.copy()), ('copy.deepcopy(H)', lambda: pycopy.deepcopy(H)))
    add('save_hdf5', ('save_to_hdf5(H)', lambda: mo._save_hdf5(H)))
    add('test_sanity', ('H.test_sanity()', lambda: H.test_sanity()))
    add('shift_Array_unit_cells', ('H.shift_Array_unit_cells(H.get_W(0), 1)', lambda: H.shift_Array_unit_cells(H.get_W(0), 1)))
    add('shift_Site_unit_cells', ('H.shift_Site_unit_cells(site, 1)', lambda: H.shift_Site_unit_cells(H.sites[0], 1)))
    add('shift_charges_unit_cells', ('H.shift_charges_unit_cells(charges, 1)', lambda: H.shift_charges_unit_cells(H.get_W(0).get_leg('wL').charges, 1)))

    def on_psi_copy(f):
        cp = psi.copy()
        P.keep.append(cp)
        return f(cp)
    opts = {'compression_method': 'SVD', 'trunc_params': {'chi_max': 12}}
    add('apply', ('H.apply(psi.copy(), SVD)', lambda: on_psi_copy(lambda x: H.apply(x, dict(opts)))),
        ('H.make_U_I(-0.05).apply(psi.copy(), SVD)', lambda: on_psi_copy(lambda x: H.make_U_I(-0.05).apply(x, dict(opts)))))
    add('apply_naively', ('H.apply_naively(psi.copy())', lambda: on_psi_copy(lambda x: H.apply_naively(x))))
    add('apply_zipup', ('H.apply_zipup(psi.copy())', lambda: on_psi_copy(lambda x: H.apply_zipup(x, {'trunc_params': {'chi_max': 12}}))))

    def env_program():
        env = MPOEnvironment(psi, H, psi)
        P.keep.append(env)
        out = [env.get_LP(L - 1), env.get_RP(0)]
        if not inf:
            out.append(env.full_contraction(L // 2))
        return out
    add('MPOEnvironment', ('MPOEnvironment(psi, H, psi).get_LP/get_RP/full_contraction', env_program))
    return T


def mpo_inplace_table(H, P):
    """documented in-place methods of the MPO: (text, make receiver, thunk).  group_sites / sort_legcharges / enlarge_mps_unit_cell
    rebind the lists of the receiver, so they run on the documented SHALLOW copy H.copy(); set_W writes into the list -> deep copy"""
    L = H.L
    T = {}
    T['group_sites'] = [('c = H.copy(); c.group_sites(2)', lambda: H.copy(), lambda x: x.group_sites(2)),
                        ('c = H.copy(); c.group_sites(2); c.make_U_II(-0.05); c.make_U_I(-0.05)', lambda: H.copy(),
                         lambda x: (x.group_sites(2), x.make_U_II(-0.05), x.make_U_I(-0.05)))]
    T['sort_legcharges'] = [('c = H.copy(); c.sort_legcharges()', lambda: H.copy(), lambda x: x.sort_legcharges())]
    T['enlarge_mps_unit_cell'] = [('c = H.copy(); c.enlarge_mps_unit_cell(2)', lambda: H.copy(), lambda x: x.enlarge_mps_unit_cell(2))]
    T['set_W'] = [('c = deepcopy(H); c.set_W(1, 2 * c.get_W(1))', lambda: pycopy.deepcopy(H), lambda x: x.set_W(1 % L, 2. * x.get_W(1 % L)))]
    return T


def site_calls(P, R):
    site = P.live['site']
    T = R['tables']
    n0 = T['plain'][0]
    n1 = T['plain'][-1]
    pure = {
        'get_op': lambda: [site.get_op(n) for n in sorted(site.opnames)] + [site.get_op('%s %s' % (n0, n1))],
        'get_hc_op_name': lambda: [site.get_hc_op_name(n) for n in sorted(site.opnames)],
        'multiply_op_names': lambda: site.multiply_op_names([n0, n1, n0]),
        'multiply_operators': lambda: site.multiply_operators([n0, site.get_op(n1)]),
        'op_needs_JW': lambda: [site.op_needs_JW(n) for n in sorted(site.opnames)],
        'state_index': lambda: [site.state_index(k) for k in list(site.state_labels)[:2]] + [site.state_index(0)],
        'state_indices': lambda: site.state_indices(list(site.state_labels)[:2]),
        'valid_opname': lambda: [site.valid_opname(n0), site.valid_opname('nonexistent'), site.valid_opname(n0 + ' ' + n1)],
        'charge_to_JW_signs': lambda: site.charge_to_JW_signs(site.leg.to_qflat()),
        'test_sanity': lambda: site.test_sanity(),
        'save_hdf5': lambda: mo._save_hdf5(site),
        'onsite_ops': lambda: dict(site.onsite_ops),
        'dim': lambda: site.dim,
    }

    def newop(x):
        return x.add_op('Xnew', 2. * x.get_op(n1).to_ndarray()[np.ix_(np.argsort(x.perm), np.argsort(x.perm))], hc=False)
    inplace = {
        'add_op': [lambda x: newop(x)],
        'rename_op': [lambda x: x.rename_op(n1, 'Renamed')],
        'remove_op': [lambda x: (newop(x), x.remove_op('Xnew'))],
        'change_charge': [lambda x: x.change_charge(), lambda x: x.change_charge(None, np.arange(x.dim)[::-1])],
        'sort_charge': [lambda x: x.sort_charge()],
    }
    return pure, inplace


def model_calls(P, name):
    M = P.live[name]
    psi = P.live['psi']
    L = M.lat.N_sites
    pure = {
        'calc_H_MPO': lambda: M.calc_H_MPO(),
        'calc_H_bond': lambda: M.calc_H_bond(),
        'calc_H_onsite': lambda: M.calc_H_onsite(),
        'calc_H_bond_from_MPO': lambda: M.calc_H_bond_from_MPO(),
        'calc_H_MPO_from_bond': lambda: M.calc_H_MPO_from_bond(),
        'all_onsite_terms': lambda: M.all_onsite_terms(),
        'all_coupling_terms': lambda: M.all_coupling_terms(),
        'bond_energies': lambda: M.bond_energies(psi),
        'copy': lambda: M.copy(),
        'trivial_like_NNModel': lambda: M.trivial_like_NNModel(),
        'test_sanity': lambda: M.test_sanity(),
        'save_hdf5': lambda: mo._save_hdf5(M),
        'extract_segment': lambda: M.extract_segment(1, L - 1),
        'estimate_RAM_saving_factor': lambda: M.estimate_RAM_saving_factor(),
        'get_extra_default_measurements': lambda: M.get_extra_default_measurements(),
        'coupling_strength_add_ext_flux': lambda: M.coupling_strength_add_ext_flux(1., [1], [0.3 if M.lat.bc_MPS == 'infinite' else 0.]),
    }
    o = sorted(n for n in M.lat.unit_cell[0].opnames if not M.lat.unit_cell[0].op_needs_JW(n))[-1]
    inplace = {
        'group_sites': [lambda x: x.group_sites(2)],
        'enlarge_mps_unit_cell': [lambda x: x.enlarge_mps_unit_cell(2)],
        'add_onsite': [lambda x: x.add_onsite(1.0, 0, o)],
        'add_onsite_term': [lambda x: x.add_onsite_term(1.0, 0, o)],
        'add_coupling': [lambda x: x.add_coupling(1.0, 0, o, 0, o, 1)],
        'add_coupling_term': [lambda x: x.add_coupling_term(1.0, 0, 1, o, o)],
        'add_local_term': [lambda x: x.add_local_term(1.0, [(o, [0, 0]), (o, [1, 0])])],
        'add_multi_coupling': [lambda x: x.add_multi_coupling(1.0, [(o, [0], 0), (o, [1], 0), (o, [2], 0)])],
        'add_multi_coupling_term': [lambda x: x.add_multi_coupling_term(1.0, [0, 1, 2], [o, o, o], ['Id', 'Id'])],
        'add_exponentially_decaying_coupling': [lambda x: x.add_exponentially_decaying_coupling(0.5, 0.3, o, o)],
        'add_exponentially_decaying_centered_terms': [lambda x: x.add_exponentially_decaying_centered_terms(0.5, 0.3, o, o, 0)],
        'init_H_from_terms': [lambda x: x.init_H_from_terms()],
    }
    return pure, inplace


# ------------------------------------------------------------------------------------------------
# one case
# ------------------------------------------------------------------------------------------------

def run_mpo_object(c):
    from tenpy.models.lattice import Chain
    from tenpy.networks.mpo import MPO, MPOGraph
    from tenpy.networks.site import Site
    rs = np.random.RandomState(c['seed'])
    P = Prog()
    site = make_site(c['site'])
    R = resolve(c, site)
    lat = Chain(c['L'], site, bc_MPS=c['bc'], bc='periodic' if c['bc'] == 'infinite' else 'open')
    P.live['site'] = site
    P.live['lat'] = lat
    P.live['psi'] = build_psi(c, lat, site)
    P.live['args'] = {}
    P.start()
    phase1(P, c, R)
    built = [k for k, v in P.live.items() if type(v).__name__ == 'MPO']
    main = c.get('main', 'H_grid')
    if main not in P.live:
        main = built[0] if built else None
    out = {'bc': c['bc'], 'L': c['L'], 'built': built, 'main': main,
           'resolved': {'onsite': repr(R['onsite']), 'channels': repr([(ch['a_entry'], ch['B'], ch['J'], ch['form']) for ch in R['channels']])},
           'unit_first_prefactor_sum': bool(len(R['onsite']) >= 2 and R['onsite'][0][1] == 1.0), 'coverage': {}}
    cov = out['coverage']
    if main is None:
        out['calls'] = P.recs
        return out
    H = P.live.pop(main)                      # the main MPO is live under the name `H` (out['main'] says how it was built)
    out['H_dtype'] = str(H.dtype)
    P.live['H'] = H
    P.live['Hs'] = H.copy()                   # documented shallow copy: shares the W tensors
    P.keep.append([H.get_W(i) for i in range(H.L)])
    P.before = snapshot(P.live)
    # ---- phase 2: everything that is not documented in-place, random order
    calls = []
    refl = reflect(MPO)
    table = mpo_pure_table(H, P, c, R)
    for n, kind in sorted(refl.items()):
        key = 'MPO.' + n
        if kind == 'property':
            cov[key] = 'property'
            calls.append(('MPO.' + n, 'H.' + n, lambda n=n: getattr(H, n), 'MPO'))
        elif kind in ('classmethod', 'staticmethod'):
            cov[key] = 'constructor (phase 1)' if n in ('from_grids', 'from_Wflat', 'from_wavepacket') else 'constructor/static (not called)'
        elif n in MPO_INPLACE_DOC:
            cov[key] = 'in-place (on a copy)'
        elif n in table:
            cov[key] = ('in-place on the argument psi (on psi.copy()) x%d' if n in MPO_INPLACE_ARG else 'pure x%d') % len(table[n])
            for text, f in table[n]:
                calls.append(('MPO.' + n, text, f, 'MPO'))
        else:
            cov[key] = 'UNCOVERED'
    for text, f in table.get('MPOEnvironment', []):
        calls.append(('MPOEnvironment', text, f, 'MPO'))
    spure, sinpl = site_calls(P, R)
    for n, kind in sorted(mo.reflect(type(site)).items()):
        key = 'Site.' + n
        if kind == 'property' and n not in spure:
            cov[key] = 'property'
            calls.append(('Site.' + n, 'site.' + n, lambda n=n: getattr(site, n), 'Site'))
        elif kind in ('classmethod', 'staticmethod'):
            cov[key] = 'constructor/static (not called)'
        elif n in SITE_INPLACE_DOC:
            cov[key] = 'in-place (on a deep copy) x%d' % len(sinpl.get(n, [])) if n in sinpl else 'UNCOVERED'
        elif n in spure:
            cov[key] = 'pure'
            calls.append(('Site.' + n, 'site.%s(...)' % n, spure[n], 'Site'))
        else:
            cov[key] = 'UNCOVERED' if kind == 'method' else 'attribute'
    for n, kind in sorted(reflect(MPOGraph).items()):
        cov['MPOGraph.' + n] = ('property' if kind == 'property' else 'constructor (phase 1)' if kind == 'classmethod' else
                                'in-place on the graph (phase 1)' if n in GRAPH_INPLACE_DOC else 'pure (phase 1)')
    models = [k for k in ('M', 'MM', 'SM') if k in P.live]
    minpl = {}
    for name in models:
        M = P.live[name]
        mp, mi = model_calls(P, name)
        minpl[name] = mi
        for n, kind in sorted(mo.reflect(type(M)).items()):
            key = 'model(%s).%s' % (type(M).__name__ if name != 'SM' else 'CouplingMPOModel', n)
            if kind == 'property':
                cov[key] = 'property'
                calls.append(('model.' + n, '%s.%s' % (name, n), lambda n=n, M=M: getattr(M, n), 'model'))
            elif kind in ('classmethod', 'staticmethod'):
                cov[key] = 'constructor/static (not called)'
            elif n in MODEL_INPLACE_DOC:
                cov[key] = 'in-place (on a copy)' if n in mi else 'in-place (not called)'
            elif n in mp:
                cov[key] = 'pure'
                calls.append(('model.' + n, '%s.%s(...)' % (name, n), mp[n], 'model'))
            elif kind == 'method':
                cov[key] = 'UNCOVERED' if n not in ('init_lattice', 'init_sites') else 'constructor hook (phase 1)'
            else:
                cov[key] = 'attribute'
    order = rs.permutation(len(calls))
    for i in order:
        group, text, f, cls = calls[i]
        P.call(group, text, f, cls=cls)
    # ---- phase 3: documented in-place methods on copies; only the copy may change
    for n, lst in sorted(mpo_inplace_table(H, P).items()):
        if n not in refl:
            continue
        for text, mk, f in lst:
            def run(mk=mk, f=f):
                x = mk()
                P.keep.append(x)
                f(x)
                return x
            P.call('MPO.' + n, text, run, cls='MPO')
    for n, lst in sorted(sinpl.items()):
        for k, f in enumerate(lst):
            def run(f=f):
                x = pycopy.deepcopy(site)
                P.keep.append(x)
                f(x)
                return x
            P.call('Site.' + n, 'c = deepcopy(site); c.%s#%d' % (n, k), run, cls='Site')
    for name in models:
        M = P.live[name]
        for n, lst in sorted(minpl[name].items()):
            if not hasattr(M, n):
                continue
            for k, f in enumerate(lst):
                shallow = n == 'group_sites'      # rebinds lat / H_MPO of the receiver; enlarge_mps_unit_cell works on the (shared) lattice

                def run(f=f, M=M, shallow=shallow):
                    x = M.copy() if shallow else pycopy.deepcopy(M)
                    P.keep.append(x)
                    f(x)
                    return x
                P.call('model.' + n, 'c = %s; c.%s#%d' % ('%s.copy()' % name if shallow else 'deepcopy(%s)' % name, n, k), run, cls='model')
    out['calls'] = P.recs
    return out
