"""Instance generators for C17: one (or several) for every class of tenpy that offers HDF5 export.
GENERATORS: name -> f(rng: np.random.Generator, **args) -> object.   f.variants = number of `variant` values.
COVERS: name -> full class names the generator is meant to exercise as the *root* object (the runner additionally
credits every class found inside the generated object)."""
import numpy as np

GENERATORS = {}


def gen(name, variants=1):
    def deco(f):
        f.variants = variants
        GENERATORS[name] = f
        return f
    return deco


# ---------------------------------------------------------------- charges

CHINFO_SPECS = [
    ([], None), ([1], None), ([1], ['N']), ([2], ['parity']), ([1, 2], ['N', 'P']), ([1, 1], None),
    ([3], ['Z3']), ([2, 2, 1], ['a', 'b', 'c']), ([5, 1], ['', 'Sz']),
]


def mk_chinfo(variant=0):
    from tenpy.linalg.charges import ChargeInfo
    mod, names = CHINFO_SPECS[variant % len(CHINFO_SPECS)]
    return ChargeInfo(mod, names)


@gen('chinfo', variants=len(CHINFO_SPECS))
def g_chinfo(rng, variant=0):
    return mk_chinfo(variant)


DIPOLAR_SPECS = [
    dict(mod=[1, 1], names=['N', 'P'], charge_idcs=[0], dipole_idcs=[1]),
    dict(mod=[1, 1], names=None, charge_idcs=[0], dipole_idcs=[1], dipole_dims=[0]),
    dict(mod=[1, 2, 1], names=['N', 'par', 'D'], charge_idcs=[0], dipole_idcs=[2], dipole_dims=[0]),
    dict(mod=[1], names=['N'], charge_idcs=[], dipole_idcs=[]),
    dict(mod=[1, 1, 1, 1], names=['a', 'Pa', 'b', 'Pb'], charge_idcs=[0, 2], dipole_idcs=[1, 3], dipole_dims=[0, 0]),
]


@gen('dipolar_chinfo', variants=len(DIPOLAR_SPECS))
def g_dipolar(rng, variant=0):
    from tenpy.linalg.charges import DipolarChargeInfo
    return DipolarChargeInfo(**DIPOLAR_SPECS[variant % len(DIPOLAR_SPECS)])


def rand_leg(rng, chinfo, nblocks=None, qconj=None, style=None):
    """style: 'sorted' (sorted+bunched), 'raw' (unsorted, repeated charges), 'qflat' (from_qflat), 'trivial'."""
    from tenpy.linalg.charges import LegCharge
    if nblocks is None:
        nblocks = int(rng.integers(1, 6))
    if qconj is None:
        qconj = int(rng.choice([1, -1]))
    style = style or str(rng.choice(['sorted', 'raw', 'qflat', 'raw']))
    sizes = rng.integers(1, 4, size=nblocks)
    ch = chinfo.make_valid(rng.integers(-2, 3, size=(nblocks, chinfo.qnumber)))
    if style == 'qflat':
        return LegCharge.from_qflat(chinfo, ch, qconj)
    leg = LegCharge.from_qind(chinfo, np.concatenate([[0], np.cumsum(sizes)]), ch, qconj)
    if style == 'sorted':
        _, leg = leg.sort(bunch=True)
    elif style == 'bunched':
        _, leg = leg.bunch()
    return leg


@gen('legcharge', variants=12)
def g_leg(rng, variant=0):
    return rand_leg(rng, mk_chinfo(variant), style=['sorted', 'raw', 'qflat', 'bunched'][variant % 4])


@gen('legcharge_trivial')
def g_leg_trivial(rng):
    from tenpy.linalg.charges import LegCharge
    return LegCharge.from_trivial(int(rng.integers(1, 7)))


@gen('legcharge_dipolar', variants=3)
def g_leg_dip(rng, variant=0):
    return rand_leg(rng, g_dipolar(rng, variant))


def rand_pipe(rng, chinfo, nlegs=2, sort=True, bunch=True, qconj=1):
    from tenpy.linalg.charges import LegPipe
    legs = [rand_leg(rng, chinfo, nblocks=int(rng.integers(1, 4))) for _ in range(nlegs)]
    return LegPipe(legs, qconj=qconj, sort=sort, bunch=bunch)


@gen('legpipe', variants=8)
def g_pipe(rng, variant=0):
    ch = mk_chinfo(variant + 1)
    sort, bunch = [(True, True), (False, False), (True, False), (True, True)][variant % 4]
    return rand_pipe(rng, ch, nlegs=2 + variant % 2, sort=sort, bunch=bunch, qconj=[1, -1][variant % 2])


@gen('legpipe_nested', variants=3)
def g_pipe_nested(rng, variant=0):
    from tenpy.linalg.charges import LegPipe
    ch = mk_chinfo(variant + 1)
    inner = rand_pipe(rng, ch, 2, sort=variant != 1, bunch=variant != 1)
    other = rand_leg(rng, ch, nblocks=2)
    return LegPipe([inner, other, inner.conj()], qconj=-1)


def rand_array(rng, chinfo, rank=2, dtype=float, labels=True, qtotal='random', fill=0.7):
    import tenpy.linalg.np_conserved as npc
    legs = [rand_leg(rng, chinfo, nblocks=int(rng.integers(1, 4))) for _ in range(rank)]
    if rank >= 2 and rng.random() < 0.6:       # make sure something is allowed by the charge rule
        legs[-1] = legs[0].conj()
    if qtotal == 'random':
        qtotal = chinfo.make_valid(rng.integers(-1, 2, size=chinfo.qnumber)) if rng.random() < 0.4 else None

    def f(shape):
        a = rng.normal(size=shape)
        if dtype == complex:
            a = a + 1j * rng.normal(size=shape)
        return a
    lab = [['a', 'b', 'c', 'd'][i] if rng.random() < 0.8 else None for i in range(rank)] if labels else None
    a = npc.Array.from_func(f, legs, dtype=np.dtype(dtype), qtotal=qtotal, labels=lab)
    if fill < 1.0 and len(a._data) > 1:       # drop some blocks
        keep = rng.random(len(a._data)) < fill
        a._data = [b for b, k in zip(a._data, keep) if k]
        a._qdata = a._qdata[keep]
    if rng.random() < 0.3 and len(a._data) > 1:  # unsorted qdata
        p = rng.permutation(len(a._data))
        a._data = [a._data[i] for i in p]
        a._qdata = a._qdata[p]
        a._qdata_sorted = False
    a.test_sanity()
    return a


@gen('array', variants=18)
def g_array(rng, variant=0):
    ch = mk_chinfo(variant)
    return rand_array(rng, ch, rank=1 + variant % 4, dtype=[float, complex][variant % 2])


@gen('array_dipolar')
def g_array_dip(rng):
    return rand_array(rng, g_dipolar(rng, 0), rank=2)


@gen('array_zero_blocks')
def g_array_zero(rng):
    import tenpy.linalg.np_conserved as npc
    ch = mk_chinfo(1)
    return npc.zeros([rand_leg(rng, ch), rand_leg(rng, ch)], labels=['p', 'p*'])


@gen('array_trivial', variants=2)
def g_array_trivial(rng, variant=0):
    import tenpy.linalg.np_conserved as npc
    a = rng.normal(size=(3, 4)) if variant == 0 else np.arange(6).reshape(2, 3)
    return npc.Array.from_ndarray_trivial(a, labels=['x', 'y'])


@gen('array_with_pipes', variants=4)
def g_array_pipes(rng, variant=0):
    ch = mk_chinfo(variant + 1)
    a = rand_array(rng, ch, rank=4, dtype=[float, complex][variant % 2], labels=False, fill=1.0)
    a.iset_leg_labels(['a', 'b', 'c', 'd'])
    b = a.combine_legs([['a', 'b'], ['c', 'd']] if variant % 2 == 0 else [['a', 'c']])
    if variant == 3:
        b = b.combine_legs([0, 1])
    return b


@gen('arrays_sharing_legs')
def g_arrays_sharing(rng):
    """several tensors sharing chinfo and leg objects, inside containers"""
    import tenpy.linalg.np_conserved as npc
    ch = mk_chinfo(1)
    l1, l2 = rand_leg(rng, ch), rand_leg(rng, ch)
    a = npc.Array.from_func(lambda shape: rng.normal(size=shape), [l1, l2, l1.conj()], labels=['a', 'b', 'c'])
    b = npc.Array.from_func(lambda shape: rng.normal(size=shape), [l2, l1], labels=['b', 'a'])
    c = a.copy(deep=False)
    return {'a': a, 'b': b, 'list': [a, b, c, l1], 'chinfo': ch, 'tuple': (l1, l2, l1)}


# ---- boundary: EMPTY legs (no block at all: block_number == 0, slices == [0], charges of shape (0, qnumber)); they come out
# of LegCharge.project / Array.iproject with an all-False mask

def empty_leg(rng, chinfo, qconj=1):
    full = rand_leg(rng, chinfo, nblocks=2, qconj=qconj, style='raw')
    _, _, e = full.project(np.zeros(full.ind_len, bool))
    assert e.block_number == 0 and e.ind_len == 0
    e.test_sanity()
    return e


@gen('legcharge_empty', variants=3)
def g_leg_empty(rng, variant=0):
    return empty_leg(rng, mk_chinfo([1, 0, 4][variant % 3]), qconj=[1, -1][variant % 2])


@gen('array_empty_leg', variants=3)
def g_array_empty_leg(rng, variant=0):
    import tenpy.linalg.np_conserved as npc
    ch = mk_chinfo(2)
    l1 = rand_leg(rng, ch, nblocks=3)
    if variant == 0:      # created with an empty leg
        return npc.zeros([l1, empty_leg(rng, ch, -1)], labels=['a', 'b'])
    a = npc.Array.from_func(lambda shape: rng.normal(size=shape), [l1, l1.conj(), l1], labels=['a', 'b', 'c'])
    if variant == 1:      # projected to nothing
        a.iproject(np.zeros(l1.ind_len, bool), 'b')
    else:                 # an empty leg and a projected (non-empty, fewer blocks) leg
        mask = np.zeros(l1.ind_len, bool)
        mask[0] = True
        a.iproject([np.zeros(l1.ind_len, bool), mask], ['a', 'c'])
    a.test_sanity()
    return a


@gen('legpipe_empty_leg')
def g_pipe_empty_leg(rng):
    from tenpy.linalg.charges import LegPipe
    ch = mk_chinfo(1)
    return LegPipe([rand_leg(rng, ch, nblocks=2), empty_leg(rng, ch)], qconj=-1)


# ---------------------------------------------------------------- sites

SITE_SPECS = [
    ('SpinHalfSite', dict(conserve='Sz')), ('SpinHalfSite', dict(conserve='parity')), ('SpinHalfSite', dict(conserve=None)),
    ('SpinHalfSite', dict(conserve='Sz', sort_charge=False)),
    ('SpinSite', dict(S=1., conserve='Sz')), ('SpinSite', dict(S=1.5, conserve='parity')), ('SpinSite', dict(S=0.5, conserve=None)),
    ('FermionSite', dict(conserve='N')), ('FermionSite', dict(conserve='parity', filling=0.25)), ('FermionSite', dict(conserve=None)),
    ('SpinHalfFermionSite', dict(cons_N='N', cons_Sz='Sz')), ('SpinHalfFermionSite', dict(cons_N='parity', cons_Sz='parity')),
    ('SpinHalfFermionSite', dict(cons_N=None, cons_Sz=None)),
    ('SpinHalfHoleSite', dict(cons_N='N', cons_Sz='Sz')), ('SpinHalfHoleSite', dict(cons_N='parity', cons_Sz=None)),
    ('BosonSite', dict(Nmax=2, conserve='N')), ('BosonSite', dict(Nmax=3, conserve='parity', filling=0.5)), ('BosonSite', dict(Nmax=1, conserve=None)),
    ('ClockSite', dict(q=3, conserve='Z')), ('ClockSite', dict(q=4, conserve=None)),
]


def mk_site(i):
    from tenpy.networks import site
    name, kw = SITE_SPECS[i % len(SITE_SPECS)]
    return getattr(site, name)(**kw)


@gen('site', variants=len(SITE_SPECS))
def g_site(rng, variant=0):
    return mk_site(variant)


@gen('site_plain', variants=2)
def g_site_plain(rng, variant=0):
    from tenpy.networks.site import Site
    import tenpy.linalg.np_conserved as npc
    ch = mk_chinfo(1 if variant == 0 else 0)
    leg = rand_leg(rng, ch, nblocks=3, qconj=1, style='sorted')
    s = Site(leg, ['s%d' % i for i in range(leg.ind_len)])
    s.add_op('D', np.diag(np.arange(leg.ind_len, dtype=float)))
    return s


@gen('grouped_site', variants=4)
def g_grouped(rng, variant=0):
    from tenpy.networks.site import GroupedSite, SpinHalfSite, FermionSite, BosonSite
    if variant == 0:
        return GroupedSite([SpinHalfSite('Sz'), SpinHalfSite('Sz')], charges='same')
    if variant == 1:
        return GroupedSite([FermionSite('N'), FermionSite('N')], labels=['a', 'b'], charges='independent')
    if variant == 2:
        return GroupedSite([SpinHalfSite('Sz'), SpinHalfSite('Sz')], charges='drop')
    return GroupedSite([BosonSite(2, 'N'), BosonSite(2, 'N'), BosonSite(2, 'N')], charges='same')


# ---------------------------------------------------------------- MPS / MPO and friends

def mk_mps(rng, variant=0):
    from tenpy.networks.mps import MPS
    from tenpy.networks.site import SpinHalfSite, FermionSite, SpinSite
    bc = ['finite', 'infinite', 'segment'][variant % 3]
    which = (variant // 3) % 4
    if which == 0:
        s = SpinHalfSite('Sz')
        psi = MPS.from_product_state([s] * 4, ['up', 'down', 'up', 'down'], bc=bc)
    elif which == 1:
        s = SpinHalfSite('Sz')
        psi = MPS.from_singlets(s, 6, [(0, 3), (1, 2), (4, 5)], bc=bc if bc != 'segment' else 'finite')
    elif which == 2:
        s = FermionSite('N')
        psi = MPS.from_product_state([s] * 3, ['full', 'empty', 'full'], bc=bc, dtype=complex)
        psi.norm = 0.5
    else:
        s = SpinSite(1., None)
        psi = MPS.from_random_unitary_evolution([s] * 4, 4, [0, 1, 2, 0], bc='finite' if bc == 'segment' else bc) \
            if hasattr(MPS, 'from_random_unitary_evolution') else MPS.from_product_state([s] * 4, [0, 1, 2, 0], bc=bc)
    psi.test_sanity()
    return psi


@gen('mps', variants=12)
def g_mps(rng, variant=0):
    return mk_mps(rng, variant)


@gen('mps_segment_extracted')
def g_mps_seg(rng):
    from tenpy.networks.mps import MPS
    from tenpy.networks.site import SpinHalfSite
    s = SpinHalfSite('Sz')
    psi = MPS.from_singlets(s, 6, [(0, 3), (1, 2), (4, 5)], bc='infinite')
    return psi.extract_segment(1, 4)


@gen('mps_segment_first0', variants=3)
def g_mps_seg0(rng, variant=0):
    """segments starting at site 0 / covering exactly the unit cell / a single site"""
    from tenpy.networks.mps import MPS
    from tenpy.networks.site import SpinHalfSite
    s = SpinHalfSite('Sz')
    psi = MPS.from_singlets(s, 6, [(0, 3), (1, 2), (4, 5)], bc='infinite')
    seg = psi.extract_segment(*[(0, 3), (0, 5), (0, 0)][variant % 3])
    seg.test_sanity()
    return seg


@gen('mpo_segment', variants=3)
def g_mpo_seg(rng, variant=0):
    m = mk_model('tenpy.models.tf_ising.TFIChain', 0)       # infinite, L = 3
    seg = m.H_MPO.extract_segment(*[(0, 2), (0, 4), (1, 3)][variant % 3])
    seg.test_sanity()
    return seg


@gen('purification_mps', variants=2)
def g_pur(rng, variant=0):
    from tenpy.networks.purification_mps import PurificationMPS
    from tenpy.networks.site import SpinHalfSite
    s = SpinHalfSite('Sz')
    if variant == 0:
        return PurificationMPS.from_infiniteT([s] * 3, bc='finite')
    return PurificationMPS.from_infiniteT([s] * 2, bc='infinite')


@gen('uniform_mps', variants=2)
def g_umps(rng, variant=0):
    from tenpy.networks.uniform_mps import UniformMPS
    from tenpy.networks.mps import MPS
    from tenpy.networks.site import SpinHalfSite
    s = SpinHalfSite(conserve='None', sort_charge=False)
    if variant == 0:        # from_MPS: diagonal gauge, singular values _S defined
        psi = MPS.from_product_state([s] * 4, [0, 1, 0, 1], bc='infinite', unit_cell_width=4)
        return UniformMPS.from_MPS(psi)
    # plain constructor: diagonal_gauge False, no _S; unit_cell_width differs from len(sites) (two sites per lattice unit cell)
    psi = MPS.from_product_state([s] * 4, [0, 1, 0, 1], bc='infinite', unit_cell_width=2)
    u = UniformMPS.from_MPS(psi)
    return UniformMPS(u.sites, u._AL, u._AR, u._AC, u._C, norm=1., unit_cell_width=2)


@gen('momentum_mps')
def g_momentum(rng):
    from tenpy.networks.momentum_mps import MomentumMPS
    u = g_umps(rng)
    exc = []
    for B in u._AC:
        B = B.copy()
        B[0, 0, 0] += 1
        exc.append(B / B.norm())
    return MomentumMPS(exc, u, p=0.5)


@gen('mpo', variants=4)
def g_mpo(rng, variant=0):
    m = mk_model('tenpy.models.tf_ising.TFIChain' if variant % 2 == 0 else 'tenpy.models.xxz_chain.XXZChain2',
                 variant // 2)
    H = m.H_MPO
    H.test_sanity()
    return H


@gen('mpo_from_grids')
def g_mpo_grids(rng):
    from tenpy.networks.mpo import MPO
    from tenpy.networks.site import SpinHalfSite
    s = SpinHalfSite('Sz')
    grid = [[s.Id, s.Sp, s.Sm, s.Sz], [None, None, None, s.Sm], [None, None, None, s.Sp], [None, None, None, s.Id]]
    return MPO.from_grids([s] * 3, [grid] * 3, 'infinite', 0, 3, max_range=1)


# ---- attributes whose loader has a fallback default (legacy files): instances whose value DIFFERS from that default, so that
# a value which is not written / not read back cannot be masked by the default

@gen('mps_options', variants=5)
def g_mps_options(rng, variant=0):
    from tenpy.networks.mps import MPS
    from tenpy.networks.site import SpinHalfSite
    s = SpinHalfSite('Sz')
    if variant == 0:       # unit_cell_width != len(sites)
        psi = MPS.from_product_state([s] * 4, ['up', 'down'] * 2, bc='infinite', unit_cell_width=2)
    elif variant == 1:     # grouped sites
        psi = MPS.from_singlets(s, 4, [(0, 1), (2, 3)], bc='finite')
        psi.group_sites(2)
    elif variant == 2:     # non-canonical / mixed forms, norm != 1, _transfermatrix_keep != default
        psi = MPS.from_singlets(s, 4, [(0, 3), (1, 2)], bc='infinite')
        psi.form = [None, (1., 0.), (0.5, 0.5), (0., 1.)]
        psi._transfermatrix_keep = 3
        psi.norm = 0.25
        return psi         # (test_sanity of mixed forms is fine; canonical_form() would change it)
    elif variant == 3:     # complex tensors, singular values on a cut of dimension > 1
        psi = MPS.from_singlets(s, 4, [(0, 2), (1, 3)], bc='finite')
        for i in range(psi.L):
            psi.set_B(i, psi.get_B(i) * (1. + 0.j), 'B')
        psi.dtype = np.dtype(complex)
    else:                  # segment with non-trivial segment_boundaries
        psi0 = MPS.from_singlets(s, 6, [(0, 3), (1, 2), (4, 5)], bc='finite')
        psi = psi0.extract_segment(1, 4)
    psi.test_sanity()
    return psi


@gen('mpo_options', variants=5)
def g_mpo_options(rng, variant=0):
    m = mk_model('tenpy.models.tf_ising.TFIChain', 1)       # finite, L = 4
    H = m.H_MPO
    if variant == 0:       # explicit_plus_hc = True
        from tenpy.models.xxz_chain import XXZChain2
        H = XXZChain2(dict(L=4, Jxx=1., Jz=0.5, hz=0.1, bc_MPS='finite', explicit_plus_hc=True)).H_MPO
        assert H.explicit_plus_hc
    elif variant == 1:     # grouped
        H = H.copy()
        H.group_sites(2)
        assert H.grouped == 2
    elif variant == 2:     # time evolution operator: max_range inf, IdL/IdR lists, complex
        H = H.make_U_II(0.05j)
    elif variant == 3:     # infinite MPO of a ladder: unit_cell_width != len(sites)
        H = mk_model('tenpy.models.tf_ising.TFIModel', 1).H_MPO
        assert H.unit_cell_width != len(H.sites)
    else:                  # sorted legs
        from tenpy.models.tf_ising import TFIChain
        H = TFIChain(dict(L=3, bc_MPS='infinite', J=1., g=0.7, sort_mpo_legs=True)).H_MPO
    H.test_sanity()
    return H


@gen('model_grouped', variants=3)
def g_model_grouped(rng, variant=0):
    """group_sites replaces the lattice by lat.with_grouped_sites(...): a TrivialLattice whose mps_unit_cell_width is NOT Ls[0]"""
    if variant == 0:
        m = g_mpo_model(rng)
    elif variant == 1:
        m = g_nn_model(rng)
    else:
        from tenpy.models.model import MPOModel
        m0 = mk_model('tenpy.models.tf_ising.TFIModel', 1)      # infinite ladder
        m = MPOModel(m0.lat, m0.H_MPO)
    m.group_sites(2)
    m.test_sanity()
    return m


@gen('lattice_grouped', variants=2)
def g_lattice_grouped(rng, variant=0):
    from tenpy.networks.site import group_sites
    lat = mk_lattice(['Chain', 'Ladder'][variant % 2], 1)
    res = lat.with_grouped_sites(group_sites(lat.mps_sites(), 2, charges='same'))
    res.test_sanity()
    return res


@gen('model_options', variants=2)
def g_model_options(rng, variant=0):
    from tenpy.models.tf_ising import TFIChain
    from tenpy.models.xxz_chain import XXZChain2
    if variant == 0:
        m = XXZChain2(dict(L=4, Jxx=1., Jz=0.5, hz=0.1, bc_MPS='finite', explicit_plus_hc=True, sort_mpo_legs=True))
    else:
        m = TFIChain(dict(L=2, bc_MPS='infinite', J=1.5, g=0.25, conserve='parity', sort_charge=True))
    m.test_sanity()
    return m


@gen('simulation_results', variants=2)
def g_simulation_results(rng, variant=0):
    """what a simulation stores: results dict with simulation_parameters, psi, measurements, resume_data (environments, psi shared)"""
    import logging
    import tenpy
    logging.disable(logging.CRITICAL)
    p = dict(simulation_class_name='GroundStateSearch', model_class=['TFIChain', 'XXZChain'][variant % 2],
             model_params=[{'L': 4, 'bc_MPS': 'finite', 'g': 0.5}, {'L': 4, 'bc_MPS': 'finite', 'Jz': 0.5}][variant % 2],
             algorithm_class=['TwoSiteDMRGEngine', 'SingleSiteDMRGEngine'][variant % 2],
             algorithm_params={'trunc_params': {'chi_max': 6, 'svd_min': 1.e-10}, 'max_sweeps': 2, 'mixer': True},
             initial_state_params={'method': 'lat_product_state', 'product_state': [['up'], ['down']]},
             connect_measurements=[['tenpy.simulations.measurement', 'm_onsite_expectation_value', {'opname': ['Sigmaz', 'Sz'][variant % 2]}]],
             save_resume_data=True, log_params={'to_stdout': None, 'to_file': None})
    try:
        res = tenpy.run_simulation(**p)
    finally:
        logging.disable(logging.NOTSET)
    res['version_info'] = {k: v for k, v in res.get('version_info', {}).items() if k != 'cwd'} if isinstance(res.get('version_info'), dict) else None
    return res


# ---------------------------------------------------------------- lattices

def mk_lattice(name, variant=0):
    from tenpy.models import lattice as L
    from tenpy.networks.site import SpinHalfSite, SpinSite
    s = SpinHalfSite('Sz')
    f = SpinSite(1., 'Sz')      # same ChargeInfo as s
    bc_MPS = ['finite', 'infinite'][variant % 2]
    bc = ['open', 'periodic'][variant % 2]
    if name == 'Lattice':
        return L.Lattice([2, 2], [s, f], bc=[bc, 'periodic'], bc_MPS=bc_MPS, basis=[[1., 0.], [0.5, 1.]],
                         positions=[[0., 0.], [0.25, 0.5]], pairs={'nearest_neighbors': [(0, 1, np.array([0, 0]))]})
    if name == 'TrivialLattice':
        return L.TrivialLattice([s, f, s], bc_MPS=bc_MPS, bc=bc)
    if name == 'SimpleLattice':
        return L.SimpleLattice([2, 3], s, bc_MPS=bc_MPS, bc=[bc, 'periodic'])
    if name == 'Chain':
        return L.Chain(4, s, bc_MPS=bc_MPS, bc=bc, order=['default', 'folded'][variant % 2])
    if name == 'Ladder':
        return L.Ladder(2, [s, f], bc_MPS=bc_MPS, bc=bc)
    if name == 'NLegLadder':
        return L.NLegLadder(2, 3, s, bc_MPS=bc_MPS, bc=bc)
    if name == 'Square':
        return L.Square(2, 2, s, bc_MPS=bc_MPS, bc=[bc, 'periodic'], order=['default', 'snake'][variant % 2])
    if name == 'Triangular':
        return L.Triangular(2, 2, s, bc_MPS=bc_MPS, bc=[bc, 'periodic'])
    if name == 'Honeycomb':
        return L.Honeycomb(2, 2, [s, s], bc_MPS=bc_MPS, bc=[bc, 'periodic'])
    if name == 'Kagome':
        return L.Kagome(2, 2, s, bc_MPS=bc_MPS, bc=[bc, 'periodic'])
    if name == 'MultiSpeciesLattice':
        return L.MultiSpeciesLattice(L.Square(2, 2, None, bc_MPS=bc_MPS, bc=[bc, 'periodic']), [s, f], ['A', 'B'])
    if name == 'IrregularLattice':
        reg = L.Square(3, 2, s, bc_MPS='finite', bc=['open', 'periodic'])
        if variant % 2 == 0:
            return L.IrregularLattice(reg, remove=[[0, 0, 0], [2, 1, 0]])
        return L.IrregularLattice(reg, add=([[1, 0, 1]], [None]), add_unit_cell=[f], add_positions=[[0.5, 0.5]])
    if name == 'HelicalLattice':
        if variant % 2 == 0:
            reg = L.Square(2, 3, s, bc_MPS='infinite', bc=['periodic', -1])
            return L.HelicalLattice(reg, 1)
        # two sites per lattice unit cell: N_sites (4) differs from the number of unit cells in the MPS unit cell (2)
        reg = L.Honeycomb(2, 3, [s, f], order='Cstyle', bc_MPS='infinite', bc=['periodic', -1])
        return L.HelicalLattice(reg, 2)
    if name == 'DualSquare':
        from tenpy.models.toric_code import DualSquare
        return DualSquare(2, 2, s, bc_MPS=bc_MPS, bc=[bc, 'periodic'])
    if name == 'MixedXKLattice':
        m = mk_model('tenpy.models.mixed_xk.SpinlessMixedXKSquare', variant)
        return m.lat
    raise KeyError(name)


LATTICES = ['Lattice', 'TrivialLattice', 'SimpleLattice', 'Chain', 'Ladder', 'NLegLadder', 'Square', 'Triangular',
            'Honeycomb', 'Kagome', 'MultiSpeciesLattice', 'IrregularLattice', 'HelicalLattice', 'DualSquare',
            'MixedXKLattice']

for _n in LATTICES:
    def _mk(rng, variant=0, _n=_n):
        lat = mk_lattice(_n, variant)
        lat.test_sanity()
        return lat
    gen('lattice:' + _n, variants=2)(_mk)


@gen('lattice_segment')
def g_lattice_segment(rng):
    lat = mk_lattice('Chain', 1)
    if hasattr(lat, 'extract_segment'):
        return lat.extract_segment(1, 2)
    return lat


# segments of every lattice class: Lattice.extract_segment marks the copy with bc_MPS='segment' and the OPTIONAL attribute
# segment_first_last = (first, last); the boundary values matter (first == 0 whenever the segment starts at the first
# site, last == N_sites - 1, a single site first == last == 0)
SEGMENT_MODES = ['finite:0..N-1', 'infinite:enlarge', 'infinite:defaults', 'first>0', 'first=0,last<N-1']


def mk_segment_lattice(rng, name, variant=0):
    mode = SEGMENT_MODES[variant % len(SEGMENT_MODES)]
    if mode == 'finite:0..N-1':
        lat = mk_lattice(name, 0)           # (a few classes exist only with infinite bc_MPS: same call)
        return lat.extract_segment(0, lat.N_sites - 1)
    lat = mk_lattice(name, 1)
    if mode == 'infinite:enlarge':
        if lat.bc_MPS != 'infinite':
            return lat.extract_segment(first=0)
        return lat.extract_segment(enlarge=int(rng.integers(2, 4)))
    if mode == 'infinite:defaults':
        return lat.extract_segment()
    N = lat.N_sites
    # (building the IrregularLattice of the cut fails inside tenpy for some classes/ranges - MultiSpeciesLattice beyond the
    #  unit cell, nested IrregularLattice, HelicalLattice: constructing the ORIGINAL is not what C17 is about, take the
    #  next candidate range; the last candidate always works)
    if mode == 'first>0':                  # (becomes an IrregularLattice with the sites outside removed)
        first = int(rng.integers(1, N)) if N > 1 else 0
        last = int(rng.integers(first, 2 * N if lat.bc_MPS == 'infinite' else N))
        cands = [(first, last), (first, min(last, N - 1)), (1, N - 1), (0, N - 1)]
    else:                                  # first == 0 but sites removed at the end
        cands = [(0, int(rng.integers(0, N - 1)) if N > 1 else 0), (0, max(N - 2, 0)), (0, N - 1)]
    for i, (first, last) in enumerate(cands):
        try:
            seg = lat.extract_segment(first, last)
            seg.test_sanity()
            return seg
        except Exception:
            if i == len(cands) - 1:
                raise


for _n in LATTICES:
    def _mks(rng, variant=0, _n=_n):
        seg = mk_segment_lattice(rng, _n, variant)
        assert seg.bc_MPS == 'segment' and hasattr(seg, 'segment_first_last')
        seg.test_sanity()
        return seg
    gen('lattice_segment:' + _n, variants=len(SEGMENT_MODES))(_mks)


@gen('lattice_disorder')
def g_lattice_disorder(rng):
    from tenpy.models import lattice as L
    from tenpy.networks.site import SpinHalfSite
    lat = L.Square(2, 2, SpinHalfSite('Sz'), bc_MPS='finite')
    lat.position_disorder = rng.normal(size=(2, 2, 1, 2)) * 0.01
    return lat


# ---------------------------------------------------------------- models

MODEL_PARAMS = {
    'tenpy.models.tf_ising.TFIChain': [dict(L=3, bc_MPS='infinite', J=1., g=0.7), dict(L=4, bc_MPS='finite', conserve=None)],
    'tenpy.models.tf_ising.TFIModel': [dict(lattice='Square', Lx=2, Ly=2, bc_MPS='finite'), dict(lattice='Ladder', L=2, bc_MPS='infinite')],
    'tenpy.models.xxz_chain.XXZChain': [dict(L=4, Jxx=1., Jz=0.5, hz=0.1, bc_MPS='finite'), dict(L=2, bc_MPS='infinite')],
    'tenpy.models.xxz_chain.XXZChain2': [dict(L=4, Jxx=1., Jz=0.5, hz=0.1, bc_MPS='finite'), dict(L=2, bc_MPS='infinite', sort_charge=True)],
    'tenpy.models.spins.SpinChain': [dict(L=3, S=1., Jz=0.5, bc_MPS='finite'), dict(L=2, S=0.5, conserve='parity', Jx=0.3, bc_MPS='infinite')],
    'tenpy.models.spins.SpinModel': [dict(lattice='Square', Lx=2, Ly=2, S=0.5, bc_MPS='finite'), dict(lattice='Chain', L=2, bc_MPS='infinite', conserve=None, hx=0.2)],
    'tenpy.models.spins.DipolarSpinChain': [dict(L=4, S=1, bc_MPS='finite'), dict(L=4, S=1, bc_MPS='infinite')],
    'tenpy.models.spins_nnn.SpinChainNNN': [dict(L=2, bc_MPS='finite'), dict(L=2, bc_MPS='infinite')],
    'tenpy.models.spins_nnn.SpinChainNNN2': [dict(L=4, bc_MPS='finite'), dict(L=4, bc_MPS='infinite', Jzp=0.3)],
    'tenpy.models.fermions_spinless.FermionChain': [dict(L=4, V=0.5, bc_MPS='finite'), dict(L=2, bc_MPS='infinite', conserve='parity')],
    'tenpy.models.fermions_spinless.FermionModel': [dict(lattice='Square', Lx=2, Ly=2, bc_MPS='finite'), dict(lattice='Ladder', L=2, bc_MPS='infinite')],
    'tenpy.models.hubbard.BoseHubbardChain': [dict(L=3, n_max=2, U=1., bc_MPS='finite'), dict(L=2, n_max=2, bc_MPS='infinite', conserve='parity')],
    'tenpy.models.hubbard.BoseHubbardModel': [dict(lattice='Square', Lx=2, Ly=2, n_max=1, bc_MPS='finite'), dict(lattice='Chain', L=2, bc_MPS='infinite')],
    'tenpy.models.hubbard.DipolarBoseHubbardChain': [dict(L=4, Nmax=2, bc_MPS='finite'), dict(L=4, Nmax=1, bc_MPS='infinite')],
    'tenpy.models.hubbard.FermiHubbardChain': [dict(L=3, U=2., bc_MPS='finite'), dict(L=2, bc_MPS='infinite', cons_Sz='parity')],
    'tenpy.models.hubbard.FermiHubbardModel': [dict(lattice='Square', Lx=2, Ly=2, bc_MPS='finite'), dict(lattice='Chain', L=2, bc_MPS='infinite')],
    'tenpy.models.hubbard.FermiHubbardModel2': [dict(lattice='Chain', L=3, bc_MPS='finite'), dict(lattice='Chain', L=2, bc_MPS='infinite')],
    'tenpy.models.tj_model.tJChain': [dict(L=3, bc_MPS='finite'), dict(L=2, bc_MPS='infinite')],
    'tenpy.models.tj_model.tJModel': [dict(lattice='Square', Lx=2, Ly=2, bc_MPS='finite'), dict(lattice='Chain', L=2, bc_MPS='infinite')],
    'tenpy.models.aklt.AKLTChain': [dict(L=3, bc_MPS='finite'), dict(L=2, bc_MPS='infinite')],
    'tenpy.models.clock.ClockChain': [dict(L=3, q=3, bc_MPS='finite'), dict(L=2, q=4, bc_MPS='infinite')],
    'tenpy.models.clock.ClockModel': [dict(lattice='Square', Lx=2, Ly=2, q=3, bc_MPS='finite'), dict(lattice='Chain', L=2, q=3, bc_MPS='infinite')],
    'tenpy.models.pxp.PXPChain': [dict(L=4, bc_MPS='finite'), dict(L=2, bc_MPS='infinite')],
    'tenpy.models.haldane.BosonicHaldaneModel': [dict(Lx=2, Ly=2, bc_MPS='finite'), dict(Lx=1, Ly=3, bc_MPS='infinite')],
    'tenpy.models.haldane.FermionicHaldaneModel': [dict(Lx=2, Ly=2, bc_MPS='finite'), dict(Lx=1, Ly=3, bc_MPS='infinite')],
    'tenpy.models.hofstadter.HofstadterBosons': [dict(Lx=3, Ly=3, Nmax=1, bc_MPS='finite', bc_x='open'), dict(Lx=4, Ly=3, Nmax=1, bc_MPS='infinite')],
    'tenpy.models.hofstadter.HofstadterFermions': [dict(Lx=3, Ly=3, bc_MPS='finite', bc_x='open'), dict(Lx=4, Ly=3, bc_MPS='infinite')],
    'tenpy.models.toric_code.ToricCode': [dict(Lx=2, Ly=2, bc_MPS='infinite'), dict(Lx=2, Ly=3, bc_MPS='infinite', conserve='parity')],
    'tenpy.models.mixed_xk.SpinlessMixedXKSquare': [dict(Lx=2, Ly=3, bc_MPS='infinite'), dict(Lx=2, Ly=2, bc_MPS='finite', conserve_k=True)],
    'tenpy.models.mixed_xk.HubbardMixedXKSquare': [dict(Lx=2, Ly=3, bc_MPS='infinite'), dict(Lx=2, Ly=2, bc_MPS='finite')],
    'tenpy.models.molecular.MolecularModel': [dict(norb=2), dict(norb=3, two_body=True)],
}


def mk_model(full, variant=0):
    import importlib
    modname, cname = full.rsplit('.', 1)
    cls = getattr(importlib.import_module(modname), cname)
    pars = dict(MODEL_PARAMS[full][variant % len(MODEL_PARAMS[full])])
    if cname == 'MolecularModel':
        n = pars.pop('norb')
        r = np.random.default_rng(5)
        h1 = r.normal(size=(n, n))
        pars = {'one_body_tensor': h1 + h1.T}
        if MODEL_PARAMS[full][variant % 2].get('two_body'):
            h2 = r.normal(size=(n, n, n, n))
            h2 = h2 + h2.transpose(1, 0, 3, 2)
            h2 = h2 + h2.transpose(2, 3, 0, 1)
            pars['two_body_tensor'] = h2
            pars['constant'] = 0.25
    m = cls(pars)
    return m


for _full in MODEL_PARAMS:
    def _mkm(rng, variant=0, _full=_full):
        m = mk_model(_full, variant)
        m.test_sanity()
        return m
    gen('model:' + _full, variants=2)(_mkm)


# segment models (what the segment simulations store and reload): Model.extract_segment -> lattice segment, and for
# MPOModel / NearestNeighborModel also the segment of H_MPO / H_bond
MODEL_SEGMENTS = [
    ('tenpy.models.tf_ising.TFIChain', 0, 'enlarge', 3), ('tenpy.models.tf_ising.TFIChain', 1, 'range', None),
    ('tenpy.models.tf_ising.TFIModel', 1, 'enlarge', 2), ('tenpy.models.xxz_chain.XXZChain', 0, 'range', None),
    ('tenpy.models.hubbard.FermiHubbardChain', 1, 'enlarge', 2), ('tenpy.models.spins.SpinModel', 0, 'range', None),
    ('tenpy.models.xxz_chain.XXZChain', 1, 'defaults', None), ('tenpy.models.tf_ising.TFIChain', 0, 'first>0', None),
    ('model_base:CouplingModel', 0, 'defaults', None), ('model_base:MPOModel', 0, 'range', None),
    ('model_base:NearestNeighborModel', 0, 'range', None), ('model_base:Model', 0, 'range', None),
]


@gen('model_segment', variants=len(MODEL_SEGMENTS))
def g_model_segment(rng, variant=0):
    full, v, how, k = MODEL_SEGMENTS[variant % len(MODEL_SEGMENTS)]
    m = GENERATORS[full](rng) if full.startswith('model_base:') else mk_model(full, v)
    if how == 'enlarge':
        seg = m.extract_segment(enlarge=k)
    elif how == 'range':
        seg = m.extract_segment(0, m.lat.N_sites - 1)
    elif how == 'defaults':
        seg = m.extract_segment()
    else:
        seg = m.extract_segment(1, m.lat.N_sites + 1)
    assert seg.lat.bc_MPS == 'segment' and hasattr(seg.lat, 'segment_first_last')
    if hasattr(seg, 'test_sanity'):
        seg.test_sanity()
    return seg


@gen('model_base:Model')
def g_model_plain(rng):
    from tenpy.models.model import Model
    m = Model(mk_lattice('Chain', 0))
    m.rng       # create the random generator (saved through its bit generator state)
    return m


@gen('model_base:CouplingModel')
def g_coupling_model(rng):
    from tenpy.models.model import CouplingModel
    m = CouplingModel(mk_lattice('Square', 1))
    m.add_onsite(0.3, 0, 'Sz')
    m.add_coupling(1.0, 0, 'Sp', 0, 'Sm', [1, 0], plus_hc=True)
    m.add_coupling(0.5, 0, 'Sz', 0, 'Sz', [0, 1])
    m.add_multi_coupling(0.25, [('Sz', [0, 0], 0), ('Sz', [1, 0], 0), ('Sz', [0, 1], 0)])
    m.add_exponentially_decaying_coupling(0.1, 0.5, 'Sz', 'Sz')
    return m


@gen('model_base:MPOModel')
def g_mpo_model(rng):
    from tenpy.models.model import MPOModel
    m = mk_model('tenpy.models.tf_ising.TFIChain', 1)
    return MPOModel(m.lat, m.H_MPO)


@gen('model_base:NearestNeighborModel')
def g_nn_model(rng):
    from tenpy.models.model import NearestNeighborModel
    m = mk_model('tenpy.models.tf_ising.TFIChain', 1)
    return NearestNeighborModel(m.lat, m.H_bond)


# ---------------------------------------------------------------- terms, errors, options

@gen('termlist')
def g_termlist(rng):
    from tenpy.networks.terms import TermList
    return TermList([[('Sz', 0)], [('Sp', 0), ('Sm', 1)], [('Sm', 0), ('Sp', 1)], [('Sz', 2), ('Sz', 3), ('Sz', 5)]],
                    [0.5, 1., 1. + 0.5j, -0.25])


@gen('onsite_terms')
def g_onsite(rng):
    from tenpy.networks.terms import OnsiteTerms
    t = OnsiteTerms(4)
    t.add_onsite_term(0.5, 0, 'Sz')
    t.add_onsite_term(1.5, 2, 'Sx')
    t.add_onsite_term(0.25, 2, 'Sz')
    return t


@gen('coupling_terms')
def g_coupling(rng):
    from tenpy.networks.terms import CouplingTerms
    t = CouplingTerms(4)
    t.add_coupling_term(1., 0, 1, 'Sp', 'Sm')
    t.add_coupling_term(0.5, 1, 3, 'Sz', 'Sz', 'Id')
    t.add_coupling_term(2., 2, 5, 'Cd', 'C', 'JW')
    return t


@gen('multi_coupling_terms')
def g_multi(rng):
    from tenpy.networks.terms import MultiCouplingTerms
    t = MultiCouplingTerms(4)
    t.add_multi_coupling_term(1., [0, 1, 3], ['Sz', 'Sz', 'Sz'], ['Id', 'Id'])
    t.add_multi_coupling_term(0.5, [1, 2], ['Sp', 'Sm'], ['Id'])
    t.add_multi_coupling_term(0.25j, [0, 2, 3, 5], ['A', 'B', 'C', 'D'], ['JW', 'Id', 'JW'])
    return t


@gen('exp_decaying_terms')
def g_expdec(rng):
    from tenpy.networks.terms import ExponentiallyDecayingTerms
    t = ExponentiallyDecayingTerms(4)
    t.add_exponentially_decaying_coupling(0.5, 0.3, 'Sz', 'Sz')
    t.add_exponentially_decaying_coupling(0.25, 0.6, 'Sp', 'Sm', subsites=[0, 2], subsites_start=[0], op_string='Id')
    return t


@gen('truncation_error', variants=2)
def g_truncerr(rng, variant=0):
    from tenpy.linalg.truncation import TruncationError
    if variant == 0:
        return TruncationError()
    return TruncationError(1.e-7, 1. - 2.e-7) + TruncationError(3.e-9, 1. - 6.e-9)


@gen('config', variants=6)
def g_config(rng, variant=0):
    from tenpy.tools.params import Config
    opts = {'chi_max': 100, 'svd_min': 1.e-10, 'name': 'x', 'sub': {'a': 1, 'b': [1, 2.5, None]}, 'flag': True,
            'arr': np.arange(3.)}
    c = Config(opts, 'MyConfig')
    if variant >= 1:
        c.get('chi_max', 5)
        c.subconfig('sub').get('a', 0)
    if variant == 2:
        c = Config({'outer': c, 'other': [c, None]}, 'Nested')
        c.touch('other')
    if variant == 3:       # the config on a reference cycle through its own options
        c.options['sub']['b'].append(c)
        c.options['me'] = c
    if variant == 4:       # ONE sub-config shared between two parents (saved under both)
        sub = c.subconfig('sub')
        sub.get('a', 0)
        other = Config({'sub': sub, 'k': 2}, 'Other')
        return [c, other, {'parents': (other, c), 'sub': sub}]
    if variant == 5:       # everything used / nothing left / a deleted and a later added key
        c = Config({'a': 1, 'b': 2, 'c': 3}, 'Used')
        c['a'], c['b']
        del c['c']
        c['late'] = 4
        return [c, Config({}, 'Empty')]
    return c


@gen('exportable_plain', variants=3)
def g_exportable(rng, variant=0):
    from tenpy.tools.hdf5_io import Hdf5Exportable
    e = Hdf5Exportable()
    if variant == 1:
        e.some_attr = 'something'
        e.data = [1, 2, {'x': np.arange(3)}]
        e.me = e            # self reference through the instance
        e.other = Hdf5Exportable()
        e.other.back = e
    if variant == 2:       # attribute names that are no valid HDF5 path components: __dict__ is stored in the general dictionary format
        e.__dict__['a/b'] = [1, 2]
        e.__dict__['.'] = e
        e.plain = (e.__dict__['a/b'], 'x')
    return e


# ---------------------------------------------------------------- python / numpy containers

@gen('containers', variants=6)
def g_containers(rng, variant=0):
    if variant == 0:       # the documented zoo of leaf types
        return {'None': None, 'scalars': [0, -7, 2 ** 62, 2 ** 64 + 5, -2 ** 70, True, False, 2.5, float('inf'), 1.5 - 2j, 'five',
                                          '', 'unicode ä中', b'bytes\x01\xfe'],
                'np_scalars': [np.int64(-3), np.float64(3.25), np.complex128(1 + 2j), np.int32(5), np.float32(0.5),
                               np.complex64(2 - 1j), np.bool_(True), np.bool_(False)],
                'arrays': [np.array([6, 66]), np.array([]), np.zeros([]), np.arange(6.).reshape(2, 3), np.array([1 + 2j, 3]),
                           np.array([True, False]), np.arange(4, dtype=np.int32), np.array(['ab', 'c'], dtype='S2')],
                'range': [range(2, 8, 3), range(5), range(0), range(10, 0, -2)],
                'dtypes': [np.dtype('int64'), np.dtype('complex128'), np.dtype('float32'), np.dtype(bool),
                           np.dtype([('a', np.int32, 8), ('b', np.float64, 5)])]}
    if variant == 1:       # iterables and nestings
        return {'iterables': [[], [11, 12], tuple([]), (1, 2, 3), set([]), {1, 2, 3}, {'a', 'b'}, {(1, 2), (3,)}],
                'nested': [[[[1]], ()], ((), ((2,), [3, (4, [5])])), {'k': {'k': {'k': [(), {}]}}}],
                'tuple_of_sets': ({1}, {2.5}, set())}
    if variant == 2:       # dictionaries: simple keys, non-string keys, awkward strings
        return {'simple': {'a': 1, 'b': [2], 'keys': 3, 'values': 4, 'len': 5, 'type': 6},
                'general': {0: 1, 'asdf': 2, (1, 2): '3', 2.5: None, None: 'none', True: 'true', (1, (2, 3)): [4]},
                'slash': {'a/b': 1, 'c': 2}, 'dot': {'.': 1, 'x': 2}, 'int_keys': {1: 'a', 2: 'b', -3: 'c'},
                'empty': {}, 'nested_general': {(0, 0): {(1, 1): {'deep': (2, 2)}}}}
    if variant == 3:       # masked arrays
        a = np.ma.MaskedArray(np.arange(6.), mask=[0, 1, 0, 0, 1, 0])
        b = np.ma.MaskedArray(np.arange(6), mask=[0, 1, 0, 0, 1, 0], fill_value=3)   # fill value occurs unmasked
        c = np.ma.MaskedArray(np.arange(4.).reshape(2, 2), mask=False)
        d = np.ma.masked_equal(np.array([1, 2, 2, 3]), 2)
        return {'a': a, 'b': b, 'c': c, 'd': d, 'list': [a, a]}
    if variant == 4:       # shared sub-objects: identity must survive
        shared_list = [1, 2]
        shared_arr = np.arange(4)
        shared_dict = {'x': shared_list}
        shared_tuple = (shared_list, shared_arr)
        return {'l1': shared_list, 'l2': shared_list, 'arrs': [shared_arr, shared_arr, np.arange(4)],
                'd': shared_dict, 'dd': [shared_dict, {'x': shared_list}], 't': [shared_tuple, shared_tuple],
                'general': {1: shared_list, (2,): shared_dict}}
    # variant 5: self-referential containers
    rec = [0, None, 2, [3, None, 5]]
    rec[3][1] = rec[1] = rec
    d = {'self': None, 'list': rec}
    d['self'] = d
    g = {1: None, (2, 3): rec}
    g[1] = g
    return {'recursive': rec, 'dict': d, 'general': g}


@gen('globals')
def g_globals(rng):
    import tenpy
    return {'function': tenpy.linalg.np_conserved.tensordot, 'class': tenpy.linalg.charges.LegCharge, 'builtin': len,
            'list': [tenpy.networks.site.SpinHalfSite, tenpy.networks.site.SpinHalfSite]}


@gen('everything')
def g_everything(rng):
    """the dictionary of the export/import tests, extended: one file holding many objects that share sites/legs"""
    from tenpy.networks.mps import MPS
    from tenpy.networks.site import SpinHalfSite
    s = SpinHalfSite('Sz', sort_charge=False)
    psi = MPS.from_singlets(s, 6, [(0, 3), (1, 2), (4, 5)], bc='finite')
    M = mk_model('tenpy.models.tf_ising.TFIChain', 0)
    data = {'SpinHalfSite': s, 'Sz': s.Sz, 'psi': psi, 'H_mpo': M.H_MPO, 'model': M, 'sites_again': [s, M.lat.unit_cell[0]],
            'leg': s.leg, 'psi_leg': psi.get_B(0).get_leg('p')}
    return data


@gen('config_copy_shared_unused')
def g_config_copy(rng):
    """Config.copy(share_unused=True): the copy and the original share the set `unused` (reading a key through one marks it as used for both)"""
    from tenpy.tools.params import Config
    c = Config({'a': 1, 'b': {'x': 2}, 'c': 3}, 'Orig')
    c2 = c.copy()
    c2['a']
    assert c2.unused is c.unused
    return {'orig': c, 'copy': c2}
