"""Coverage streams of C17 (harness/c17_cover.py), run in a fresh interpreter against the current tree.

kinds of payload
  inventory : reflection - keys of Hdf5Saver.dispatch_save / Hdf5Loader.dispatch_load, TYPES_FOR_HDF5_DATASETS, the public names of
              tenpy.tools.hdf5_io (module __all__, public methods of its classes), every save_hdf5 / from_hdf5 / __getstate__ /
              __setstate__ / __reduce__ defined anywhere in the package (AST), and the labels of the value space below
  leaves    : every type the saver dispatches on x the value space of that type (boundary values) x {alone, shared, cycle}
              -> HDF5 (path '/x' and, for groups, '/'), pickle -> strict comparison (type identity, dtype / precision / byte order,
              bit patterns, fill_value, identity of shared references, hard links in the file, 'type' tag of the file)
  api       : the documented options of save / load / save_to_hdf5 / load_from_hdf5 / Hdf5Saver / Hdf5Loader (file endings, mode,
              path, partial loading, exclude, ignore_unknown, format_selection, error cases) and the pickle-protocol fallback
  trace     : line coverage (sys.settrace) of the anchored functions while one representative chunk of ALL streams runs
"""
import copy
import gzip
import json
import os
import pickle
import re
import struct
import sys
import tempfile
import traceback
import types
import warnings

import numpy as np

warnings.simplefilter('ignore')
sys.setrecursionlimit(3000)
sys.path.insert(0, os.path.dirname(os.path.abspath(__file__)))

import c17_impl  # noqa: E402

ANCHOR_NAMES = ('save_hdf5', 'from_hdf5', '__getstate__', '__setstate__', '__reduce__', '_from_hdf5_early')


def tenpy_dir():
    import tenpy
    return os.path.dirname(os.path.abspath(tenpy.__file__))


# ------------------------------------------------------------------------------------------------
# value space: type -> [(label, thunk)]     (written from the documentation of the format, see doc/intro/input_output.rst)
# ------------------------------------------------------------------------------------------------

# documented `type` tags (autodata values of the REPR_* constants in the module docstring / input_output.rst)
DOC_TAGS = {
    'builtins.NoneType': 'None', 'builtins.int': 'int', 'builtins.float': 'float', 'builtins.str': 'str', 'builtins.bytes': 'bytes',
    'builtins.complex': 'complex', 'builtins.bool': 'bool', 'numpy.bool': 'bool', 'numpy.bool_': 'bool', 'numpy.int64': 'np.int64',
    'numpy.float64': 'np.float64', 'numpy.complex128': 'np.complex128', 'numpy.int32': 'np.int32', 'numpy.float32': 'np.float32',
    'numpy.complex64': 'np.complex64', 'numpy.ndarray': 'array', 'numpy.ma.MaskedArray': 'masked_array',
    'numpy.ma.core.MaskedArray': 'masked_array', 'builtins.list': 'list', 'builtins.tuple': 'tuple', 'builtins.set': 'set',
    'builtins.range': 'range', 'builtins.function': 'function', 'builtins.builtin_function_or_method': 'function', 'builtins.type': 'class',
}


def tname(t):
    return t.__module__ + '.' + t.__qualname__


def _ma(data, **kw):
    return lambda: np.ma.MaskedArray(data() if callable(data) else data, **kw)


def _dtype_instances(T):
    """instances of the dtype class T (numpy >= 1.20: one class per kind of dtype)"""
    out = []
    try:
        d = T()
        out.append(('default', d))
        if d.itemsize > 1 and d.kind in 'iufc':
            out.append(('swapped', d.newbyteorder('>' if d.byteorder in ('=', '<') else '<')))
    except Exception:
        pass
    n = T.__name__
    if n == 'StrDType':
        out = [('U5', np.dtype('U5')), ('U1', np.dtype('U1')), ('>U3', np.dtype('>U3'))]
    elif n == 'BytesDType':
        out = [('S3', np.dtype('S3')), ('S1', np.dtype('S1'))]
    elif n == 'VoidDType':
        out = [('struct', np.dtype([('a', np.int32, 8), ('b', np.float64, 5)])), ('struct_plain', np.dtype([('x', np.int8), ('y', '>f4')])),
               ('nested', np.dtype([('a', [('x', np.int8), ('y', np.float32)]), ('b', np.complex128)])), ('V8', np.dtype('V8')),
               ('subarray', np.dtype((np.int32, (2, 3))))]
    elif n == 'DateTime64DType':
        out = [('M8[ns]', np.dtype('M8[ns]')), ('M8[D]', np.dtype('M8[D]'))]
    elif n == 'TimeDelta64DType':
        out = [('m8[s]', np.dtype('m8[s]'))]
    return [(lab, (lambda d=d: d)) for lab, d in out if type(d) is T]


def dtype_name_sufficient(d):
    """independent of tenpy: does numpy reconstruct the dtype from its `name` (or, for structured dtypes, from `descr`)?"""
    try:
        if d.names is not None:
            return np.dtype(d.descr) == d
        e = np.dtype(d.name)
        return e == d and e.str == d.str
    except Exception:
        return False


def value_space():
    import tenpy
    from tenpy.tools import hdf5_io
    i64, i32 = np.iinfo(np.int64), np.iinfo(np.int32)
    f64, f32 = np.finfo(np.float64), np.finfo(np.float32)
    vs = {}
    vs[type(None)] = [('None', lambda: None)]
    vs[int] = [(repr(v) if abs(v) < 10 ** 6 else '%s2^%d%+d' % ('-' if v < 0 else '', b, o), (lambda v=v: v))
               for v, b, o in [(0, 0, 0), (1, 0, 0), (-1, 0, 0), (255, 0, 0), (2 ** 31 - 1, 31, -1), (2 ** 31, 31, 0), (-2 ** 31 - 1, 31, -1),
                               (2 ** 63 - 1, 63, -1), (2 ** 63, 63, 0), (-2 ** 63, 63, 0), (-2 ** 63 - 1, 63, -1), (2 ** 64 - 1, 64, -1),
                               (2 ** 64, 64, 0), (2 ** 64 + 5, 64, 5), (-2 ** 70, 70, 0), (10 ** 40, 133, 0)]]
    vs[float] = [(repr(v), (lambda v=v: v)) for v in [0.0, -0.0, 1.0, 2.5, 0.1, 5e-324, 1e-320, float(f64.max), float('inf'), float('-inf'),
                                                        float('nan'), 123.45]]
    vs[complex] = [(repr(v), (lambda v=v: v)) for v in [0j, complex(-0.0, -0.0), 1.5 - 2j, 1j, complex(float('nan'), float('inf')), complex(0.1, 0.2)]]
    vs[str] = [('str%d' % i, (lambda v=v: v)) for i, v in enumerate(['', 'a', 'five', 'unicode ä中', ' lead trail ', 'new\nline\ttab', 'x' * 5000,
                                                                      'None', 'a/b', '.', 'list'])]
    vs[bytes] = [('bytes%d' % i, (lambda v=v: v)) for i, v in enumerate([b'', b'abc', b'\xff\xfe\x01', bytes(range(1, 256)), b' a ', b'x' * 3000])]
    vs[bool] = [('True', lambda: True), ('False', lambda: False)]
    vs[np.bool_] = [('np.True_', lambda: np.bool_(True)), ('np.False_', lambda: np.bool_(False))]
    vs[np.int64] = [(repr(v), (lambda v=v: np.int64(v))) for v in [0, -3, 1, i64.min, i64.max, i32.max + 1]]
    vs[np.int32] = [(repr(v), (lambda v=v: np.int32(v))) for v in [0, 5, -1, i32.min, i32.max]]
    vs[np.float64] = [(repr(v), (lambda v=v: np.float64(v))) for v in [3.25, 0.0, -0.0, 0.1, float('nan'), float('inf'), float(f64.tiny), float(f64.max), 5e-324]]
    vs[np.float32] = [(repr(v), (lambda v=v: np.float32(v))) for v in [0.5, 0.1, -0.0, float('nan'), float('-inf'), float(f32.max), float(f32.tiny), 16777217.0]]
    vs[np.complex128] = [(repr(v), (lambda v=v: np.complex128(v))) for v in [1 + 2j, 0j, complex(0.1, -0.2), complex(float('nan'), 1.0), complex(-0.0, -0.0)]]
    vs[np.complex64] = [(repr(v), (lambda v=v: np.complex64(v))) for v in [2 - 1j, 0j, complex(0.1, 0.2), complex(float('inf'), float('nan')), complex(16777217.0, -0.0)]]
    arrs = []
    for dt in ['int8', 'uint8', 'int16', 'uint16', 'int32', 'uint32', 'int64', 'uint64', 'float16', 'float32', 'float64', 'longdouble',
               'complex64', 'complex128', 'clongdouble', 'bool', 'S3', '>i4', '>f8', '<c8', '>c16']:
        arrs.append(('arange5:' + dt, (lambda dt=dt: (np.arange(5) * 3 % 7).astype(dt))))
    arrs += [('extreme:int64', lambda: np.array([i64.min, i64.max, 0])), ('extreme:uint64', lambda: np.array([0, 2 ** 64 - 1], dtype=np.uint64)),
             ('special:float64', lambda: np.array([0.0, -0.0, np.nan, np.inf, -np.inf, 5e-324, f64.max, 0.1])),
             ('special:float32', lambda: np.array([0.1, -0.0, np.nan, 16777217.0], dtype=np.float32)),
             ('special:complex64', lambda: np.array([0.1 + 0.2j, complex(np.nan, -0.0)], dtype=np.complex64)),
             ('special:complex128', lambda: np.array([0.1 + 0.2j, complex(np.nan, -0.0), 1e308 + 1e-308j])),
             ('empty:(0,)', lambda: np.zeros(0)), ('empty:(0,3)', lambda: np.zeros((0, 3), np.int32)), ('empty:(2,0,3)', lambda: np.zeros((2, 0, 3), complex)),
             ('0d:float', lambda: np.array(3.5)), ('0d:int', lambda: np.array(7)), ('0d:complex64', lambda: np.array(1 + 2j, dtype=np.complex64)),
             ('fortran', lambda: np.asfortranarray(np.arange(6.).reshape(2, 3))), ('strided', lambda: np.arange(24.).reshape(4, 6)[::2, 1::2]),
             ('transposed', lambda: np.arange(6).reshape(2, 3).T), ('negstride', lambda: np.arange(5)[::-1]),
             ('broadcast', lambda: np.broadcast_to(np.arange(3), (2, 3))), ('readonly', lambda: _readonly(np.arange(3))),
             ('struct', lambda: np.array([(1, 2.5), (3, -0.0)], dtype=[('a', np.int32), ('b', np.float64)])),
             ('5d', lambda: np.arange(32.).reshape(2, 2, 2, 2, 2)), ('bytes:S', lambda: np.array([b'ab', b'c', b''], dtype='S2')),
             ('large', lambda: np.arange(20000, dtype=np.float32))]
    vs[np.ndarray] = arrs
    mas = []
    for dlab, data, fills in [('float', lambda: np.arange(6.), [None, 3.0, -1.0, float('nan')]), ('int', lambda: np.arange(6), [None, 3, 999999]),
                              ('complex', lambda: np.arange(6) * (1 + 1j), [None, 3 + 3j]), ('bool', lambda: np.array([True, False] * 3), [None, True]),
                              ('float32', lambda: np.arange(6, dtype=np.float32), [None, np.float32(2.0)]),
                              ('int8', lambda: np.arange(6, dtype=np.int8), [None, 7])]:
        for mlab, mask in [('nomask', np.ma.nomask), ('allFalse', [False] * 6), ('some', [0, 1, 0, 0, 1, 0]), ('maskfill', [0, 0, 0, 1, 0, 0]),
                           ('allTrue', [True] * 6)]:
            for fv in fills:
                kw = {'mask': mask}
                if fv is not None:
                    kw['fill_value'] = fv
                mas.append(('%s:%s:fill=%r' % (dlab, mlab, fv), _ma(data, **kw)))
    mas += [('const==fill:nomask', _ma(lambda: np.zeros(3), fill_value=0.)), ('const==fill:allFalse', _ma(lambda: np.full(3, 3), mask=[False] * 3, fill_value=3)),
            ('const==fill:default', _ma(lambda: np.full(2, 1.e20))), ('nanfill:allTrue', _ma(lambda: np.arange(2.), mask=True, fill_value=float('nan'))),
            ('nanfill:data_nan', _ma(lambda: np.array([np.nan, 1.0]), mask=[0, 1], fill_value=float('nan'))),
            ('empty', _ma(lambda: np.zeros(0))), ('empty2d', _ma(lambda: np.zeros((0, 2)), mask=np.zeros((0, 2), bool))),
            ('0d:unmasked', _ma(lambda: np.array(2.5))), ('0d:masked', _ma(lambda: np.array(2.5), mask=True)),
            ('2d', _ma(lambda: np.arange(6.).reshape(2, 3), mask=[[0, 1, 0], [1, 0, 0]], fill_value=-1.)),
            ('2d:fill_in_data', _ma(lambda: np.arange(6.).reshape(2, 3), mask=[[0, 1, 0], [1, 0, 0]], fill_value=5.)),
            ('masked_equal', lambda: np.ma.masked_equal(np.array([1, 2, 2, 3]), 2)), ('masked_invalid', lambda: np.ma.masked_invalid(np.array([1., np.nan, np.inf])))]
    vs[np.ma.MaskedArray] = mas
    vs[list] = [('[]', lambda: []), ('[1,2.5,"a"]', lambda: [1, 2.5, 'a']), ('nested', lambda: [[1], [[], [2, (3,)]]]), ('len11', lambda: list(range(11))),
                ('arrays', lambda: [np.arange(3), np.arange(3.)])]
    vs[tuple] = [('()', lambda: ()), ('(1,)', lambda: (1,)), ('nested', lambda: ((), ((2,), [3, (4, [5])]))), ('len12', lambda: tuple(range(12)))]
    vs[set] = [('set()', lambda: set()), ('{1,2,3}', lambda: {1, 2, 3}), ('mixed', lambda: {1, 'a', 2.5, None, (1, 2), b'b'}), ('tuples', lambda: {(1, (2, 3)), (4,)})]
    vs[dict] = [('{}', lambda: {}), ('simple', lambda: {'a': 1, 'b': [2], 'keys': 3, 'values': 4, 'len': 5, 'type': 6, 'ä ö': 7, '..': 8, ' ': 9}),
                ('general', lambda: {0: 1, 'asdf': 2, (1, 2): '3', 2.5: None, None: 'none', (1, (2, 3)): [4], b'b': 5, np.int64(7): 6}),
                ('slash', lambda: {'a/b': 1, 'c': 2}), ('dot', lambda: {'.': 1, 'x': 2}), ('int+str', lambda: {1: 'a', '1': 'b'}),
                ('nested', lambda: {'k': {'k': {(0, 0): {'deep': (2, 2)}}}}), ('order', lambda: {'z': 1, 'a': 2, 'm': 3}),
                ('general_order', lambda: {3: 'c', 1: 'a', 2: 'b', 'x': None})]
    vs[range] = [('range(2,8,3)', lambda: range(2, 8, 3)), ('range(5)', lambda: range(5)), ('range(0)', lambda: range(0)), ('range(10,0,-2)', lambda: range(10, 0, -2)),
                 ('range big', lambda: range(-2 ** 65, 2 ** 70, 2 ** 64 + 1))]
    vs[types.FunctionType] = [('tensordot', lambda: tenpy.linalg.np_conserved.tensordot), ('staticmethod', lambda: hdf5_io.Hdf5Loader.get_attr),
                              ('nested qualname', lambda: hdf5_io.Hdf5Saver.save_dict_content), ('module fn', lambda: hdf5_io.find_global)]
    vs[types.BuiltinFunctionType] = [('len', lambda: len), ('np.array', lambda: np.array), ('math.sqrt', lambda: __import__('math').sqrt)]
    vs[type] = [('LegCharge', lambda: tenpy.linalg.charges.LegCharge), ('int', lambda: int), ('np.float64', lambda: np.float64), ('dict', lambda: dict),
                ('nested', lambda: tenpy.tools.hdf5_io.Hdf5Saver), ('exception', lambda: hdf5_io.Hdf5ImportError)]
    for T in hdf5_io.Hdf5Saver.dispatch_save:
        if isinstance(T, type) and issubclass(T, np.dtype) and tname(T) not in EXCLUDED_TYPES:
            inst = _dtype_instances(T)
            if inst:
                vs[T] = inst
    return vs


def _readonly(a):
    a.setflags(write=False)
    return a


# types of the dispatch table that are deliberately not part of the round trip property
EXCLUDED_TYPES = {
    'tenpy.tools.hdf5_io.Hdf5Ignored': 'documented placeholder: "Objects of this type are not saved" (the api stream checks exactly that)',
    # numpy's variable-width string dtype and other parametric user dtypes have no array support in h5py and no `name` round trip contract
    'numpy.dtypes.StringDType': 'numpy 2 variable-width string dtype: h5py cannot store arrays of it; not a dtype of any tenpy object',
    'numpy.dtypes._PyComplexDType': 'abstract dtype class of numpy 2 (python complex): has no instances',
    'numpy.dtypes._PyFloatDType': 'abstract dtype class of numpy 2 (python float): has no instances',
    'numpy.dtypes._PyLongDType': 'abstract dtype class of numpy 2 (python int): has no instances',
}

IDENTITY_TYPES = (np.ndarray, list, set, dict)


# ------------------------------------------------------------------------------------------------
# strict comparison of leaves
# ------------------------------------------------------------------------------------------------

def _bits(x):
    if isinstance(x, float):
        return struct.pack('<d', x)
    if isinstance(x, complex):
        return struct.pack('<dd', x.real, x.imag)
    return None


def strict_diff(a, b):
    """list of differences between the saved value a and the loaded value b (type identity, dtype, byte order, bit pattern)."""
    if isinstance(a, (bool, np.bool_)) and isinstance(b, (bool, np.bool_)):
        return [] if bool(a) == bool(b) else ['bool %r became %r' % (a, b)]       # one documented representation 'bool'
    if type(a) is not type(b) and not (isinstance(a, np.dtype) and isinstance(b, np.dtype)):    # (numpy has alias dtype classes, e.g. LongLongDType)
        return ['type %s became %s (%r -> %r)' % (tname(type(a)), tname(type(b)), _short(a), _short(b))]
    if isinstance(a, np.ma.MaskedArray):
        d = []
        ma, mb = np.ma.getmaskarray(a), np.ma.getmaskarray(b)
        if a.shape != b.shape:
            return ['masked array shape %s became %s' % (a.shape, b.shape)]
        if a.dtype != b.dtype or a.dtype.str != b.dtype.str:
            d.append('masked array dtype %s became %s' % (a.dtype.str, b.dtype.str))
        if not np.array_equal(ma, mb):
            d.append('mask %s became %s' % (ma.astype(int).tolist(), mb.astype(int).tolist()))
        elif np.ascontiguousarray(np.ma.getdata(a)[~ma]).tobytes() != np.ascontiguousarray(np.ma.getdata(b)[~mb]).tobytes():
            d.append('unmasked data %s became %s' % (np.ma.getdata(a)[~ma].tolist(), np.ma.getdata(b)[~mb].tolist()))
        # (numpy casts the fill value to the dtype of the array when it is used: compare what filled() would insert)
        with np.errstate(all='ignore'), warnings.catch_warnings():
            warnings.simplefilter('ignore')
            fa, fb = np.asarray(a.fill_value).astype(a.dtype), np.asarray(b.fill_value).astype(b.dtype)
        if fa.tobytes() != fb.tobytes():
            d.append('fill_value %r (%s) became %r (%s)' % (a.fill_value, fa.dtype, b.fill_value, fb.dtype))
        return d
    if isinstance(a, np.ndarray):
        if a.shape != b.shape:
            return ['array shape %s became %s' % (a.shape, b.shape)]
        if a.dtype != b.dtype or a.dtype.str != b.dtype.str or a.dtype.descr != b.dtype.descr:
            return ['array dtype %s became %s' % (a.dtype.descr, b.dtype.descr)]
        if np.ascontiguousarray(a).tobytes() != np.ascontiguousarray(b).tobytes():
            return ['array content differs (bitwise): %s -> %s' % (_short(a.tolist()), _short(b.tolist()))]
        return []
    if isinstance(a, np.dtype):
        if a != b or a.str != b.str or a.descr != b.descr or a.shape != b.shape or a.names != b.names or a.itemsize != b.itemsize:
            return ['dtype %r became %r' % (a, b)]
        return []
    if isinstance(a, np.generic):
        if a.dtype != b.dtype or a.tobytes() != b.tobytes():
            return ['%s %r became %r' % (type(a).__name__, a, b)]
        return []
    if isinstance(a, (float, complex)):
        return [] if _bits(a) == _bits(b) else ['%s %r became %r (bit pattern)' % (type(a).__name__, a, b)]
    if isinstance(a, range):
        return [] if (a.start, a.stop, a.step) == (b.start, b.stop, b.step) else ['range %r became %r' % (a, b)]
    if c17_impl.is_global(a):
        return [] if a is b else ['global %r became %r' % (a, b)]
    if isinstance(a, (int, str, bytes, type(None))):
        return [] if a == b else ['%s %s became %s' % (type(a).__name__, _short(a), _short(b))]
    c = c17_impl.Compare()
    c.cmp(a, b)
    probs = list(c.problems)
    if isinstance(a, dict) and not probs and [repr(k) for k in a] != [repr(k) for k in b] and not all(isinstance(k, str) for k in a):
        # general dictionaries are stored as the LIST of keys and the list of values: the insertion order is part of the file
        probs.append('order of the keys of a dictionary with general keys changed: %s -> %s' % (_short(list(a)), _short(list(b))))
    return probs


def _short(x):
    r = repr(x)
    return r if len(r) < 70 else r[:66] + '...'


# ------------------------------------------------------------------------------------------------
# stream leaves
# ------------------------------------------------------------------------------------------------

def _h5_roundtrip(obj, path, want_file_facts=None):
    import h5py
    from tenpy.tools import hdf5_io
    with tempfile.TemporaryDirectory(prefix='c17c_', dir=os.environ.get('C17_TMP', None)) as d:
        fn = os.path.join(d, 'x.h5')
        with h5py.File(fn, 'w') as f:
            ret = hdf5_io.save_to_hdf5(f, obj, path)
            ret_name = getattr(ret, 'name', None)
        with h5py.File(fn, 'r') as f:
            facts = want_file_facts(f) if want_file_facts else None
            loaded = hdf5_io.load_from_hdf5(f, path, ignore_unknown=False)
        return loaded, facts, ret_name


def _where(e):
    tb = traceback.extract_tb(e.__traceback__)
    fr = [f for f in tb if '/tenpy/' in f.filename]
    return '%s:%s' % (os.path.basename(fr[-1].filename), fr[-1].name) if fr else ''


def _phase(e):
    names = [f.name for f in traceback.extract_tb(e.__traceback__) if f.filename.endswith('hdf5_io.py')]
    return 'save' if ('save_to_hdf5' in names or (names and names[0].startswith('save'))) else 'load'


def run_leaf(case):
    """case: {'type': full type name, 'label': label, 'mode': 'alone' | 'shared' | 'cycle'}"""
    vs = {tname(t): v for t, v in value_space().items()}
    out = {'problems': [], 'facts': {}}
    thunk = dict(vs[case['type']])[case['label']]
    v = thunk()
    mode = case['mode']
    is_group_type = isinstance(v, (list, tuple, set, dict, range, np.dtype)) or (isinstance(v, np.ma.MaskedArray))
    ident = isinstance(v, IDENTITY_TYPES)
    facts = out['facts']
    if isinstance(v, np.dtype):
        facts['dtype_name_sufficient'] = dtype_name_sufficient(v)
    if isinstance(v, np.ma.MaskedArray):
        filled, fv, m = v.filled(), v.fill_value, np.ma.getmaskarray(v)
        with np.errstate(all='ignore'):
            marks = np.asarray(filled == fv)
        facts['fill_marks_exactly_the_mask'] = bool(np.array_equal(marks, m))
        # structural condition of the recorded defect F17.12: NO element for which `filled == fill_value` agrees with the mask
        facts['fill_mark_agrees_nowhere'] = bool(v.size > 0 and not np.any(marks == m))
        facts['masked'] = int(m.sum())
        facts['size'] = int(v.size)
    if mode == 'alone':
        obj, paths = v, ['/x', 'deep/er/path'] + (['/'] if is_group_type and not (isinstance(v, np.ma.MaskedArray)) else [])
    elif mode == 'shared':
        obj, paths = {'a': v, 'b': [v, v], 't': (v, [v]), 'g': {1: v, (2,): [v]}}, ['/']
    else:       # cycle: the value inside containers that refer to themselves / to each other
        lst = [v, None]
        lst[1] = lst
        dct = {'v': v, 'l': lst}
        dct['self'] = dct
        gen = {1: v, (2, 3): dct}
        gen[None] = gen
        tup = (v, lst, gen)
        lst.append(tup)
        obj, paths = {'list': lst, 'dict': dct, 'general': gen, 'tuple': tup}, ['/']
    exp_tag = DOC_TAGS.get(case['type'])

    def file_facts(f, path):
        ff = {}
        node = f[path]
        if mode == 'alone':
            t = node.attrs.get('type')
            ff['tag'] = t.decode() if isinstance(t, bytes) else (None if t is None else str(t))
            if isinstance(v, np.ma.MaskedArray):
                ff['saved_mask'] = bool(node.attrs.get('saved_mask'))
        elif mode == 'shared':
            ff['hard_links'] = bool(f['a'] == f['b/0'] == f['b/1'] == f['t/0'] == f['t/1/0'] == f['g/values/0'] == f['g/values/1/0'])
        return ff
    for path in paths:
        try:
            loaded, ff, ret_name = _h5_roundtrip(obj, path, lambda f, path=path: file_facts(f, path))
        except Exception as e:
            out['error'] = {'method': 'hdf5', 'path': path, 'error': type(e).__name__, 'message': str(e)[:200], 'where': _where(e), 'phase': _phase(e)}
            break
        facts.update(ff or {})
        if mode == 'alone':
            for p in strict_diff(v, loaded):
                out['problems'].append('hdf5 path %r: %s' % (path, p))
            if type(v) is int and not -2 ** 63 <= v < 2 ** 64:
                exp_tag = 'int_as_str'       # documented: REPR_INT_AS_STR "int > 2^64 as (base-10) string"
            if path == '/x' and exp_tag is not None and ff.get('tag') != exp_tag:
                out['problems'].append('the file stores the value with type tag %r, documented %r' % (ff.get('tag'), exp_tag))
            want = '/' + path.strip('/') if path != '/' else '/'
            if ret_name != want:
                out['problems'].append('save_to_hdf5 returned the h5py object %r, expected the one at %r' % (ret_name, want))
        else:
            c = c17_impl.Compare()
            c.cmp(obj, loaded)
            out['problems'] += ['hdf5 %s: %s' % (mode, p) for p in c.problems]
            sh = c17_impl.canon_pair(obj, loaded)
            if sh['orig'] != sh['loaded'] and not c.problems:
                out['problems'].append('hdf5 %s: identity pattern / canonical heap differs' % mode)
            refs = [loaded['a'], loaded['b'][0], loaded['b'][1], loaded['t'][0], loaded['t'][1][0], loaded['g'][1], loaded['g'][(2,)][0]] \
                if mode == 'shared' else [loaded['list'][0], loaded['dict']['v'], loaded['general'][1], loaded['tuple'][0]]
            for r in refs:
                for p in strict_diff(v, r):
                    out['problems'].append('hdf5 %s: %s' % (mode, p))
                    break
            if ident and any(r is not refs[0] for r in refs):
                out['problems'].append('hdf5 %s: references to ONE %s object were loaded as different objects' % (mode, type(v).__name__))
            if mode == 'shared' and (ident or isinstance(v, np.ma.MaskedArray)) and not ff.get('hard_links'):
                out['problems'].append('hdf5 shared: the value referenced 7 times is not stored once with hard links')
            if mode == 'cycle':
                L = loaded
                ok = (L['list'][1] is L['list'] and L['dict']['self'] is L['dict'] and L['dict']['l'] is L['list'] and L['general'][None] is L['general']
                      and L['general'][(2, 3)] is L['dict'] and L['tuple'][1] is L['list'] and L['tuple'][2] is L['general'] and L['list'][2] is L['tuple']
                      and type(L['tuple']) is tuple)
                if not ok:
                    out['problems'].append('hdf5 cycle: self references of the containers are not restored')
    out['problems'] = out['problems'][:6]
    return out


def list_leaves():
    from tenpy.tools import hdf5_io
    vs = value_space()
    return {'values': {tname(t): [lab for lab, _ in v] for t, v in vs.items()},
            'dispatch_save': sorted(tname(t) for t in hdf5_io.Hdf5Saver.dispatch_save),
            'dispatch_load': sorted(hdf5_io.Hdf5Loader.dispatch_load),
            'datasets': [[tname(t), r] for t, r in hdf5_io.TYPES_FOR_HDF5_DATASETS],
            'container_types': [tname(t) for t in (list, tuple, set, dict)],
            'excluded': EXCLUDED_TYPES}


# ------------------------------------------------------------------------------------------------
# stream api : documented options and error behaviour
# ------------------------------------------------------------------------------------------------

class PlainState:
    """no save_hdf5: goes through the pickle protocol fallback (object.__reduce__ -> copyreg._reconstructor + state dict)"""

    def __init__(self, **kw):
        self.__dict__.update(kw)

    def __eq__(self, o):
        return type(o) is type(self) and _eq(self.__dict__, o.__dict__)


class WithSetstate:
    def __init__(self, v=None):
        self.v = v
        self.derived = None if v is None else len(v)

    def __getstate__(self):
        return {'v': self.v}

    def __setstate__(self, st):
        self.v = st['v']
        self.derived = 'restored:%d' % len(st['v'])

    def __eq__(self, o):
        return type(o) is type(self) and o.v == self.v


class WithSlots:
    __slots__ = ('a', 'b', '__dict__')

    def __reduce__(self):
        return (WithSlots, (), ({'dyn': getattr(self, 'dyn', None), 7: 'nonstr'}, {'a': self.a, 'b': self.b}))

    def __eq__(self, o):
        return type(o) is WithSlots and (o.a, o.b, o.dyn) == (self.a, self.b, self.dyn) and o.__dict__.get(7) == 'nonstr'


def _set_state6(obj, state):
    obj.payload = ['set by state_setter'] + list(state)
    return 'ignored'


class WithStateSetter:
    def __init__(self):
        self.payload = None

    def __reduce__(self):
        return (WithStateSetter, (), [1, 2, 3], None, None, _set_state6)

    def __eq__(self, o):
        return type(o) is WithStateSetter and o.payload == ['set by state_setter', 1, 2, 3]


class ListLike(list):
    def __reduce__(self):
        return (ListLike, (), {'tag': getattr(self, 'tag', None)}, iter(list(self)))

    def __eq__(self, o):
        return type(o) is ListLike and list(o) == list(self) and o.tag == self.tag


class DictLike(dict):
    def __reduce__(self):
        return (DictLike, (), None, None, iter(self.items()))

    def __eq__(self, o):
        return type(o) is DictLike and dict(o) == dict(self)


class BadReduce:
    def __reduce__(self):
        return (BadReduce,)


def _eq(a, b):
    c = c17_impl.Compare()
    c.cmp(a, b)
    return not c.problems


def reduce_objects():
    import collections
    import decimal
    import functools
    w = WithSlots()
    w.a, w.b, w.dyn = 1, [2], 'x'
    ll = ListLike([1, [2], 'three'])
    ll.tag = 'T'
    shared = [1, 2]
    return {
        'plain_instance': (lambda: PlainState(x=1, y=[1, 2], z={'k': np.arange(3)}), None),
        'plain_instance_empty': (lambda: PlainState(), None),
        'getstate_setstate': (lambda: WithSetstate([1, 2, 3]), None),
        'state_and_slotstate': (lambda: w, None),
        'state_setter': (lambda: WithStateSetter(), None),
        'listitems_and_state': (lambda: ll, None),
        'dictitems': (lambda: DictLike({'a': 1, 2: [3]}), None),
        'slice': (lambda: [slice(1, 5, 2), slice(None), slice(None, -1)], None),
        'frozenset': (lambda: frozenset({1, 'a', (2,)}), None),
        'bytearray': (lambda: bytearray(b'abc'), None),
        'ordered_dict': (lambda: collections.OrderedDict([('z', 1), ('a', [2]), (3, None)]), lambda a, b: list(a.items()) == list(b.items())),
        'deque_maxlen': (lambda: collections.deque([1, 2, 3], maxlen=5), lambda a, b: list(a) == list(b) and a.maxlen == b.maxlen),
        'defaultdict': (lambda: collections.defaultdict(list, {'a': [1]}), lambda a, b: dict(a) == dict(b) and a.default_factory is b.default_factory),
        'counter': (lambda: collections.Counter('aab'), None),
        'partial': (lambda: functools.partial(int, base=2), lambda a, b: (a.func, a.args, a.keywords) == (b.func, b.args, b.keywords)),
        'decimal': (lambda: decimal.Decimal('1.50'), lambda a, b: str(a) == str(b)),
        'exception': (lambda: ValueError('x', 1), lambda a, b: a.args == b.args),
        'np_small_scalars': (lambda: [np.int8(3), np.uint8(200), np.int8(-1)], lambda a, b: [type(x) for x in a] == [type(x) for x in b] and a == b),
        'np_generator': (lambda: np.random.default_rng(3), lambda a, b: json.dumps(a.bit_generator.state, default=str) == json.dumps(b.bit_generator.state, default=str)),
        'np_randomstate': (lambda: np.random.RandomState(3), lambda a, b: all(np.array_equal(x, y) for x, y in zip(a.get_state(), b.get_state()))),
        'np_ufunc': (lambda: [np.add, np.sin], lambda a, b: all(x is y for x, y in zip(a, b))),
        'bound_classmethod': (lambda: __import__('tenpy').tools.hdf5_io.Hdf5Exportable.from_hdf5,
                              lambda a, b: a.__self__ is b.__self__ and a.__func__ is b.__func__),
        'shared_inside_state': (lambda: [PlainState(x=shared), PlainState(x=shared), shared],
                                lambda a, b: b[0].x is b[1].x is b[2] and b[2] == [1, 2]),
        'instance_on_cycle': (_cyclic_plain, lambda a, b: b.me is b and b.l[0] is b and type(b) is PlainState),
    }


def _cyclic_plain():
    p = PlainState()
    p.me = p
    p.l = [p]
    return p


def run_reduce_case(name):
    mk, eq = reduce_objects()[name]
    obj = mk()
    out = {}
    for method in ('hdf5:default', 'pickle'):
        try:
            with warnings.catch_warnings(record=True) as w:
                warnings.simplefilter('always')
                loaded = c17_impl.roundtrip([obj], method)[0]
            same = type(loaded) is type(obj) and (eq(obj, loaded) if eq is not None else (obj == loaded))
            out[method] = {'equal': bool(same), 'loaded': repr(loaded)[:160], 'orig': repr(obj)[:160],
                           'warned': any('fall back to pickle protocol' in str(x.message) for x in w)}
        except Exception as e:
            out[method] = {'error': type(e).__name__, 'message': str(e)[:300], 'where': _where(e)}
    return out


def _tmp():
    return tempfile.TemporaryDirectory(prefix='c17a_', dir=os.environ.get('C17_TMP', None))


def _data():
    import tenpy
    from tenpy.networks.site import SpinHalfSite
    big = np.arange(50.)
    s = SpinHalfSite('Sz')
    return {'a': np.arange(10), 'b': 123.45, 'c': {'d': [1, 2, (3, 'x')], 'e': None}, 'big1': big, 'big2': big, 'site': s, 'leg': s.leg,
            'general': {1: big, (2, 3): 'v'}}


def api_file_endings():
    """save(data, filename, mode) / load(filename): .pkl, .pklz, .hdf5, .h5; other endings ValueError; str(filename) accepted"""
    import pathlib
    import h5py
    from tenpy.tools import hdf5_io
    probs = []
    data = _data()
    with _tmp() as d:
        for ext in ('.pkl', '.pklz', '.hdf5', '.h5'):
            fn = os.path.join(d, 'file' + ext)
            arg = pathlib.Path(fn) if ext in ('.pklz', '.h5') else fn
            r = hdf5_io.save(data, arg)
            if r is not None:
                probs.append('save(%s) returned %r' % (ext, r))
            head = open(fn, 'rb').read(8)
            if ext == '.pkl' and not _eq(pickle.load(open(fn, 'rb')), data):
                probs.append('.pkl file is not a plain pickle of the data')
            if ext == '.pklz' and (head[:2] != b'\x1f\x8b' or not _eq(pickle.load(gzip.open(fn, 'rb')), data)):
                probs.append('.pklz file is not a gzip-compressed pickle of the data')
            if ext in ('.hdf5', '.h5') and not h5py.is_hdf5(fn):
                probs.append('%s file is not an HDF5 file' % ext)
            loaded = hdf5_io.load(arg)
            c = c17_impl.Compare()
            c.cmp(data, loaded)
            probs += ['load(save(data, *%s)): %s' % (ext, p) for p in c.problems[:2]]
            if loaded['big1'] is not loaded['big2']:
                probs.append('load(save(data, *%s)): shared array not shared' % ext)
        # mode 'a': add data to an existing file
        fn = os.path.join(d, 'app.h5')
        hdf5_io.save({'first': 1, 'arr': np.arange(3)}, fn)
        hdf5_io.save({'second': [2.5], 'third': 'x'}, fn, mode='a')
        got = hdf5_io.load(fn)
        if not _eq(got, {'first': 1, 'arr': np.arange(3), 'second': [2.5], 'third': 'x'}):
            probs.append("save(..., mode='a') into an existing HDF5 file: loaded %r" % (got,))
        hdf5_io.save({'only': 1}, fn, mode='w')
        if not _eq(hdf5_io.load(fn), {'only': 1}):
            probs.append("save(..., mode='w') did not discard the existing file")
        for bad in ('file.txt', 'file.pkl.bak', 'file'):
            for f, args in ((hdf5_io.save, (data, os.path.join(d, bad))), (hdf5_io.load, (os.path.join(d, bad),))):
                try:
                    f(*args)
                    probs.append('%s with file name %r did not raise ValueError' % (f.__name__, bad))
                except ValueError:
                    pass
                except Exception as e:
                    probs.append('%s with file name %r raised %s instead of ValueError' % (f.__name__, bad, type(e).__name__))
    return probs


def api_paths_and_partial_loading():
    """save_to_hdf5(h5group, obj, path) / load_from_hdf5(h5group, path): paths, sub groups, partial loading, layout of simple dicts, hard links"""
    import h5py
    from tenpy.tools import hdf5_io
    probs = []
    data = _data()
    with _tmp() as d:
        fn = os.path.join(d, 'p.h5')
        with h5py.File(fn, 'w') as f:
            r = hdf5_io.save_to_hdf5(f, data)
            if getattr(r, 'name', None) != '/':
                probs.append('save_to_hdf5 at the default path returned %r' % (r,))
        with h5py.File(fn, 'r') as f:
            if sorted(f.keys()) != sorted(data):
                probs.append('keys of a simple dictionary are not the member names of the group: %r' % sorted(f.keys()))
            if not isinstance(f['a'], h5py.Dataset) or not isinstance(f['b'], h5py.Dataset) or not np.array_equal(f['a'][...], data['a']) or f['b'][()] != 123.45:
                probs.append('/a and /b are not plain datasets holding the array and the float')
            if not (f['big1'] == f['big2'] == f['general/values/0']):
                probs.append('an array referenced three times is not saved once (hard links)')
            full = hdf5_io.load_from_hdf5(f)
            c = c17_impl.Compare()
            c.cmp(data, full)
            probs += ['full load: ' + p for p in c.problems[:2]]
            for path, want in (('/b', 123.45), ('b', 123.45), ('/c/d', data['c']['d']), ('/c', data['c']), ('c/d/2', (3, 'x')), ('/c/e', None),
                               ('general', data['general']), ('/a', data['a']),
                               ('/site/leg', data['leg'])):
                got = hdf5_io.load_from_hdf5(f, path)
                if strict_diff(want, got):
                    probs.append('partial loading of %r: %s' % (path, strict_diff(want, got)[0]))
            if not _eq(hdf5_io.load_from_hdf5(f['c']), data['c']) or not _eq(hdf5_io.load_from_hdf5(f['c'], 'd'), data['c']['d']):
                probs.append('loading from a sub group object fails')
            ld = hdf5_io.Hdf5Loader(f)
            x, y, z = ld.load('/big1'), ld.load('/big2'), ld.load('/general')
            if x is not y or z[1] is not x:
                probs.append('one loader, partial loads of hard-linked paths: different objects')
            if ld.load('/site').leg is not ld.load('/leg'):
                probs.append('one loader: /site and /leg do not share the leg')
            keys = ld.get_all_hdf5_keys()
            if not isinstance(keys, dict) or set(keys) != set(f.keys()) or set(keys['c']) != {'d', 'e'} or keys['c']['d']['2'] != {'0', '1'}:
                probs.append('get_all_hdf5_keys() does not list the members: %r' % (sorted(keys) if isinstance(keys, dict) else keys,))
        # a file with several independently saved objects (not a dictionary at the root)
        fn = os.path.join(d, 'q.h5')
        with h5py.File(fn, 'w') as f:
            r2 = hdf5_io.save_to_hdf5(f, data['c'], 'extra/sub')
            if getattr(r2, 'name', None) != '/extra/sub':
                probs.append("save_to_hdf5(..., 'extra/sub') returned %r" % (r2,))
            g = f.create_group('grp')
            hdf5_io.save_to_hdf5(g, [1, 'two'], 'inner')            # relative to a sub group
            hdf5_io.Hdf5Saver(g).save({'x': 1}, 'second')
            hdf5_io.save_to_hdf5(f, 2.5, '/scalar')
            try:
                hdf5_io.save_to_hdf5(f, 5, 'extra/sub')
                probs.append('saving to an existing path did not raise')
            except (ValueError, OSError, RuntimeError):
                pass
        with h5py.File(fn, 'r') as f:
            for path, want in (('extra/sub', data['c']), ('/grp/inner', [1, 'two']), ('/scalar', 2.5), ('/extra/sub/d/2/1', 'x')):
                got = hdf5_io.load_from_hdf5(f, path)
                if strict_diff(want, got):
                    probs.append('loading %r of a file with several saved objects: %s' % (path, strict_diff(want, got)[0]))
            if not _eq(hdf5_io.load_from_hdf5(f['grp'], 'inner'), [1, 'two']) or not _eq(hdf5_io.Hdf5Loader(f['grp']).load('second'), {'x': 1}):
                probs.append('Hdf5Loader(sub group).load(relative path) fails')
    return probs


def api_exclude():
    """load_from_hdf5(..., exclude=[paths]): references to the object replaced by Hdf5Ignored(path)"""
    import h5py
    from tenpy.tools import hdf5_io
    probs = []
    data = {'big_data': np.arange(100.), 'small_data': [1, 2], 'again': None, 'nested': {'keep': 1, 'drop': {'x': 1}}}
    data['again'] = data['big_data']
    with _tmp() as d:
        fn = os.path.join(d, 'e.h5')
        with h5py.File(fn, 'w') as f:
            hdf5_io.save_to_hdf5(f, data)
        with h5py.File(fn, 'r') as f:
            for excl in (['/big_data'], ['big_data'], ['/big_data', '/nested/drop'], ('/nested/drop',)):
                with warnings.catch_warnings(record=True) as w:
                    warnings.simplefilter('always')
                    got = hdf5_io.load_from_hdf5(f, exclude=excl)
                if w:
                    probs.append('exclude=%r warned: %s' % (excl, w[0].message))
                for path in excl:
                    keys = path.strip('/').split('/')
                    x = got
                    for k in keys:
                        x = x[k]
                    if type(x) is not hdf5_io.Hdf5Ignored or x.name != path:
                        probs.append('exclude=%r: %r loaded as %r (name %r)' % (excl, path, type(x).__name__, getattr(x, 'name', None)))
                if any('big_data' in p for p in excl):
                    if got['again'] is not got['big_data']:
                        probs.append('exclude: the second reference to the excluded object is not the same Hdf5Ignored')
                else:
                    if not np.array_equal(got['big_data'], data['big_data']) or got['again'] is not got['big_data']:
                        probs.append('exclude=%r damaged the other data' % (excl,))
                if not _eq(got['small_data'], [1, 2]) or got['nested']['keep'] != 1:
                    probs.append('exclude=%r: other data not loaded' % (excl,))
            with warnings.catch_warnings(record=True) as w:
                warnings.simplefilter('always')
                got = hdf5_io.load_from_hdf5(f, exclude=['/not/there', '/small_data'])
            if not any('not existent' in str(x.message) or "can't exclude" in str(x.message) for x in w):
                probs.append('excluding a path that does not exist gives no warning')
            if type(got['small_data']) is not hdf5_io.Hdf5Ignored or not np.array_equal(got['big_data'], data['big_data']):
                probs.append('excluding a non-existent path stops the other exclusions / the loading')
            if not _eq(hdf5_io.load_from_hdf5(f, exclude=None), data) or not _eq(hdf5_io.load_from_hdf5(f, exclude=[]), data):
                probs.append('exclude=None / [] does not load everything')
    return probs


def api_ignore_unknown():
    """ignore_unknown=True: warn + Hdf5Ignored for a class / global that cannot be imported; False: raise"""
    import h5py
    from tenpy.tools import hdf5_io
    from tenpy.networks.site import SpinHalfSite
    probs = []
    data = {'site': SpinHalfSite('Sz'), 'fn': hdf5_io.find_global, 'cls': hdf5_io.Hdf5Saver, 'keep': [1, 2]}
    with _tmp() as d:
        for what, path, attr, val in (('class', '/site', 'class', 'NoSuchSite'), ('module of class', '/site', 'module', 'tenpy.no_such_module'),
                                      ('function', '/fn', 'class', 'no_such_function'), ('global class', '/cls', 'module', 'no_such_module_xyz')):
            fn = os.path.join(d, 'u%d.h5' % abs(hash(what)))
            with h5py.File(fn, 'w') as f:
                hdf5_io.save_to_hdf5(f, data)
                f[path].attrs[attr] = val
            with h5py.File(fn, 'r') as f:
                for kw, lenient in (({'ignore_unknown': True}, True), ({}, True), ({'ignore_unknown': False}, False)):
                    try:
                        with warnings.catch_warnings(record=True) as w:
                            warnings.simplefilter('always')
                            got = hdf5_io.load_from_hdf5(f, **kw)
                    except (ImportError, AttributeError) as e:
                        if lenient:
                            probs.append('unknown %s with %r raised %s' % (what, kw, type(e).__name__))
                        continue
                    except Exception as e:
                        probs.append('unknown %s with %r raised %s: %s' % (what, kw, type(e).__name__, str(e)[:80]))
                        continue
                    if not lenient:
                        probs.append('unknown %s with ignore_unknown=False did not raise (loaded %r)' % (what, type(got[path[1:]]).__name__))
                        continue
                    x = got[path[1:]]
                    if type(x) is not hdf5_io.Hdf5Ignored:
                        probs.append('unknown %s with %r loaded as %s' % (what, kw, type(x).__name__))
                    if not any(issubclass(x.category, UserWarning) and "Can't import" in str(x.message) for x in w):
                        probs.append('unknown %s with %r: no warning' % (what, kw))
                    if got['keep'] != [1, 2] or (path != '/cls' and got['cls'] is not hdf5_io.Hdf5Saver):
                        probs.append('unknown %s with %r: the rest of the data is not loaded' % (what, kw))
                ld = hdf5_io.Hdf5Loader(f)
                if ld.ignore_unknown is not True:
                    probs.append('Hdf5Loader default ignore_unknown is %r' % (ld.ignore_unknown,))
    return probs


def api_format_errors():
    """documented error behaviour: unknown type tag / missing attribute -> Hdf5ImportError; objects that cannot be exported ->
    Hdf5ExportError; unknown LegCharge format -> ValueError; Hdf5Ignored is neither saved nor loaded"""
    import h5py
    from tenpy.tools import hdf5_io
    from tenpy.linalg.charges import LegCharge
    probs = []
    with _tmp() as d:
        fn = os.path.join(d, 'f.h5')
        with h5py.File(fn, 'w') as f:
            hdf5_io.save_to_hdf5(f, {'l': [1, 2], 'm': (1,), 'ign': hdf5_io.Hdf5Ignored('x'), 'k': 1})
            if 'ign' in f:
                probs.append('an Hdf5Ignored object was saved')
            f['l'].attrs['type'] = 'no_such_type'
            del f['m'].attrs['len']
            g = f.create_group('ignored_group')
            g.attrs['type'] = hdf5_io.REPR_IGNORED
            g['content'] = 5
            f['bytes_tag'] = 7
            f['bytes_tag'].attrs['type'] = np.bytes_('int')
        with h5py.File(fn, 'r') as f:
            for path, what in (('/l', 'unknown type tag'), ('/m', 'missing len attribute')):
                try:
                    hdf5_io.load_from_hdf5(f, path)
                    probs.append('%s: loading did not raise' % what)
                except hdf5_io.Hdf5ImportError as e:
                    if not isinstance(e, hdf5_io.Hdf5FormatError):
                        probs.append('Hdf5ImportError is not an Hdf5FormatError')
                except Exception as e:
                    probs.append('%s: raised %s instead of Hdf5ImportError' % (what, type(e).__name__))
            x = hdf5_io.load_from_hdf5(f, '/ignored_group')
            if type(x) is not hdf5_io.Hdf5Ignored or x.name != '/ignored_group':
                probs.append("a group of type 'ignore' loaded as %r" % (x,))
            if hdf5_io.load_from_hdf5(f, '/k') != 1:
                probs.append('the dictionary next to an ignored object is damaged')
            if hdf5_io.load_from_hdf5(f, '/bytes_tag') != 7:
                probs.append('a type tag stored as bytes (files written with h5py 2) is not understood')
        with h5py.File(os.path.join(d, 'g.h5'), 'w') as f:
            loc = lambda: None      # noqa: E731
            shadow = types.FunctionType(hdf5_io.find_global.__code__, hdf5_io.find_global.__globals__, 'find_global')
            shadow.__module__, shadow.__qualname__ = hdf5_io.find_global.__module__, hdf5_io.find_global.__qualname__
            for i, (obj, what) in enumerate(((loc, 'a lambda'), (shadow, 'a function that is not the global of its name'), (BadReduce(), 'an object with a malformed __reduce__'))):
                try:
                    hdf5_io.save_to_hdf5(f, obj, 'x%d' % i)
                    probs.append('saving %s did not raise' % what)
                except hdf5_io.Hdf5ExportError:
                    pass
                except Exception as e:
                    probs.append('saving %s raised %s instead of Hdf5ExportError' % (what, type(e).__name__))
            try:        # h5py refuses the object: the error of h5py is passed on (saving fails, nothing is written silently)
                hdf5_io.save_to_hdf5(f, np.array([None, 'a'], dtype=object), 'objarr')
                probs.append('saving an array of dtype object did not raise')
            except TypeError:
                pass
            leg = LegCharge.from_trivial(3)
            try:
                hdf5_io.Hdf5Saver(f, {'LegCharge': 'no_such_format'}).save(leg, 'leg')
                probs.append('unknown LegCharge format: saving did not raise')
            except ValueError:
                pass
            hdf5_io.save_to_hdf5(f, leg, 'leg_bad_format')
            f['leg_bad_format'].attrs['format'] = 'no_such_format'
            try:
                hdf5_io.load_from_hdf5(f, 'leg_bad_format')
                probs.append('unknown LegCharge format in the file: loading did not raise')
            except ValueError:
                pass
            sv = hdf5_io.Hdf5Saver(f)
            if sv.format_selection != {} or hdf5_io.Hdf5Saver(f, {'LegCharge': 'compact'}).format_selection != {'LegCharge': 'compact'}:
                probs.append('Hdf5Saver.format_selection is not the given dictionary')
            sv.save(leg, 'leg_default')
            if f['leg_default'].attrs['format'] != 'blocks':
                probs.append("default LegCharge format is %r, documented 'blocks'" % (f['leg_default'].attrs['format'],))
    for name, ok in (('a', True), ('ä b', True), ('a/b', False), ('.', False), ('..', True), (5, False), (b'a', False), (None, False)):
        if bool(hdf5_io.valid_hdf5_path_component(name)) != ok:
            probs.append('valid_hdf5_path_component(%r) is %r' % (name, not ok))
    if hdf5_io.find_global('tenpy.linalg.charges', 'LegCharge.from_qflat').__func__ is not LegCharge.from_qflat.__func__:
        probs.append('find_global with a dotted qualified name')
    try:
        hdf5_io.find_global('tenpy.linalg.charges', 'NoSuch')
        probs.append('find_global of a missing name did not raise')
    except AttributeError:
        pass
    return probs


def api_format_selection():
    """Hdf5Saver(h5group, format_selection={'LegCharge': fmt}): what the file contains per format (documented in LegCharge.save_hdf5)"""
    import h5py
    from tenpy.tools import hdf5_io
    from tenpy.linalg.charges import ChargeInfo, LegCharge
    probs = []
    ci = ChargeInfo([1, 2], ['N', 'P'])
    leg = LegCharge.from_qind(ci, [0, 2, 3, 6], [[1, 0], [-1, 1], [1, 0]], qconj=-1)
    with _tmp() as d:
        for fmt in ('blocks', 'compact', 'flat', None):
            fn = os.path.join(d, 'l%s.h5' % fmt)
            with h5py.File(fn, 'w') as f:
                hdf5_io.Hdf5Saver(f, None if fmt is None else {'LegCharge': fmt, 'other': 1}).save(leg)
            with h5py.File(fn, 'r') as f:
                eff = fmt or 'blocks'
                if f.attrs['format'] != eff or f.attrs['ind_len'] != 6 or f.attrs['qconj'] != -1:
                    probs.append('format %r: attributes format/ind_len/qconj are %r/%r/%r' % (fmt, f.attrs['format'], f.attrs['ind_len'], f.attrs['qconj']))
                members = sorted(f.keys())
                want = {'blocks': ['charges', 'chinfo', 'slices'], 'compact': ['blockcharges', 'chinfo'], 'flat': ['charges', 'chinfo']}[eff]
                if members != want:
                    probs.append('format %r: members %r, documented %r' % (fmt, members, want))
                    continue
                if eff == 'blocks' and (f['slices'][...].tolist() != [0, 2, 3, 6] or f['charges'][...].tolist() != [[1, 0], [-1, 1], [1, 0]]):
                    probs.append('format blocks: slices/charges datasets differ from the attributes of the leg')
                if eff == 'compact' and f['blockcharges'][...].tolist() != [[0, 2, 1, 0], [2, 3, -1, 1], [3, 6, 1, 0]]:
                    probs.append('format compact: blockcharges is not hstack([slices[:-1], slices[1:], charges]): %r' % (f['blockcharges'][...].tolist(),))
                if eff == 'flat' and f['charges'][...].tolist() != leg.to_qflat().tolist():
                    probs.append('format flat: charges is not to_qflat()')
                if eff != 'flat' and (f.attrs['block_number'] != 3 or bool(f.attrs['sorted']) or not bool(f.attrs['bunched'])):
                    probs.append('format %r: block_number/sorted/bunched attributes wrong' % (fmt,))
                got = hdf5_io.load_from_hdf5(f)
                if got.to_qflat().tolist() != leg.to_qflat().tolist() or got.qconj != -1 or got.chinfo != ci:
                    probs.append('format %r: loaded leg differs' % (fmt,))
                if eff != 'flat' and (got.slices.tolist() != [0, 2, 3, 6] or got.sorted or not got.bunched or got.charges.dtype != leg.charges.dtype):
                    probs.append('format %r: loaded blocks differ' % (fmt,))
    return probs


API_SCENARIOS = {
    'file_endings': api_file_endings, 'paths_and_partial_loading': api_paths_and_partial_loading, 'exclude': api_exclude,
    'ignore_unknown': api_ignore_unknown, 'format_errors': api_format_errors, 'format_selection': api_format_selection,
}


def run_api(name):
    try:
        return {'problems': API_SCENARIOS[name]()[:8]}
    except Exception as e:
        return {'problems': ['scenario raised %s: %s [%s]' % (type(e).__name__, str(e)[:200], _where(e))], 'crashed': traceback.format_exc()[-600:]}


# ------------------------------------------------------------------------------------------------
# inventory of the public names and of the anchored functions (AST / reflection)
# ------------------------------------------------------------------------------------------------

def anchored_files():
    root = tenpy_dir()
    out = []
    pat = re.compile(r'^\s*def (%s)\(' % '|'.join(map(re.escape, ANCHOR_NAMES)), re.M)
    for dp, dn, fns in os.walk(root):
        for fn in fns:
            if fn.endswith('.py'):
                p = os.path.join(dp, fn)
                try:
                    src = open(p).read()
                except Exception:
                    continue
                if p.endswith(os.path.join('tools', 'hdf5_io.py')) or pat.search(src):
                    out.append(p)
    return sorted(out)


def anchored_code_objects():
    """(relative file, qualified name, first line) -> (code object, set of executable lines) of: every function of hdf5_io.py, every
    save_hdf5 / from_hdf5 / __getstate__ / __setstate__ / __reduce__ of the package"""
    root = tenpy_dir()
    res = {}
    for p in anchored_files():
        src = open(p).read()
        top = compile(src, p, 'exec')
        whole = p.endswith(os.path.join('tools', 'hdf5_io.py'))

        def walk(code, qual, in_class):
            for c in code.co_consts:
                if isinstance(c, types.CodeType):
                    is_class = _is_class_body(c)
                    q = (qual + '.' if qual else '') + c.co_name
                    if not is_class and not c.co_name.startswith('<') and (whole or c.co_name in ANCHOR_NAMES):
                        lines = {l for _, _, l in c.co_lines() if l is not None and l != c.co_firstlineno}
                        for cc in c.co_consts:      # lines of nested functions / comprehensions belong to them
                            if isinstance(cc, types.CodeType) and not cc.co_name.startswith('<'):
                                lines -= {l for _, _, l in cc.co_lines() if l is not None}
                        res[(os.path.relpath(p, root), q, c.co_firstlineno)] = lines
                    walk(c, q, is_class)
        walk(top, '', False)
    return res


def _is_class_body(code):
    return '__qualname__' in code.co_names and '__module__' in code.co_names and code.co_argcount == 0


def public_names():
    import inspect
    from tenpy.tools import hdf5_io
    out = {'module': {}, 'methods': {}}
    for n in hdf5_io.__all__:
        o = getattr(hdf5_io, n)
        out['module'][n] = 'class' if inspect.isclass(o) else ('function' if callable(o) else 'constant:%r' % (o if isinstance(o, str) else type(o).__name__,))
    for cn in ('Hdf5Saver', 'Hdf5Loader', 'Hdf5Exportable', 'Hdf5Ignored'):
        cls = getattr(hdf5_io, cn)
        for n, o in vars(cls).items():
            if n.startswith('_') and n != '__init__':
                continue
            if inspect.isfunction(o) or isinstance(o, (staticmethod, classmethod)):
                out['methods'][cn + '.' + n] = 'method'
            else:
                out['methods'][cn + '.' + n] = 'attribute'
    return out


def inventory():
    return {'leaves': list_leaves(), 'public': public_names(), 'anchored': anchored_table(), 'api': sorted(API_SCENARIOS), 'reduce': sorted(reduce_objects()),
            'monitoring': hasattr(sys, 'monitoring')}


# ------------------------------------------------------------------------------------------------
# line coverage of the anchored functions (sys.monitoring: PY_START once per code object, LINE once per line -> no measurable overhead);
# switched on in EVERY runner process of C17 (payload key 'cov_dir'), the harness takes the union
# ------------------------------------------------------------------------------------------------

_COV = {'hits': {}, 'on': False}


def start_cov():
    mon = getattr(sys, 'monitoring', None)
    if mon is None or _COV['on']:
        return
    root = tenpy_dir()
    hio = os.path.join('tools', 'hdf5_io.py')
    tool = mon.COVERAGE_ID
    try:
        mon.use_tool_id(tool, 'c17cov')
    except ValueError:
        return
    E = mon.events

    def on_start(code, offset):
        fn = code.co_filename
        if fn.startswith(root) and (fn.endswith(hio) or code.co_name in ANCHOR_NAMES):
            _COV['hits'].setdefault((os.path.relpath(fn, root), code.co_firstlineno), set())
            mon.set_local_events(tool, code, E.LINE)
        return mon.DISABLE

    def on_line(code, line):
        _COV['hits'].setdefault((os.path.relpath(code.co_filename, root), code.co_firstlineno), set()).add(line)
        return mon.DISABLE
    mon.register_callback(tool, E.PY_START, on_start)
    mon.register_callback(tool, E.LINE, on_line)
    mon.set_events(tool, E.PY_START)
    _COV['on'] = True


def dump_cov(cov_dir, kind):
    if not _COV['on']:
        return
    out = [[f, first, sorted(lines)] for (f, first), lines in _COV['hits'].items()]
    fn = os.path.join(cov_dir, 'cov_%s_%d.json' % (kind, os.getpid()))
    with open(fn + '.tmp', 'w') as fh:
        json.dump(out, fh)
    os.replace(fn + '.tmp', fn)


def anchored_table():
    """static table: every anchored function with its executable lines (line number, text)"""
    root = tenpy_dir()
    out = []
    srcs = {}
    for (f, q, first), lines in sorted(anchored_code_objects().items()):
        if f not in srcs:
            srcs[f] = open(os.path.join(root, f)).read().split('\n')
        out.append({'file': f, 'name': q, 'first': first, 'lines': [[l, srcs[f][l - 1].strip()[:110]] for l in sorted(lines)]})
    return out


def main():
    fin, fout = sys.argv[1], sys.argv[2]
    payload = json.load(open(fin))
    kind = payload['kind']
    if payload.get('cov_dir'):
        start_cov()
    if kind == 'inventory':
        res = inventory()
    elif kind == 'leaves':
        res = []
        for c in payload['cases']:
            try:
                res.append(run_leaf(c))
            except Exception:
                res.append({'runner_error': traceback.format_exc()[-800:]})
    elif kind == 'api':
        res = {n: run_api(n) for n in payload['names']}
    elif kind == 'reduce2':
        res = {}
        for n in payload['names']:
            try:
                res[n] = run_reduce_case(n)
            except Exception:
                res[n] = {'runner_error': traceback.format_exc()[-800:]}
    else:
        raise ValueError(kind)
    if payload.get('cov_dir'):
        dump_cov(payload['cov_dir'], kind)
    with open(fout, 'w') as f:
        json.dump(res, f, default=str)


if __name__ == '__main__':
    main()
