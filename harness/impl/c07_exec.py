"""Executor used by c07_impl.py and c09_impl.py: builds MPS with the tenpy constructors and performs
operation histories, dumping raw tensors and tenpy's own answers (runs in a fresh interpreter)."""
import os
import sys
import traceback
import warnings

import numpy as np

warnings.simplefilter('ignore')
sys.path.insert(0, os.path.join(os.environ.get('VERIF_DIR', '/verif'), 'harness'))
import mps_gen as G  # noqa: E402


def cnum(x):
    x = complex(x)
    return [x.real, x.imag]


def half(f):
    if f is None:
        return None
    return [int(round(2 * f[0])), int(round(2 * f[1]))]


def form_arg(f):
    """JSON form -> tenpy argument: name, None, [a,b] half units -> tuple of floats"""
    if f is None or isinstance(f, str):
        return f
    if isinstance(f, (list, tuple)) and len(f) == 2 and all(isinstance(x, (int, float)) or x is None for x in f):
        return tuple(None if x is None else x / 2. for x in f)
    return [form_arg(x) for x in f]


def npc_op(sites, mat):
    import tenpy.linalg.np_conserved as npc
    mat = np.asarray(mat)
    if np.all(np.abs(mat.imag) < 1e-300):
        mat = mat.real.copy()
    n = len(sites)
    dims = [s.dim for s in sites]
    if n == 1:
        return npc.Array.from_ndarray(mat, [sites[0].leg, sites[0].leg.conj()], labels=['p', 'p*'])
    legs = [s.leg for s in sites] + [s.leg.conj() for s in sites]
    labels = ['p%d' % k for k in range(n)] + ['p%d*' % k for k in range(n)]
    return npc.Array.from_ndarray(mat.reshape(dims + dims), legs, labels=labels)


def build_finite(spec, SI):
    from tenpy.networks.mps import MPS
    import tenpy.linalg.np_conserved as npc
    sites = [G.make_site(k) for k in spec['sites']]
    L = len(sites)
    b = spec['build']
    D = G.build_data(spec, SI)
    m = b['method']
    dtype = np.complex128 if b['cplx'] else np.float64
    if m == 'product':
        return MPS.from_product_state(sites, D['p_state'], bc='finite', dtype=dtype, permute=b['permute'],
                                      form=form_arg(b['form']), unit_cell_width=L)
    if m in ('full', 'full_sparse'):
        v = D['psi_in']
        if not b['cplx']:
            v = v.real.copy()
        psi = npc.Array.from_ndarray(v, [s.leg for s in sites], labels=['p%d' % i for i in range(L)])
        return MPS.from_full(sites, psi, form=b['form'], normalize=b['normalize'], unit_cell_width=L)
    if m == 'bflat':
        Bf = D['Bflat'] if b['cplx'] else [x.real.copy() for x in D['Bflat']]
        ci = sites[0].leg.chinfo
        legL = npc.LegCharge.from_qflat(ci, D['qb0']).bunch()[1]
        return MPS.from_Bflat(sites, Bf, SVs=D['svs'], bc='finite', permute=b['permute'], form=b['form'],
                              legL=legL, unit_cell_width=L)
    if m == 'circuit':
        psi = MPS.from_product_state(sites, D['p_state'], bc='finite', dtype=dtype, permute=False,
                                     form=form_arg(b['form']), unit_cell_width=L)
        for i, U in zip(b['gates'], D['gate_mats']):
            op = npc_op([sites[i], sites[i + 1]], U)
            th = psi.get_theta(i, 2)
            th = npc.tensordot(op, th, axes=[['p0*', 'p1*'], ['p0', 'p1']])
            th = th.itranspose(['vL', 'p0', 'p1', 'vR']).combine_legs([['vL', 'p0'], ['p1', 'vR']], qconj=[+1, -1])
            psi.set_svd_theta(i, th, trunc_par={'chi_max': 64, 'svd_min': 1.e-10})
        return psi
    if m == 'singlets':
        up, down = D['up_down']
        return MPS.from_singlets(sites[0], L, [tuple(p) for p in b['pairs']], up=up, down=down, lonely=b['lonely'],
                                 lonely_state=D['lonely_state'], bc='finite', unit_cell_width=L)
    if m == 'covering':
        covering = []
        for g, v in zip(b['groups'], D['locals']):
            ls = [sites[i] for i in g]
            if not b['cplx']:
                v = v.real.copy()
            if len(g) == 1:
                covering.append(MPS.from_product_state(ls, [v.reshape(-1)], dtype=dtype, permute=False, unit_cell_width=1))
            else:
                a = npc.Array.from_ndarray(v, [s.leg for s in ls], labels=['p%d' % i for i in range(len(g))])
                loc = MPS.from_full(ls, a, unit_cell_width=len(g))
                if b.get('local_prep') == 'canon':
                    loc.canonical_form()
                covering.append(loc)
        return MPS.from_product_mps_covering(covering, [tuple(g) for g in b['groups']], bc='finite', unit_cell_width=L)
    raise ValueError(m)


def build_infinite(spec, SI):
    from tenpy.networks.mps import MPS
    import tenpy.linalg.np_conserved as npc
    sites = [G.make_site(k) for k in spec['sites']]
    L = len(sites)
    b = spec['build']
    D = G.build_data_infinite(spec, SI)
    dtype = np.complex128 if b['cplx'] else np.float64
    if b['method'] == 'product':
        return MPS.from_product_state(sites, D['p_state'], bc='infinite', dtype=dtype, form=form_arg(b['form']),
                                      unit_cell_width=L)
    if b['method'] == 'bflat':
        Bf = D['Bflat'] if b['cplx'] else [x.real.copy() for x in D['Bflat']]
        ci = sites[0].leg.chinfo
        legL = npc.LegCharge.from_qflat(ci, D['qb0']).bunch()[1]
        psi = MPS.from_Bflat(sites, Bf, SVs=None, bc='infinite', permute=b['permute'], form=b['form'], legL=legL,
                             unit_cell_width=L)
        return psi
    if b['method'] == 'singlets':
        up, down = D['up_down']
        return MPS.from_singlets(sites[0], L, [tuple(p) for p in b['pairs']], up=up, down=down, bc='infinite',
                                 unit_cell_width=L)
    raise ValueError(b['method'])


def build(spec, SI):
    if spec['bc'] == 'finite':
        return build_finite(spec, SI)
    if spec['bc'] == 'infinite':
        return build_infinite(spec, SI)
    if spec['bc'] == 'segment':
        parent = build(spec['parent'], SI)
        first, last = spec['segment']
        return parent.extract_segment(first, last)
    raise ValueError(spec['bc'])


def observe(psi, A, key, want):
    from tenpy.algorithms.exact_diag import get_full_wavefunction
    o = {'bc': psi.bc, 'L': psi.L, 'form': [half(f) for f in psi.form], 'norm': cnum(psi.norm),
         'dims': [int(d) for d in psi.dim], 'grouped': int(psi.grouped)}
    try:
        psi.test_sanity()
    except Exception as e:
        o['sanity'] = '%s: %s' % (type(e).__name__, str(e)[:200])
    try:
        o['chi'] = [int(c) for c in psi.chi]
    except Exception as e:
        o['chi_error'] = repr(e)[:200]
    for i, B in enumerate(psi._B):
        A['%s_B%d' % (key, i)] = B.to_ndarray() if B.get_leg_labels() == ['vL', 'p', 'vR'] else \
            B.transpose(['vL', 'p', 'vR']).to_ndarray()
    o['legs_sorted'] = bool(all(B.get_leg('vL').is_sorted() and B.get_leg('vR').is_sorted() for B in psi._B))
    o['S_none'] = [i for i, s in enumerate(psi._S) if s is None]
    for i, s in enumerate(psi._S):
        if s is not None:
            A['%s_S%d' % (key, i)] = np.asarray(s.to_ndarray() if hasattr(s, 'to_ndarray') else s)
    o['nS'] = len(psi._S)
    if psi.bc == 'segment':
        # recorded basis changes of the outer virtual legs: U_L[vL original, vR current], V_R[vL current, vR original]
        U, V = getattr(psi, 'segment_boundaries', (None, None))
        o['seg_bound'] = [U is not None, V is not None]
        if U is not None:
            A[key + '_UL'] = U.transpose(['vL', 'vR']).to_ndarray()
        if V is not None:
            A[key + '_VR'] = V.transpose(['vL', 'vR']).to_ndarray()
    canonical = all(f is not None for f in psi.form)
    if psi.bc == 'finite' and want.get('full', True):
        try:
            A[key + '_full'] = get_full_wavefunction(psi, undo_sort_charge=False)
            if want.get('full_std'):
                A[key + '_fullstd'] = get_full_wavefunction(psi, undo_sort_charge=True)
        except Exception as e:
            o['full_error'] = '%s: %s' % (type(e).__name__, str(e)[:200])
    for k, seg in enumerate(want.get('rdm', [])):
        try:
            rho = psi.get_rho_segment(list(seg))
            n = len(seg)
            rho = rho.itranspose(['p%d' % j for j in range(n)] + ['p%d*' % j for j in range(n)]).to_ndarray()
            D = int(np.prod(rho.shape[:n]))
            A['%s_rho%d' % (key, k)] = rho.reshape(D, D)
        except Exception as e:
            o.setdefault('rho_error', {})[str(k)] = '%s: %s' % (type(e).__name__, str(e)[:200])
    if canonical and want.get('ent', True):
        try:
            o['entropy'] = [float(x) for x in psi.entanglement_entropy()]
            spec = psi.entanglement_spectrum()
            for k, s in enumerate(spec):
                A['%s_spec%d' % (key, k)] = np.asarray(s)
            o['nspec'] = len(spec)
            if want.get('spec_by_charge', True) and psi.chinfo.qnumber > 0:
                # per bond: [[charge, number of values], ...] in block order; the values concatenated in A
                rows = []
                for k, bond in enumerate(psi.entanglement_spectrum(by_charge=True)):
                    rows.append([[[int(x) for x in q], int(len(v))] for q, v in bond])
                    A['%s_specq%d' % (key, k)] = np.concatenate([np.asarray(v, dtype=float).reshape(-1) for q, v in bond] + [np.zeros(0)])
                o['spec_q'] = rows
            o['norm_test'] = float(np.max(psi.norm_test()))
        except Exception as e:
            o['ent_error'] = '%s: %s' % (type(e).__name__, str(e)[:200])
    try:
        o['qtotal'] = [int(x) for x in psi.get_total_charge()]
        if psi.bc == 'finite':
            o['qtotal_phys'] = [int(x) for x in psi.get_total_charge(only_physical_legs=True)]
    except Exception as e:
        o['qtotal_error'] = repr(e)[:200]
    return o


def do_op(psi, op, A, key, SI):
    """perform one operation; returns (psi, extra dict)"""
    import tenpy.linalg.np_conserved as npc
    t = op['op']
    ex = {}
    if t == 'convert_form':
        psi.convert_form(form_arg(op['forms']))
    elif t == 'canonical_form':
        meth = op.get('method')
        if meth is None:
            psi.canonical_form(renormalize=op['renormalize'])
        else:
            getattr(psi, meth)(renormalize=op['renormalize'])
    elif t == 'get_B':
        B = psi.get_B(op['i'], form_arg(op['form']), copy=op.get('copy', False))
        A[key + '_probe'] = B.transpose(['vL', 'p', 'vR']).to_ndarray()
    elif t == 'get_theta':
        th = psi.get_theta(op['i'], op['n'], formL=op['formL'] / 2., formR=op['formR'] / 2.)
        lab = ['vL'] + ['p%d' % k for k in range(op['n'])] + ['vR']
        A[key + '_probe'] = th.transpose(lab).to_ndarray()
    elif t == 'set_B_scaled':
        f = form_arg(op['form'])
        B = psi.get_B(op['i'], f, copy=True)
        c = complex(*op['c'])
        if c.imag == 0:
            c = c.real
        psi.set_B(op['i'], B * c, f)
    elif t == 'set_B_perturbed':
        # replace a tensor by a generic tensor nearby (same legs and charges): B -> B + eps |B| N/|N|, same label
        f = form_arg(op['form'])
        B = psi.get_B(op['i'], f, copy=True)
        rs = np.random.RandomState(op['seed'])
        if op.get('cplx'):
            fct = lambda size: rs.normal(size=size) + 1.j * rs.normal(size=size)
        else:
            fct = lambda size: rs.normal(size=size)
        N = npc.Array.from_func(fct, B.legs, dtype=np.complex128 if op.get('cplx') else np.float64, qtotal=B.qtotal,
                                labels=B.get_leg_labels())
        nn = npc.norm(N)
        if nn > 0:
            B = B + N * (op['eps'] * npc.norm(B) / nn)
        psi.set_B(op['i'], B, f)
    elif t == 'set_svd_theta':
        th = psi.get_theta(op['i'], 2).combine_legs([['vL', 'p0'], ['p1', 'vR']], qconj=[+1, -1])
        psi.set_svd_theta(op['i'], th, trunc_par={'chi_max': 64, 'svd_min': 1.e-10},
                          update_norm=bool(op.get('update_norm', False)))
    elif t == 'apply_local_op':
        i = op['i']
        kw = {'unitary': op.get('unitary'), 'renormalize': op.get('renormalize', False), 'understood_infinite': True}
        if 'name' in op:
            psi.apply_local_op(i, op['name'], **kw)
        else:
            n = op['n']
            sites = [psi.get_site(i + k) for k in range(n)]
            mat = np.array(op['mat'][0]) + 1j * np.array(op['mat'][1])
            psi.apply_local_op(i, npc_op(sites, mat), **kw)
    elif t == 'apply_product_op':
        ops = []
        for i, o in enumerate(op['ops']):
            if isinstance(o, str):
                ops.append(o)
            else:
                ops.append(npc_op([psi.sites[i]], np.array(o[0]) + 1j * np.array(o[1])))
        psi.apply_product_op(ops, unitary=op.get('unitary'), renormalize=op.get('renormalize', False))
    elif t == 'apply_local_term':
        psi.apply_local_term([(a, b) for a, b in op['term']], autoJW=op.get('autoJW', True), i_offset=op.get('i_offset', 0),
                             canonicalize=op.get('canonicalize', True), renormalize=op.get('renormalize', False))
    elif t == 'swap_sites':
        err = psi.swap_sites(op['i'], swap_op=op.get('swap_op', 'auto'))
        ex['eps'] = float(err.eps)
    elif t == 'permute_sites':
        log = []
        orig = psi.swap_sites

        def wrapped(i, *a, **k):
            log.append(int(i))
            return orig(i, *a, **k)
        psi.swap_sites = wrapped
        try:
            err = psi.permute_sites(list(op['perm']), swap_op=op.get('swap_op', 'auto'))
        finally:
            del psi.swap_sites
        ex['swaps'] = log
        ex['eps'] = float(err.eps)
    elif t == 'add':
        other = build(op['other'], SI)
        if 'other_norm' in op:
            other.norm = op['other_norm']
        psi = psi.add(other, complex(*op['alpha']) if op['alpha'][1] else op['alpha'][0],
                      complex(*op['beta']) if op['beta'][1] else op['beta'][0])
    elif t == 'set_norm':
        psi.norm = op['norm']
    elif t == 'group_sites':
        psi.group_sites(op['n'])
    elif t == 'group_split':
        err = psi.group_split(op.get('trunc'))
        ex['eps'] = float(err.eps)
    elif t == 'enlarge_chi':
        rs = np.random.RandomState(op['seed'])
        psi.enlarge_chi(list(op['extra']), random_fct=rs.normal)
    elif t == 'compress_svd':
        err = psi.compress_svd(dict(op['trunc']))
        ex['eps'] = float(err.eps)
        ex['ov'] = float(err.ov)
    elif t == 'compress':
        err = psi.compress({'compression_method': 'SVD', 'trunc_params': dict(op['trunc'])})
        ex['eps'] = float(err.eps)
    elif t == 'spatial_inversion':
        psi.spatial_inversion()
    elif t == 'enlarge_mps_unit_cell':
        psi.enlarge_mps_unit_cell(op['factor'])
    elif t == 'roll_mps_unit_cell':
        psi.roll_mps_unit_cell(op['shift'])
    elif t == 'extract_segment':
        psi = psi.extract_segment(op['first'], op['last'])
    elif t == 'copy':
        psi = psi.copy()
    else:
        raise ValueError('unknown op ' + t)
    return psi, ex


def run_case(case, A, key, SI):
    import time
    t0 = time.time()
    res = _run_case(case, A, key, SI)
    res['t'] = time.time() - t0
    return res


def _run_case(case, A, key, SI):
    res = {'obs': [], 'extra': []}
    try:
        psi = build(case['state'], SI)
    except Exception as e:
        res['build_error'] = '%s: %s | %s' % (type(e).__name__, str(e)[:300], traceback.format_exc()[-600:])
        return res
    want = case.get('want', {})
    res['obs'].append(observe(psi, A, '%s_0' % key, want))
    if want.get('seg_env') and case['state']['bc'] == 'segment':
        try:
            segment_env(case['state'], A, key, SI)
        except Exception as e:
            res['env_error'] = '%s: %s' % (type(e).__name__, str(e)[:300])
    for k, op in enumerate(case.get('ops', [])):
        before = psi.copy() if op.get('overlap') else None
        try:
            psi, ex = do_op(psi, op, A, '%s_%d' % (key, k + 1), SI)
        except Exception as e:
            res['op_error'] = {'step': k, 'type': type(e).__name__, 'msg': str(e)[:300] + ' ... ' + str(e)[-200:], 'tb': traceback.format_exc()[-800:]}
            break
        if before is not None:
            # tenpy's own overlaps between the state before (a copy) and after the operation
            try:
                ex['ov_ba'] = cnum(before.overlap(psi))
                ex['ov_bb'] = cnum(before.overlap(before.copy()))
                ex['ov_aa'] = cnum(psi.overlap(psi.copy()))
            except Exception as e:
                ex['ov_error'] = '%s: %s' % (type(e).__name__, str(e)[:300])
        res['extra'].append(ex)
        w = dict(want)
        if 'rdm_after' in op:
            w['rdm'] = op['rdm_after']
        if op.get('observe', True):
            res['obs'].append(observe(psi, A, '%s_%d' % (key, k + 1), w))
        else:
            res['obs'].append(None)
    return res


def segment_env(spec, A, key, SI):
    """orthonormal Schmidt states of the parent left / right of the segment, dense: envL[(p_0..p_first-1), vR],
    envR[vL, (p_last+1..p_L-1)], from the parent's 'A' tensors left and 'B' tensors right of the segment"""
    import tenpy.linalg.np_conserved as npc
    parent = build(spec['parent'], SI)
    first, last = spec['segment']
    env = None
    for i in range(first):
        B = parent.get_B(i, 'A').replace_label('p', 'p%d' % i)
        env = B if env is None else npc.tensordot(env, B, axes=['vR', 'vL'])
    if env is not None:
        env = env.transpose(['vL'] + ['p%d' % i for i in range(first)] + ['vR']).to_ndarray()
        A[key + '_envL'] = env.reshape(-1, env.shape[-1])
    env = None
    for i in range(last + 1, parent.L):
        B = parent.get_B(i, 'B').replace_label('p', 'p%d' % i)
        env = B if env is None else npc.tensordot(env, B, axes=['vR', 'vL'])
    if env is not None:
        env = env.transpose(['vL'] + ['p%d' % i for i in range(last + 1, parent.L)] + ['vR']).to_ndarray()
        A[key + '_envR'] = env.reshape(env.shape[0], -1)


def index_probe(cases):
    """_to_valid_site_index / _to_valid_bond_index on a window of integers"""
    from tenpy.networks.mps import MPSGeometry
    out = []
    site = G.make_site('SH:none')
    for c in cases:
        geo = MPSGeometry([site] * c['L'], c['bc'], unit_cell_width=c['L'])
        row = []
        for i in c['idx']:
            r = []
            try:
                a, b = geo._to_valid_site_index(i, return_num_unit_cells=True)
                r.append([int(a), int(b)])
            except ValueError:
                r.append(None)
            for is_left in (True, False):
                try:
                    a, b = geo._to_valid_bond_index(i, is_left, return_num_unit_cells=True)
                    r.append([int(a), int(b)])
                except ValueError:
                    r.append(None)
            try:
                r.append(int(geo._to_valid_site_index(i)))
            except ValueError:
                r.append(None)
            row.append(r)
        out.append(row)
    return out


def product_probe(cases):
    """MPS.from_product_state with integer local states: legs / qtotal / block of every tensor and the total charge"""
    from tenpy.networks.mps import MPS
    out = []
    for c in cases:
        sites = [G.make_site(k) for k in c['kinds']]
        L = len(sites)
        fin = c['bc'] != 'infinite'
        psi = MPS.from_product_state(sites, [int(x) for x in c['p']], bc=c['bc'], permute=False,
                                     chargeL=c['chargeL'], unit_cell_width=L, understood_shift_symmetry=True)
        ci = sites[0].leg.chinfo
        srows = []
        for st, pidx in zip(sites, c['p']):
            leg = st.leg
            q, pos = leg.get_qindex(int(pidx))
            sizes = [int(b - a) for a, b in zip(leg.slices[:-1], leg.slices[1:])]
            srows.append([sizes, [[int(y) for y in x] for x in leg.charges], int(leg.qconj), int(q), int(pos)])
        brows = []
        for B in psi._B:
            assert B.get_leg_labels() == ['vL', 'p', 'vR'], B.get_leg_labels()
            vL, vR = B.get_leg('vL'), B.get_leg('vR')
            qd = [[int(y) for y in r] for r in B._qdata]
            brows.append([[[int(y) for y in x] for x in vL.charges], int(vL.qconj), [int(x) for x in np.diff(vL.slices)],
                          [[int(y) for y in x] for x in vR.charges], int(vR.qconj), [int(x) for x in np.diff(vR.slices)],
                          [int(x) for x in B.qtotal], qd,
                          [float(abs(x)) for x in B.to_ndarray().reshape(-1)]])
        total = [int(x) for x in (psi.get_total_charge(only_physical_legs=True) if c['bc'] == 'finite'
                                  else psi.get_total_charge())]
        out.append({'mod': [int(x) for x in ci.mod], 'sites': srows, 'B': brows, 'total': total,
                    'chi': [int(x) for x in psi.chi], 'form': [list(map(float, f)) if f is not None else None for f in psi.form]})
    return out


def main(argv):
    import json
    payload = json.load(open(argv[1]))
    kind = payload['kind']
    if kind == 'siteinfo':
        out = G.site_info(payload['kinds'])
    elif kind == 'index':
        out = index_probe(payload['cases'])
    elif kind == 'product':
        out = product_probe(payload['cases'])
    elif kind == 'addblocks':
        import c09_addblocks_run
        out = c09_addblocks_run.run(payload)
    elif kind == 'valued':
        import c07_valued_run
        out = c07_valued_run.run(payload)
    elif kind == 'swapsign':
        import c09_swapsign_run
        out = c09_swapsign_run.run(payload)
    else:
        kinds = set()

        def collect(spec):
            kinds.update(spec['sites'])
            if 'parent' in spec:
                collect(spec['parent'])
        for c in payload['cases']:
            collect(c['state'])
            for op in c.get('ops', []):
                if 'other' in op:
                    collect(op['other'])
        SI = G.site_info(sorted(kinds))
        A = {}
        results = []
        for n, c in enumerate(payload['cases']):
            results.append(run_case(c, A, 'c%d' % n, SI))
        npz = argv[2] + '.npz'
        np.savez(npz, **A)
        out = {'results': results, 'npz': npz}
    with open(argv[2], 'w') as f:
        json.dump(out, f)


if __name__ == '__main__':
    main(sys.argv)
