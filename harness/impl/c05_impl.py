"""Runs tenpy's matrix factorisations (svd, qr, lq, eigh, eig, eigvalsh, eigvals, expm, pinv, polar,
orthogonal_columns, speigs) on the cases of harness/c05.py; dense numpy oracle + structure report."""
import json
import sys
import traceback
import warnings

import numpy as np

warnings.simplefilter('ignore')


def mk_leg(ci, spec):
    from tenpy.linalg.charges import LegCharge
    sizes, charges, qconj = spec
    ch = np.array(charges, dtype=np.int64).reshape(len(sizes), ci.qnumber)
    return LegCharge.from_qind(ci, np.cumsum([0] + list(sizes)), ci.make_valid(ch), qconj)


def leg_blocks(leg):
    return [[int(s), [int(x) for x in c]] for s, c in zip(leg.get_block_sizes(), leg.charges)]


DTYPES = {'f8': np.float64, 'c16': np.complex128, 'f4': np.float32, 'c8': np.complex64, 'i8': np.int64}


def case_dtype(case):
    return case.get('dtype') or ('c16' if case.get('complex') else 'f8')


def eps_scale(case):
    """factor on the double precision tolerances for single precision inputs"""
    return 3e5 if case_dtype(case) in ('f4', 'c8') else 1.0


def make_matrix(case):
    """random rank-2 Array: tensor of rank >= 2 with the legs of the case, combined into 2 legs"""
    import tenpy.linalg.np_conserved as npc
    rng = np.random.default_rng(case['seed'])
    ci = npc.ChargeInfo(list(case['mods']))
    legs = [mk_leg(ci, s) for s in case['legs']]
    groups = case.get('combine')
    pipe_qconj = case.get('pipe_qconj', [1, -1])
    if case.get('pipe_square'):
        # square matrix over a LegPipe and its conjugate (two-site operator): the legs of the matrix ARE LegPipes
        legs = legs + [l.conj() for l in legs]
        n = len(legs) // 2
        groups = [list(range(n)), list(range(n, 2 * n))]
        pipe_qconj = [1, -1]
    elif case.get('square'):
        legs = [legs[0], legs[0].conj()]
    rank = len(legs)
    if case.get('qtotal_explicit') is not None:
        qtotal = ci.make_valid(np.array(case['qtotal_explicit'], dtype=np.int64).reshape(ci.qnumber))
    elif case.get('zero_qtotal') or case.get('pipe_square'):
        qtotal = None
    elif ci.qnumber and not case.get('square'):
        qtotal = ci.make_valid(np.sum([l.get_charge(q % l.block_number) for l, q in zip(legs, case['qtotal_block'])], axis=0))
    else:
        qtotal = None
    dt = case_dtype(case)
    cplx = dt in ('c16', 'c8')

    def func(shape):
        x = rng.integers(-9, 10, size=shape).astype(np.float64)
        if cplx:
            x = x + 1j * rng.integers(-9, 10, size=shape)
        return x.astype(DTYPES[dt])
    a = npc.Array.from_func(func, legs, dtype=DTYPES[dt], qtotal=qtotal, labels=['l%d' % i for i in range(rank)])
    if groups is not None and rank > 2:
        a = a.combine_legs(groups, qconj=pipe_qconj)
        if a.rank != 2:
            raise RuntimeError('generator: combine did not give a matrix')
    # block surgery on the matrix
    mode = case.get('surgery', [])
    for k, blk in enumerate(a._data):
        m = mode[k % len(mode)] if mode else 'keep'
        if m == 'zero':
            blk[...] = 0
        elif m == 'rankdef' and min(blk.shape) >= 2:
            blk[-1, :] = blk[0, :] * 2
            if blk.shape[1] >= 2:
                blk[:, -1] = blk[:, 0] * 3
        elif m == 'rank1' and min(blk.shape) >= 1:
            blk[...] = np.outer(blk[:, 0], blk[0, :])
    if mode and 'drop' in mode and a.stored_blocks > 1:
        keep = [k for k in range(a.stored_blocks) if mode[k % len(mode)] != 'drop']
        if keep:
            a._data = [a._data[k] for k in keep]
            a._qdata = a._qdata[keep]
    if case.get('drop_first_last') and a.stored_blocks > 1:
        # forced boundary: the first and/or the last row sector has no stored block
        order = np.argsort(a._qdata[:, 0], kind='stable')
        kill = set()
        if 'first' in case['drop_first_last']:
            kill.add(int(order[0]))
        if 'last' in case['drop_first_last'] and len(order) - len(kill) > 1:
            kill.add(int(order[-1]))
        keep = [k for k in range(a.stored_blocks) if k not in kill]
        a._data = [a._data[k] for k in keep]
        a._qdata = a._qdata[keep]
    if case.get('hermitian'):
        a = a + a.conj().transpose()
    if case.get('uplo_garbage') and all(l.is_blocked() for l in a.legs):
        # eigh/eigvalsh promise to read only the UPLO triangle: put garbage into the other one (only for completely blocked
        # legs, where the stored blocks are diagonal blocks of `a` itself and the triangle is unambiguous)
        up = case['opts'].get('UPLO', 'L') == 'L'
        for blk in a._data:
            g = rng.integers(1, 9, size=blk.shape).astype(blk.dtype)
            blk += np.triu(g, 1) if up else np.tril(g, -1)
    # storage variants: order of the stored blocks (a._qdata not sorted) and memory layout of the blocks
    if case.get('shuffle') and a.stored_blocks > 1:
        perm = rng.permutation(a.stored_blocks)
        a._data = [a._data[k] for k in perm]
        a._qdata = np.ascontiguousarray(a._qdata[perm])
        a._qdata_sorted = False
    lay = case.get('layout', 'C')
    if lay == 'F':
        a._data = [np.asfortranarray(b) for b in a._data]
    elif lay == 'view':
        new = []
        for b in a._data:
            big = np.zeros((2 * b.shape[0] + 1, 2 * b.shape[1] + 1), dtype=b.dtype, order='F' if b.shape[0] % 2 else 'C')
            v = big[1::2, 1::2]
            v[...] = b
            new.append(v)
        a._data = new
    a.test_sanity()
    return a


def hermitian_reference(case, a):
    """dense matrix eigh/eigvalsh have to diagonalise: the hermitian matrix defined by the UPLO triangle of every stored block"""
    if not (case.get('uplo_garbage') and all(l.is_blocked() for l in a.legs)):
        return a.to_ndarray()
    b = a.copy(deep=True)
    low = case['opts'].get('UPLO', 'L') == 'L'
    for k, blk in enumerate(b._data):
        b._data[k] = (np.tril(blk) + np.tril(blk, -1).conj().T) if low else (np.triu(blk) + np.triu(blk, 1).conj().T)
    return b.to_ndarray()


def snapshot(a):
    return {'data': [np.array(b, copy=True) for b in a._data], 'qdata': a._qdata.copy(), 'sorted': bool(a._qdata_sorted),
            'qtotal': a.qtotal.copy(), 'labels': list(a.get_leg_labels()), 'dtype': a.dtype,
            'legs': [(int(l.qconj), l.slices.copy(), l.charges.copy()) for l in a.legs]}


def changed(a, s):
    """what a factorisation changed on its input Array (None: nothing)"""
    if len(a._data) != len(s['data']) or any(b.shape != c.shape or not np.array_equal(b, c) for b, c in zip(a._data, s['data'])):
        return 'entries (_data)'
    if a._qdata.shape != s['qdata'].shape or not np.array_equal(a._qdata, s['qdata']):
        return '_qdata'
    if bool(a._qdata_sorted) != s['sorted']:
        return '_qdata_sorted'
    if not np.array_equal(a.qtotal, s['qtotal']) or a.dtype != s['dtype']:
        return 'qtotal/dtype'
    if list(a.get_leg_labels()) != s['labels']:
        return 'labels'
    if len(a.legs) != len(s['legs']) or any(int(l.qconj) != q or not np.array_equal(l.slices, sl) or not np.array_equal(l.charges, ch)
                                            for l, (q, sl, ch) in zip(a.legs, s['legs'])):
        return 'legs'
    return None


def aliases(x, a):
    """does the returned Array x share entry / block-index memory with the input a?"""
    if np.may_share_memory(x._qdata, a._qdata):
        return '_qdata'
    for b in x._data:
        for c in a._data:
            if np.may_share_memory(b, c):
                return '_data'
    return None


def input_checks(key, a, snap, results, probs, allow_nonfinite=False):
    """input-unchanged observable + ownership of the returned factors + their use after a deep copy; no NaN / inf in the factors
    (the norm comparisons of the oracles are blind to NaN)"""
    c = changed(a, snap)
    if c is not None:
        probs.append((key + 'input-changed', 'the input Array was modified by the call: ' + c))
    for name, x in results:
        if not all(np.all(np.isfinite(b)) for b in x._data):
            if not allow_nonfinite and not any(k.startswith(key + 'nan') for k, _ in probs):
                probs.append((key + 'non-finite', '%s contains NaN or inf' % name))
            continue
        al = aliases(x, a)
        if al is not None:
            probs.append((key + 'aliases-input', '%s shares %s memory with the input Array' % (name, al)))
        y = x.copy(deep=True)
        if sane(y) is None and not np.array_equal(y.to_ndarray(), x.to_ndarray()):
            probs.append((key + 'copy', 'deep copy of %s differs from %s' % (name, name)))


def npc_dist(x, y):
    """|x - y| computed with npc operations (uses legs, labels, _qdata and _qdata_sorted of the operands)"""
    import tenpy.linalg.np_conserved as npc
    return float(npc.norm(x - y))


def sane(x):
    try:
        x.test_sanity()
    except Exception as e:
        return type(e).__name__ + ': ' + str(e)[:100]
    return None


def charge_rule_violations(x):
    """blocks of an Array whose charges do not add up to qtotal (independent of test_sanity)"""
    ci = x.chinfo
    bad = 0
    for qi in x._qdata:
        tot = np.zeros(ci.qnumber, dtype=np.int64)
        for l, q in zip(x.legs, qi):
            tot = tot + l.qconj * l.charges[q]
        if np.any(ci.make_valid(tot) != ci.make_valid(x.qtotal)):
            bad += 1
    return bad


def contractible(l1, l2):
    try:
        l1.test_contractible(l2)
        return True
    except ValueError:
        return False


def blocked_info(a):
    """the completely blocked version used by the routines and its structure"""
    piped, b = a.as_completely_blocked()
    return piped, b, {'legL': [leg_blocks(b.legs[0]), int(b.legs[0].qconj)], 'legR': [leg_blocks(b.legs[1]), int(b.legs[1].qconj)],
                      'qtotal': [int(x) for x in b.qtotal], 'qdata': [[int(x) for x in r] for r in b._qdata]}


def run_svd(case):
    import tenpy.linalg.np_conserved as npc
    a = make_matrix(case)
    snap = snapshot(a)
    ad = a.to_ndarray().astype(np.complex128 if np.iscomplexobj(a._data[0] if a._data else 0.) else np.float64)
    nrm = max(np.linalg.norm(ad), 1.0)
    es = eps_scale(case)
    tol = 1e-10 * nrm * es
    o = dict(case['opts'])
    ci = a.chinfo
    piped, b, binfo = blocked_info(a)
    cov = ['dtype=' + case_dtype(case), 'piped=' + ''.join(str(int(x)) for x in piped), 'layout=' + case.get('layout', 'C'),
           'qdata_sorted=%s' % bool(a._qdata_sorted), 'legs_are_pipes=%s' % type(a.legs[0]).__name__]
    if es > 1 and o.get('cutoff') in (0.0, 1e-9):
        o['cutoff'] = None          # single precision: rounding noise of rank deficient blocks is above these cutoffs
    if o.get('cutoff') == 'tie':
        # boundary of "(strictly) greater than cutoff": the cutoff IS a singular value (exact for a real 1x1 block)
        ones = sorted(set(abs(float(blk[0, 0])) for blk in b._data if blk.shape == (1, 1) and not np.iscomplexobj(blk)) - {0.0})
        if ones:
            o['cutoff'] = ones[len(ones) // 2]
            cov.append('cutoff=tie-with-singular-value')
        else:
            o['cutoff'] = 2.5
    cov.append('cutoff=%s' % ('None' if o.get('cutoff') is None else '0.0' if o['cutoff'] == 0 else 'tiny' if o['cutoff'] < 1e-6 else 'large'))
    kw = {'full_matrices': o.get('full_matrices', False), 'inner_qconj': o.get('inner_qconj', 1),
          'inner_labels': o.get('inner_labels', [None, None])}
    if o.get('cutoff') is not None:
        kw['cutoff'] = o['cutoff']
    req = o.get('qtotal_LR', [None, None])
    qreq = [None, None]
    for k in (0, 1):
        if req[k] == 'a':
            qreq[k] = a.qtotal.copy()
        elif req[k] == 'zero':
            qreq[k] = ci.make_valid()
        elif req[k] == 'minus':       # a charge different from both (if possible)
            qreq[k] = ci.make_valid(a.qtotal + 1)
        elif req[k] == 'rest':
            qreq[k] = None
    if req[1] == 'both' and qreq[0] is not None:      # both requested (consistently)
        qreq[1] = ci.make_valid(a.qtotal - qreq[0])
    cov.append('qtotal_LR=%s' % ('L+R' if qreq[0] is not None and qreq[1] is not None else 'L' if qreq[0] is not None else
                                 'R' if qreq[1] is not None else 'default'))
    # charges as plain lists: only with a single entry (two lists are concatenated by `qtotal_L + qtotal_R` and raise an IndexError)
    as_list = bool(o.get('q_as_list')) and (qreq[0] is None or qreq[1] is None)
    kw['qtotal_LR'] = [q if (q is None or not as_list) else [int(x) for x in q] for q in qreq]
    cov += ['full_matrices=%s' % kw['full_matrices'], 'inner_qconj=%d' % kw['inner_qconj'], 'qtotal_a=%s' % ('0' if not np.any(a.qtotal) else '!=0')]
    out = {'blocked': binfo, 'piped': [int(x) for x in piped], 'qreq': [None if q is None else [int(x) for x in q] for q in qreq],
           'shape': list(ad.shape), 'stored_blocks': int(a.stored_blocks), 'cov': cov, 'cutoff_used': o.get('cutoff')}
    probs = []
    intd = ':integer-dtype' if case_dtype(case) == 'i8' else ''
    if len(b._data) < b.legs[0].block_number or len(b._data) < b.legs[1].block_number:
        cov.append('one-sided-or-missing-sector')
    # ranks the documentation promises per block: singular values (strictly) greater than cutoff
    nums = []
    ambiguous = False      # a singular value within rounding noise of the cutoff (other than the exact tie of a 1x1 block)
    for blk in b._data:
        s = np.linalg.svd(blk, compute_uv=False) if min(blk.shape) > 0 else np.zeros(0)
        nums.append(int(np.sum(s > o['cutoff'])) if o.get('cutoff') is not None else int(len(s)))
        if o.get('cutoff') is not None and blk.shape != (1, 1) and np.any(blk) and np.any(np.abs(s - o['cutoff']) <= 1e-12 * es * max(1., np.linalg.norm(blk))):
            ambiguous = True
    out['nums'] = nums
    out['ambiguous_cutoff'] = ambiguous
    if ambiguous:
        cov.append('cutoff-within-rounding-of-a-singular-value(count-not-compared)')
    try:
        U, S, VH = npc.svd(a, **kw)
    except RuntimeError as e:
        out['raised'] = 'RuntimeError'
        cov.append('raises-RuntimeError-no-singular-values')
        if sum(nums) > 0:
            probs.append(('svd:raises', 'svd raised RuntimeError although singular values > cutoff exist'))
        input_checks('svd:', a, snap, [], probs)
        out['problems'] = probs
        return out
    Ud, Vd = U.to_ndarray(), VH.to_ndarray()
    if sum(nums) < sum(min(blk.shape) for blk in b._data):
        cov.append('cutoff-drops-values')
    if any(n == 0 for n in nums):
        cov.append('cutoff-drops-whole-block')
    out['S_len'] = int(len(S))
    out['U'] = {'inner': [leg_blocks(U.legs[1]), int(U.legs[1].qconj)], 'qtotal': [int(x) for x in U.qtotal]}
    out['V'] = {'inner': [leg_blocks(VH.legs[0]), int(VH.legs[0].qconj)], 'qtotal': [int(x) for x in VH.qtotal]}
    full = kw['full_matrices']
    fkey = ('svd-full:' if full else 'svd:')
    M, N = ad.shape
    K = min(M, N)
    if np.any(S < 0) or np.any(np.isnan(S)):
        probs.append((fkey + 'S-negative', 'negative or NaN singular values'))
    # singular values against dense numpy
    sd = np.linalg.svd(ad, compute_uv=False)
    if o.get('cutoff') is not None:
        sd = sd[sd > o['cutoff']]
    Ss = np.sort(S)[::-1]
    if o.get('cutoff') is not None:
        sall = np.linalg.svd(ad, compute_uv=False)
        lo, hi = int(np.sum(sall > o['cutoff'] + 1e-9 * nrm * es)), int(np.sum(sall > o['cutoff'] - 1e-9 * nrm * es))
        if len(S) != sum(nums) and not ambiguous:
            probs.append((fkey + 'S-count', 'number of singular values %d, but %d block singular values are (strictly) greater than the cutoff %r' % (
                len(S), sum(nums), o['cutoff'])))
        elif not (lo <= len(S) <= hi):
            probs.append((fkey + 'S-count', 'number of singular values > cutoff: %d, dense numpy gives %d..%d' % (len(S), lo, hi)))
        elif np.max(np.abs(Ss[:lo] - sall[:lo]), initial=0.) > 1e-9 * nrm * es:
            probs.append((fkey + 'S-values', 'singular values differ from the dense ones'))
    else:
        # singular values of sectors without a stored block (exact zeros) may be left out
        m = min(len(Ss), len(sd))
        if len(Ss) > len(sd) or np.max(np.abs(Ss[:m] - sd[:m]), initial=0.) > 1e-9 * nrm * es or np.max(sd[m:], initial=0.) > 1e-9 * nrm * es:
            probs.append((fkey + 'S-values', 'singular values differ from the dense ones (%d vs %d)' % (len(Ss), len(sd))))
    if not full:
        rec = Ud @ np.diag(S) @ Vd
        err = np.linalg.norm(rec - ad)
        # with a cutoff: the discarded part is what the (separately validated) number of kept singular values leaves of the dense spectrum
        sdense = np.linalg.svd(ad, compute_uv=False)
        allowed = tol if o.get('cutoff') is None else 2 * tol + np.linalg.norm(sdense[min(len(S), len(sdense)):])
        if err > allowed:
            probs.append((fkey + 'reconstruct' + intd, '|U S VH - a| = %.3e > %.3e (dtype of a %s, of U %s)' % (err, allowed, a.dtype, U.dtype)))
        if np.linalg.norm(Ud.conj().T @ Ud - np.eye(len(S))) > 1e-10 * es * max(1, len(S)):
            probs.append((fkey + 'U-isometry' + intd, 'U^dagger U != 1'))
        if np.linalg.norm(Vd @ Vd.conj().T - np.eye(len(S))) > 1e-10 * es * max(1, len(S)):
            probs.append((fkey + 'V-isometry' + intd, 'VH VH^dagger != 1'))
        # the factors as operands of later npc operations (scale_axis, tensordot, subtraction, norm)
        if not intd and not charge_rule_violations(U) and not charge_rule_violations(VH):
            try:
                d = npc_dist(npc.tensordot(U.scale_axis(S, 1), VH, axes=1), a)
                if d > allowed + tol:
                    probs.append((fkey + 'reuse', '|tensordot(U.scale_axis(S), VH) - a| = %.3e with npc operations (dense product is fine: %s)' % (d, err <= allowed)))
            except Exception as e:
                probs.append((fkey + 'reuse', 'tensordot(U.scale_axis(S), VH) - a raised %s: %s' % (type(e).__name__, str(e)[:100])))
        if U.shape != (M, len(S)) or VH.shape != (len(S), N):  # noqa
            probs.append((fkey + 'shape', 'shapes %s %s' % (U.shape, VH.shape)))
        if not contractible(U.legs[1], VH.legs[0]):
            probs.append((fkey + 'contractible', 'U.legs[1] and VH.legs[0] are not contractible'))
    else:
        missing = (len(b._data) < b.legs[0].block_number) or (len(b._data) < b.legs[1].block_number)
        nonzero_q = bool(np.any(U.qtotal != 0) or np.any(VH.qtotal != 0))
        cond = ('missing-blocks' if missing else 'all-blocks') + ('+qtotal_LR!=0' if nonzero_q else '')
        out['full_cond'] = cond
        if Ud.shape != (M, M) or Vd.shape != (N, N):
            probs.append((fkey + 'shape:' + cond, 'full_matrices: shapes %s %s, expected (%d,%d) (%d,%d)' % (Ud.shape, Vd.shape, M, M, N, N)))
        else:
            if np.linalg.norm(Ud.conj().T @ Ud - np.eye(M)) > 1e-10 * es * M or np.linalg.norm(Ud @ Ud.conj().T - np.eye(M)) > 1e-10 * es * M:
                probs.append((fkey + 'U-unitary:' + cond + intd, 'full_matrices=True: U is not unitary'))
            if np.linalg.norm(Vd.conj().T @ Vd - np.eye(N)) > 1e-10 * es * N or np.linalg.norm(Vd @ Vd.conj().T - np.eye(N)) > 1e-10 * es * N:
                probs.append((fkey + 'V-unitary:' + cond + intd, 'full_matrices=True: VH is not unitary'))
            if not missing and not intd:
                # a = U[:, :K] diag(S) VH[:K, :] cannot be asked for the assembled matrices (S is ordered by block), but
                # blockwise: U^dagger a VH^dagger must be "diagonal" with the singular values
                core = np.abs(Ud.conj().T @ ad @ Vd.conj().T)
                thr = 1e-7 * nrm * es
                big, sb = np.sort(core[core > thr]), np.sort(S[S > thr])
                if len(big) != len(sb) or np.max(np.abs(big - sb), initial=0.) > 1e-8 * nrm * es:
                    probs.append((fkey + 'reconstruct:' + cond, 'full_matrices=True: U^dagger a VH^dagger is not diag(S) up to the block order'))
    for name, X, qwant in (('U', U, qreq[0]), ('VH', VH, qreq[1])):
        if charge_rule_violations(X):
            probs.append((fkey + name + '-charge-rule' + (':' + out['full_cond'] if full else ''),
                          '%s has blocks violating the charge rule for its qtotal' % name))
        s = sane(X)
        if s is not None and not charge_rule_violations(X):
            probs.append((fkey + name + '-sanity', '%s fails test_sanity: %s' % (name, s)))
        if qwant is not None and np.any(ci.make_valid(qwant) != X.qtotal):
            probs.append((fkey + name + '-qtotal', '%s.qtotal %s, requested %s' % (name, X.qtotal, qwant)))
    if np.any(ci.make_valid(U.qtotal + VH.qtotal) != a.qtotal):
        probs.append((fkey + 'qtotal-sum', 'U.qtotal + VH.qtotal != a.qtotal'))
    if not full and VH.legs[0].qconj != kw['inner_qconj']:
        probs.append((fkey + 'inner_qconj', 'VH.legs[0].qconj != inner_qconj'))
    # outer legs / labels
    if not (U.legs[0].qconj == a.legs[0].qconj and np.array_equal(U.legs[0].to_qflat(), a.legs[0].to_qflat())
            and VH.legs[1].qconj == a.legs[1].qconj and np.array_equal(VH.legs[1].to_qflat(), a.legs[1].to_qflat())):
        probs.append((fkey + 'outer-legs', 'outer legs of U/VH differ from the legs of a'))
    la = a.get_leg_labels()
    il = kw['inner_labels']
    if U.get_leg_labels() != [la[0], il[0]] or VH.get_leg_labels() != [il[1], la[1]]:
        probs.append((fkey + 'labels', 'labels %s %s' % (U.get_leg_labels(), VH.get_leg_labels())))
    # compute_uv=False (with and without the remaining options: they must not matter)
    if not full:
        kw2 = {k: v for k, v in kw.items() if (k in ('cutoff',) or (o.get('uv_all_opts') and k != 'full_matrices'))}
        S2 = npc.svd(a, compute_uv=False, **kw2)
        cov.append('compute_uv=False' + ('+opts' if o.get('uv_all_opts') else ''))
        if len(S2) != len(S) or np.max(np.abs(S2 - S), initial=0.) > 1e-9 * nrm * es:
            probs.append((fkey + 'compute_uv', 'compute_uv=False gives different singular values (or a different order)'))
    input_checks(fkey, a, snap, [('U', U), ('VH', VH)], probs)
    if np.may_share_memory(U._qdata, VH._qdata) or any(np.may_share_memory(x, y) for x in U._data for y in VH._data):
        probs.append((fkey + 'aliases-factors', 'U and VH share memory'))
    out['problems'] = probs
    return out


def run_qr(case):
    import tenpy.linalg.np_conserved as npc
    a = make_matrix(case)
    snap = snapshot(a)
    o = dict(case['opts'])
    ci = a.chinfo
    lq = bool(o.get('lq'))
    ad = a.to_ndarray().astype(np.complex128 if a.dtype.kind == 'c' else np.float64)
    nrm = max(np.linalg.norm(ad), 1.0)
    es = eps_scale(case)
    tol = 1e-10 * nrm * es
    intd = ':integer-dtype' if case_dtype(case) == 'i8' else ''
    if es > 1 and o.get('cutoff') is not None and o['cutoff'] < 1e-6:
        o['cutoff'] = 1e-4        # single precision: the cutoff has to stay above the rounding noise
    kw = {'mode': o.get('mode', 'reduced'), 'inner_qconj': o.get('inner_qconj', 1), 'inner_labels': o.get('inner_labels', [None, None])}
    if o.get('cutoff') is not None:
        kw['cutoff'] = o['cutoff']
    cut = o.get('cutoff')
    qt = o.get('qtotal_Q')
    qtq = None
    if qt == 'a':
        qtq = a.qtotal.copy()
    elif qt == 'one':
        qtq = ci.make_valid(np.ones(ci.qnumber, dtype=np.int64))
    elif qt == 'zero':
        qtq = ci.make_valid()
    if qtq is not None:
        kw['qtotal_Q'] = [int(x) for x in qtq] if o.get('q_as_list') else qtq
    pos = bool(o.get('pos_diag'))
    probs = []
    at = a.transpose() if lq else a
    piped, b, binfo = blocked_info(at)
    cov = ['dtype=' + case_dtype(case), 'piped=' + ''.join(str(int(x)) for x in piped), 'layout=' + case.get('layout', 'C'),
           'qdata_sorted=%s' % bool(a._qdata_sorted), 'mode=' + kw['mode'], 'pos_diag=%s' % pos, 'inner_qconj=%d' % kw['inner_qconj'],
           'qtotal_Q=%s' % ('None' if qtq is None else '0' if not np.any(qtq) else '!=0'), 'qtotal_a=%s' % ('0' if not np.any(a.qtotal) else '!=0'),
           'cutoff=%s' % ('None' if cut is None else 'tiny' if cut < 1e-3 else 'large'), 'lq=%s' % lq]
    if len(b._data) < b.legs[0].block_number:
        cov.append('row-sector-without-block')
        rows = set(int(x) for x in b._qdata[:, 0])
        if 0 not in rows:
            cov.append('first-row-sector-without-block')
        if b.legs[0].block_number - 1 not in rows:
            cov.append('last-row-sector-without-block')
    out = {'blocked': binfo, 'piped': [int(x) for x in piped], 'qtq': None if qtq is None else [int(x) for x in qtq],
           'stored_blocks': int(a.stored_blocks), 'cov': cov}
    # per block: number of columns of q the documentation promises (K = min(M, N), or the rank with cutoff)
    ks = []
    singular_diag = False
    rank_sum, bound2, klow = 0, 0.0, 0
    for blk in b._data:
        if cut is None:
            ks.append(int(min(blk.shape)) if kw['mode'] != 'complete' else int(blk.shape[0]))
        else:
            ks.append(None)
        rr = np.linalg.qr(blk, 'r') if min(blk.shape) > 0 else np.zeros((0, 0))
        if np.any(np.abs(np.diag(rr)) < 1e-12 * es * max(1., np.linalg.norm(blk))):
            singular_diag = True
        sv = np.linalg.svd(blk.astype(np.complex128 if np.iscomplexobj(blk) else np.float64), compute_uv=False)
        rank_sum += int(np.sum(sv > 1e-9 * es * max(1., np.linalg.norm(blk))))
        if cut is not None:
            # pivoted QR: every entry of a discarded row of R is bounded by its diagonal entry <= cutoff
            K, N = min(blk.shape), blk.shape[1]
            bound2 += (cut ** 2) * K * N
            klow += int(np.sum(sv > cut * np.sqrt(K * N) * (1 + 1e-6) + tol))
    out['ks'] = ks
    out['singular_diag'] = singular_diag
    if singular_diag:
        cov.append('rank-deficient-block')
    if lq:
        # tie of Model/Factor2.v lq_charges: the blocked structure of `a` ITSELF (the model transposes); rows kept per
        # stored block of a (= columns of q for the transposed block)
        _, ba, binfo_a = blocked_info(a)
        out['blocked_a'] = binfo_a
        out['ks_a'] = [None if cut is not None else
                       (int(min(blk.shape)) if kw['mode'] != 'complete' else int(blk.shape[1])) for blk in ba._data]
    survive = any(np.max(np.linalg.norm(blk, axis=0), initial=0.) > cut for blk in b._data) if cut is not None else True
    if cut is not None and (np.linalg.norm(ad) == 0 or not survive):
        out['skip'] = True      # rank 0 with a cutoff: no inner leg at all (svd raises RuntimeError there); not required
        out['problems'] = []
        cov.append('cutoff-leaves-nothing(skipped)')
        return out
    try:
        if lq:
            L, Q = npc.lq(a, pos_diag_L=pos, **kw)
            Qm, Rm = Q.transpose(), L.transpose()
        else:
            Q, R = npc.qr(a, pos_diag_R=pos, **kw)
            Qm, Rm = Q, R
    except Exception as e:
        out['problems'] = [('qr:raises', 'qr/lq raised %s: %s' % (type(e).__name__, str(e)[:100]))]
        return out
    key = 'lq:' if lq else 'qr:'
    Qd, Rd = Qm.to_ndarray(), Rm.to_ndarray()
    atd = at.to_ndarray().astype(ad.dtype)
    M, N = atd.shape
    Kin = Qd.shape[1]
    out['Q'] = {'inner': [leg_blocks(Qm.legs[1]), int(Qm.legs[1].qconj)], 'qtotal': [int(x) for x in Qm.qtotal]}
    out['R'] = {'inner': [leg_blocks(Rm.legs[0]), int(Rm.legs[0].qconj)], 'qtotal': [int(x) for x in Rm.qtotal]}
    nan = bool(np.any(np.isnan(Qd)) or np.any(np.isnan(Rd)))
    if nan:
        probs.append((key + 'nan' + (':pos_diag+singular-R-diagonal' if (pos and singular_diag) else ''), 'NaN in Q or R'))
    else:
        allowed = tol if cut is None else tol * 1e3 + np.sqrt(bound2)
        err = np.linalg.norm(Qd @ Rd - atd)
        if err > allowed:
            probs.append((key + 'reconstruct' + intd, '|Q R - a| = %.3e > %.3e (dtype of a %s, of the blocks of Q %s)' % (
                err, allowed, a.dtype, Qm._data[0].dtype if Qm._data else None)))
        if np.linalg.norm(Qd.conj().T @ Qd - np.eye(Kin)) > 1e-10 * es * max(1, Kin):
            probs.append((key + 'isometry' + intd, 'Q^dagger Q != 1'))
        if kw['mode'] == 'complete' and (Qd.shape != (M, M) or np.linalg.norm(Qd @ Qd.conj().T - np.eye(M)) > 1e-10 * es * M):
            probs.append((key + 'complete-unitary' + intd, "mode='complete': Q is not a square unitary"))
        if cut is None and kw['mode'] == 'reduced' and Kin != sum(ks):
            probs.append((key + 'inner-dim', 'reduced: inner dimension %d, the blocks promise sum min(M_b, N_b) = %d' % (Kin, sum(ks))))
        if cut is not None:
            cov.append('cutoff-reduces-K' if Kin < sum(min(blk.shape) for blk in b._data) else 'cutoff-keeps-all')
            # "discard linearly dependent vectors to given precision": for a cutoff in the gap of the singular values the inner
            # dimension is the rank; in general at least the number of singular values far above the cutoff and at most the full K
            if Kin < klow or Kin > sum(min(blk.shape) for blk in b._data) or (cut < 1e-3 and Kin != rank_sum):
                probs.append((key + 'cutoff-rank', 'cutoff=%r: inner dimension %d, rank of the blocks %d (at least %d values above the cutoff)' % (
                    cut, Kin, rank_sum, klow)))
        # triangular: within the blocked form (sorted legs) R is upper triangular per block
        _, Rblk = Rm.as_completely_blocked() if 1 in piped else (None, Rm)
        for blk in Rblk._data:
            if np.linalg.norm(np.tril(blk, -1)) > tol:
                probs.append((key + 'triangular', 'a block of R is not upper triangular'))
                break
        if pos:
            for blk in Rblk._data:
                d = np.diag(blk)
                if np.any(np.abs(d.imag) > tol) or np.any(d.real < -tol):
                    probs.append((key + 'pos_diag', 'pos_diag: diagonal of R not >= 0'))
                    break
        if not intd and not charge_rule_violations(Qm) and not charge_rule_violations(Rm):
            # the factors as returned (lq: L, Q) as operands of npc operations
            try:
                d = npc_dist(npc.tensordot(L, Q, axes=1) if lq else npc.tensordot(Q, R, axes=1), a)
                if d > allowed + tol:
                    probs.append((key + 'reuse', '|tensordot of the factors - a| = %.3e with npc operations' % d))
            except Exception as e:
                probs.append((key + 'reuse', 'tensordot of the factors - a raised %s: %s' % (type(e).__name__, str(e)[:100])))
    for name, X in (('Q', Qm), ('R', Rm)):
        if charge_rule_violations(X):
            probs.append((key + name + '-charge-rule', '%s has blocks violating the charge rule' % name))
        else:
            s = sane(X)
            if s is not None:
                probs.append((key + name + '-sanity' + intd, '%s fails test_sanity: %s' % (name, s)))
    want_q = ci.make_valid(qtq) if qtq is not None else ci.make_valid()
    if np.any(Qm.qtotal != want_q) or np.any(ci.make_valid(Qm.qtotal + Rm.qtotal) != a.qtotal):
        probs.append((key + 'qtotal', 'qtotal of Q %s (requested %s), R %s, a %s' % (Qm.qtotal, want_q, Rm.qtotal, a.qtotal)))
    if not contractible(Qm.legs[1], Rm.legs[0]):
        probs.append((key + 'contractible', 'inner legs of Q and R not contractible'))
    if Rm.legs[0].qconj != kw['inner_qconj']:
        probs.append((key + 'inner_qconj', 'R.legs[0].qconj != inner_qconj'))
    if not (np.array_equal(Qm.legs[0].to_qflat(), at.legs[0].to_qflat()) and Qm.legs[0].qconj == at.legs[0].qconj
            and np.array_equal(Rm.legs[1].to_qflat(), at.legs[1].to_qflat()) and Rm.legs[1].qconj == at.legs[1].qconj):
        probs.append((key + 'outer-legs', 'outer legs differ from the legs of a'))
    il = kw['inner_labels']
    la = a.get_leg_labels()
    if lq:
        if L.get_leg_labels() != [la[0], il[0]] or Q.get_leg_labels() != [il[1], la[1]]:
            probs.append((key + 'labels', 'labels %s %s' % (L.get_leg_labels(), Q.get_leg_labels())))
    elif Q.get_leg_labels() != [la[0], il[0]] or R.get_leg_labels() != [il[1], la[1]]:
        probs.append((key + 'labels', 'labels %s %s' % (Q.get_leg_labels(), R.get_leg_labels())))
    res = [('L', L), ('Q', Q)] if lq else [('Q', Q), ('R', R)]
    input_checks(key, a, snap, res, probs)
    x, y = res[0][1], res[1][1]
    if np.may_share_memory(x._qdata, y._qdata) or any(np.may_share_memory(u, v) for u in x._data for v in y._data):
        probs.append((key + 'aliases-factors', 'the two factors share memory'))
    out['problems'] = probs
    return out


def spec_dist(w1, w2):
    """largest distance in a greedy nearest-neighbour matching of two spectra (inf when the sizes differ)"""
    w1 = list(np.asarray(w1, dtype=complex))
    w2 = list(np.asarray(w2, dtype=complex))
    if len(w1) != len(w2):
        return float('inf')
    worst = 0.
    for x in w1:
        k = int(np.argmin([abs(x - y) for y in w2]))
        worst = max(worst, abs(x - w2[k]))
        w2.pop(k)
    return float(worst)


SORT_KEY = {'m>': lambda w: -np.abs(w), 'm<': lambda w: np.abs(w), '>': lambda w: -np.real(w), '<': lambda w: np.real(w),
            'LM': lambda w: -np.abs(w), 'SM': lambda w: np.abs(w), 'LR': lambda w: -np.real(w), 'SR': lambda w: np.real(w),
            'LA': lambda w: -np.real(w), 'SA': lambda w: np.real(w), 'LI': lambda w: -np.imag(w), 'SI': lambda w: np.imag(w)}


def run_eig(case):
    import tenpy.linalg.np_conserved as npc
    a = make_matrix(case)
    snap = snapshot(a)
    herm = bool(case.get('hermitian'))
    ad = hermitian_reference(case, a) if herm else a.to_ndarray()
    ad = ad.astype(np.complex128 if a.dtype.kind == 'c' else np.float64)
    n = ad.shape[0]
    nrm = max(np.linalg.norm(ad), 1.0)
    es = eps_scale(case)
    tol = 1e-9 * nrm * es
    o = case['opts']
    sort = o.get('sort')
    probs = []
    piped, b = a.as_completely_blocked()
    garbage = bool(case.get('uplo_garbage') and not piped)
    cov = ['dtype=' + case_dtype(case), 'piped=' + ''.join(str(int(x)) for x in piped), 'layout=' + case.get('layout', 'C'),
           'qdata_sorted=%s' % bool(a._qdata_sorted), 'legs_are_pipes=%s' % type(b.legs[0]).__name__, 'sort=%s' % sort,
           'hermitian=%s' % herm]
    if herm:
        cov.append('UPLO=%s%s' % (o.get('UPLO', 'L'), '+other-triangle-garbage' if garbage else ''))
    if len(b._data) < b.legs[0].block_number:
        cov.append('sector-without-block')
    out = {'stored_blocks': int(a.stored_blocks), 'n': int(n), 'cov': cov}
    if herm:
        W, V = npc.eigh(a, UPLO=o.get('UPLO', 'L'), sort=sort)
        W2 = npc.eigvalsh(a, UPLO=o.get('UPLO', 'L'), sort=sort)
        key = 'eigh:'
    else:
        W, V = npc.eig(a, sort=sort)
        W2 = npc.eigvals(a, sort=sort)
        key = 'eig:'
    Vd = V.to_ndarray()
    if not (np.all(np.isfinite(W)) and np.all(np.isfinite(W2))):
        probs.append((key + 'non-finite', 'NaN in the eigenvalues'))
    if np.linalg.norm(ad @ Vd - Vd @ np.diag(W)) > tol:
        probs.append((key + 'eigenpairs', '|a V - V diag(W)| = %.3e' % np.linalg.norm(ad @ Vd - Vd @ np.diag(W))))
    if herm and np.linalg.norm(Vd.conj().T @ Vd - np.eye(n)) > 1e-10 * es * n:
        probs.append((key + 'unitary', 'V not unitary'))
    if not herm and np.max(np.abs(np.linalg.norm(Vd, axis=0) - 1), initial=0.) > 1e-8 * es:
        probs.append((key + 'normalized', 'eigenvectors (columns of V) are not normalized'))
    wd = np.linalg.eigvalsh(ad) if herm else np.linalg.eigvals(ad)
    # eigenvalues of defective (non-hermitian, rank-deficient) blocks are only accurate to ~eps^(1/k)
    stol = (1e-7 if herm else 1e-4) * nrm * es
    if spec_dist(W, wd) > stol:
        probs.append((key + 'spectrum', 'eigenvalues differ from dense numpy (matching distance %.2e)' % spec_dist(W, wd)))
    if spec_dist(W2, W) > stol:
        probs.append((key + 'eigvals', 'eigvals(h) differs from eig(h)'))
    expect_dtype = np.float64 if herm else np.complex128
    if W.dtype != expect_dtype or W2.dtype != expect_dtype or W.shape != (n,) or W2.shape != (n,):
        probs.append((key + 'W-dtype', 'eigenvalues dtype/shape %s %s %s %s' % (W.dtype, W2.dtype, W.shape, W2.shape)))
    if charge_rule_violations(V) or sane(V) is not None:
        probs.append((key + 'V-structure', 'V violates charge rule / test_sanity: %s' % sane(V)))
    if np.any(V.qtotal != 0):
        probs.append((key + 'V-qtotal', 'V.qtotal != 0'))
    if V.get_leg_labels() != [a.get_leg_labels()[0], 'eig']:
        probs.append((key + 'labels', 'labels %s' % V.get_leg_labels()))
    if not (np.array_equal(V.legs[0].to_qflat(), a.legs[0].to_qflat()) and V.legs[0].qconj == a.legs[0].qconj):
        probs.append((key + 'outer-leg', 'V.legs[0] differs from a.legs[0]'))
    # eigenvalues live on the blocked form: W[slice of sector q] are the eigenvalues of sector q, sorted by `sort` (eigvals(h): same)
    sl = b.legs[0].slices
    flat_b = b.to_ndarray() if not herm else None
    for q in range(b.legs[0].block_number):
        w, w2 = W[sl[q]:sl[q + 1]], W2[sl[q]:sl[q + 1]]
        if spec_dist(w, w2) > stol:
            probs.append((key + 'eigvals-sector', 'eigvals(h) and eig(h) put different eigenvalues into the slice of charge sector %d' % q))
            break
        k = SORT_KEY[sort if sort is not None else '<']
        if sort is not None or herm:
            if np.any(np.diff(k(w)) < -1e-9 * nrm * es) or np.any(np.diff(k(w2)) < -1e-9 * nrm * es):
                probs.append((key + 'sort', 'eigenvalues of eig(h)/eigvals(h) not sorted by %r inside a charge block' % sort))
                break
            if np.max(np.abs(k(w) - k(w2)), initial=0.) > stol:
                probs.append((key + 'eigvals-order', 'eigvals(h) and eig(h) order the eigenvalues of a sector differently'))
                break
    # the result as operand of npc operations: a V = V diag(W)
    if not garbage and sane(V) is None:
        try:
            lhs = npc.tensordot(a, V, axes=1)
            d = npc_dist(lhs, V.scale_axis(W, 1))
            if d > tol:
                probs.append((key + 'reuse', '|tensordot(a, V) - V.scale_axis(W)| = %.3e with npc operations' % d))
        except Exception as e:
            probs.append((key + 'reuse', 'tensordot(a, V) - V.scale_axis(W) raised %s: %s' % (type(e).__name__, str(e)[:100])))
    input_checks(key, a, snap, [('V', V)], probs)
    # expm
    if not garbage:
        E = npc.expm(a)
        import scipy.linalg
        Ed = scipy.linalg.expm(ad)
        overflow = not np.all(np.isfinite(Ed)) or (es > 1 and np.linalg.norm(Ed) > 1e30)
        if not overflow and not (np.linalg.norm(E.to_ndarray() - Ed) <= (1e-9 if es == 1 else 2e-2) * max(1., np.linalg.norm(Ed))):
            probs.append(('expm:dense', 'expm differs from dense scipy expm'))
        if charge_rule_violations(E) or sane(E) is not None or np.any(E.qtotal != 0) or E.get_leg_labels() != a.get_leg_labels():
            probs.append(('expm:structure', 'expm result structure: %s' % sane(E)))
        if E.dtype != np.result_type(np.float64, a.dtype):
            probs.append(('expm:dtype', 'expm dtype %s for input dtype %s' % (E.dtype, a.dtype)))
        for k in (0, 1):
            if E.legs[k].qconj != a.legs[k].qconj or not np.array_equal(E.legs[k].to_qflat(), a.legs[k].to_qflat()):
                probs.append(('expm:legs', 'expm legs differ from the legs of a ("same legs/labels as a")'))
                break
        if herm and sane(E) is None and sane(V) is None:
            try:
                d = npc_dist(npc.tensordot(E, V, axes=1), V.scale_axis(np.exp(W), 1))
                if not overflow and not (d <= (1e-8 if es == 1 else 2e-2) * max(1., np.linalg.norm(Ed))):
                    probs.append(('expm:reuse', '|tensordot(expm(a), V) - V exp(W)| = %.3e with npc operations' % d))
            except Exception as e:
                probs.append(('expm:reuse', 'tensordot(expm(a), V) raised %s: %s' % (type(e).__name__, str(e)[:100])))
        input_checks('expm:', a, snap, [('expm(a)', E)], probs, allow_nonfinite=overflow)
        cov.append('expm')
    # speigs on a charge sector
    if not garbage:
        run_speigs(case, a, b, ad, nrm * es, es, probs, cov, out)
        c = changed(a, snap)
        if c is not None:
            probs.append(('speigs:input-changed', 'speigs modified its input: ' + c))
    out['problems'] = probs
    return out


def run_speigs(case, a, b, ad, nrm, es, probs, cov, out):
    import tenpy.linalg.np_conserved as npc
    o = case['opts']
    n = ad.shape[0]
    bs = b.legs[0].get_block_sizes()
    nb = len(bs)
    sel = o.get('sector', 'largest')
    q = int(np.argmax(bs)) if sel == 'largest' else int(sel) % nb
    d = int(bs[q])
    sector = b.legs[0].get_charge(q)
    same = [i for i in range(nb) if np.array_equal(a.chinfo.make_valid(b.legs[0].get_charge(i)), a.chinfo.make_valid(sector))]
    kk = int(o.get('k', 1))
    if o.get('k_rel') is not None:          # relative to the sector size: d-2 (last ARPACK value), d-1, d (dense), d+1 (trimmed)
        kk = max(1, d + int(o['k_rel']))
    which = o.get('which', 'LM')
    ret = o.get('ret', 'vectors')
    has_block = any(int(r[0]) == q for r in b._qdata)
    arpack = has_block and kk < d - 1
    v0 = np.ones(d)
    sec_arg = [int(x) for x in sector] if o.get('sector_as_list') else sector
    cov.append('speigs:%s,%s,k%sd-1,which=%s,ret=%s' % ('block' if has_block else 'no-block', 'arpack' if arpack else 'dense', '<' if kk < d - 1 else '>=', which, ret))
    if kk > d:
        cov.append('speigs:k>d')
    try:
        if ret == 'vectors':
            Ws, Vs = npc.speigs(a, sec_arg, kk, which=which, v0=v0)
        elif ret == 'kw_false':
            Ws, Vs = npc.speigs(a, sec_arg, kk, which=which, v0=v0, return_eigenvectors=False), None
        elif ret == 'args':       # positional arguments of scipy.sparse.linalg.eigs: M, sigma, which, v0, ncv, maxiter, tol, return_eigenvectors
            Ws, Vs = npc.speigs(a, sec_arg, kk, None, None, which, v0, None, None, 0, True)
        else:                     # 'args_false'
            Ws, Vs = npc.speigs(a, sec_arg, kk, None, None, which, v0, None, None, 0, False), None
    except Exception as e:
        if 'Arpack' not in type(e).__name__:
            probs.append(('speigs:raises' + (':missing-sector-block' if (not has_block and isinstance(e, TypeError)) else ''),
                          'speigs raised %s: %s' % (type(e).__name__, str(e)[:100])))
        return
    Ws = np.asarray(Ws)
    idx = [i for i in range(n) if np.array_equal(a.chinfo.make_valid(a.legs[0].to_qflat()[i] * a.legs[0].qconj), a.chinfo.make_valid(sector))]
    if len(same) > 1:
        return      # cannot happen for a completely blocked leg
    sub = ad[np.ix_(idx, idx)]
    wsub = np.linalg.eigvals(sub)
    kexp = min(kk, d)
    suffix = ':return_eigenvectors=False:dense-branch' if (Vs is None and not arpack and has_block) else ''
    if len(Ws) != kexp:
        probs.append(('speigs:count' + suffix, 'speigs(k=%d) in a sector of size %d returned %d eigenvalues (return %s)' % (kk, d, len(Ws), ret)))
    elif not np.all(np.isfinite(Ws)):
        probs.append(('speigs:non-finite', 'NaN in the eigenvalues'))
    else:
        # the k eigenvalues selected by `which` (up to ties of the selection key; ARPACK: to its tolerance; ARPACK treats
        # 'LI'/'SI' of a real matrix as |imag| and keeps conjugate pairs together: scipy's convention, not compared)
        key = SORT_KEY[which] if not (arpack and which in ('LI', 'SI') and a.dtype.kind != 'c') else (lambda w: 0 * np.real(w))
        want = np.sort(key(wsub))[:kexp]
        got = np.sort(key(Ws))
        if np.max(np.abs(want - got), initial=0.) > 1e-6 * nrm:
            probs.append(('speigs:selection' + suffix, 'speigs(which=%r, k=%d): selection keys of the returned eigenvalues %s, of the sector %s' % (
                which, kk, np.round(got, 6).tolist(), np.round(want, 6).tolist())))
        if spec_dist(Ws, [wsub[int(np.argmin(np.abs(wsub - w)))] for w in Ws]) > 1e-6 * nrm:
            probs.append(('speigs:eigenvalue', 'speigs returned a number which is no eigenvalue of the sector'))
    if Vs is not None:
        if len(Vs) != len(Ws):
            probs.append(('speigs:count-vectors', '%d eigenvalues, %d vectors' % (len(Ws), len(Vs))))
        for w, v in zip(Ws, Vs):
            vd = v.to_ndarray()
            dt = ':real-Array-dtype-with-complex-data' if (v.dtype.kind == 'f' and (np.iscomplexobj(v._data[0]) or abs(np.imag(w)) > 0)) else ''
            if not (np.linalg.norm(ad @ vd - w * vd) <= 1e-6 * nrm) or not (abs(np.linalg.norm(vd) - 1) <= 1e-8 * es):
                probs.append(('speigs:eigenpair' + dt, 'speigs: |a v - w v| = %.3e for the returned Array v (dtype %s, data %s)' % (
                    np.linalg.norm(ad @ vd - w * vd), v.dtype, v._data[0].dtype)))
            if np.any(v.qtotal != a.chinfo.make_valid(sector)) or charge_rule_violations(v) or sane(v) is not None:
                probs.append(('speigs:structure' + dt, 'speigs vector structure: qtotal %s sector %s, rule violations %d, sanity %s' % (
                    v.qtotal, sector, charge_rule_violations(v), sane(v))))
            elif not dt:
                try:      # "tensordot(A, V[i], axes=1) = W[i] * V[i]" with npc operations
                    dd = npc_dist(npc.tensordot(a, v, axes=1), v * w)
                    if dd > 1e-6 * nrm:
                        probs.append(('speigs:reuse', '|tensordot(a, v) - w v| = %.3e with npc operations' % dd))
                except Exception as e:
                    probs.append(('speigs:reuse', 'tensordot(a, v) - w v raised %s: %s' % (type(e).__name__, str(e)[:100])))
            if not (np.array_equal(v.legs[0].to_qflat(), a.legs[0].to_qflat()) and v.legs[0].qconj == a.legs[0].qconj):
                probs.append(('speigs:leg', 'leg of the eigenvector differs from a.legs[0]'))
            if aliases(v, a):
                probs.append(('speigs:aliases-input', 'eigenvector shares memory with a'))
    out['speigs'] = int(len(Ws))


def run_pinv(case):
    import tenpy.linalg.np_conserved as npc
    a = make_matrix(case)
    snap = snapshot(a)
    ad = a.to_ndarray().astype(np.complex128 if a.dtype.kind == 'c' else np.float64)
    nrm = max(np.linalg.norm(ad), 1.0)
    es = eps_scale(case)
    tol = 1e-8 * nrm * es
    o = case.get('opts') or {}
    intd = ':integer-dtype' if case_dtype(case) == 'i8' else ''
    probs = []
    piped, b = a.as_completely_blocked()
    cov = ['dtype=' + case_dtype(case), 'piped=' + ''.join(str(int(x)) for x in piped), 'layout=' + case.get('layout', 'C'),
           'qdata_sorted=%s' % bool(a._qdata_sorted), 'qtotal_a=%s' % ('0' if not np.any(a.qtotal) else '!=0')]
    out = {'stored_blocks': int(a.stored_blocks), 'cov': cov}
    if np.linalg.norm(ad) == 0:
        out['problems'] = []
        out['skip'] = True
        return out
    sall = np.linalg.svd(ad, compute_uv=False)

    def gap(c):
        """is the cutoff c far from every singular value (then the kept rank is unambiguous)?"""
        return c is None or bool(np.all(np.abs(sall - c) > 1e-6 * nrm * es))
    # ---- pinv
    pc = o.get('pinv_cutoff', 1e-9)
    if es > 1 and (pc is None or pc < 1e-3):
        pc = 1e-3
    if not gap(1e-15 if pc is None else pc):
        pc = 1e-9 if es == 1 else 1e-3
    cov.append('pinv:cutoff=%s' % ('default' if pc is None else 'tiny' if pc < 1e-6 else 'large'))
    if pc is not None and np.all(sall <= pc):
        cov.append('pinv:cutoff-above-all(skipped)')
    else:
        P = npc.pinv(a) if pc is None else npc.pinv(a, cutoff=pc)
        Pd = P.to_ndarray()
        thr = 1e-15 if pc is None else pc
        # dense reference with the documented convention: singular values <= cutoff (absolute) are dropped
        u_, s_, v_ = np.linalg.svd(ad, full_matrices=False)
        keep = s_ > (thr if pc is not None else 1e-12 * nrm)
        pd = (v_[keep].conj().T / s_[keep]) @ u_[:, keep].conj().T
        if not np.all(keep):
            cov.append('pinv:drops-singular-values')
        sc = max(1., np.linalg.norm(pd))
        if Pd.shape != pd.shape or np.linalg.norm(Pd - pd) > 1e-7 * es * sc * nrm:
            probs.append(('pinv:dense' + intd, 'pinv differs from the dense pseudo-inverse (cutoff %r): %.3e' % (pc, np.linalg.norm(Pd - pd) if Pd.shape == pd.shape else -1)))
        else:
            ar = (u_[:, keep] * s_[keep]) @ v_[keep]       # a restricted to the kept singular values
            for nm, x in (('a p a = a', ar @ Pd @ ar - ar), ('p a p = p', Pd @ ar @ Pd - Pd), ('(a p)^+ = a p', (ar @ Pd).conj().T - ar @ Pd),
                          ('(p a)^+ = p a', (Pd @ ar).conj().T - Pd @ ar)):
                if np.linalg.norm(x) > 1e-7 * es * sc * nrm * nrm:
                    probs.append(('pinv:moore-penrose', 'Moore-Penrose identity %s violated (%.2e)' % (nm, np.linalg.norm(x))))
        if charge_rule_violations(P) or sane(P) is not None:
            probs.append(('pinv:structure' + intd, 'pinv structure: %s' % sane(P)))
        elif not intd:
            try:      # a p a = a with npc operations
                apa = npc.tensordot(npc.tensordot(a, P, axes=1), a, axes=1)
                d = npc_dist(apa, a)
                if d > 1e-7 * es * sc * nrm * nrm + float(np.linalg.norm(s_[~keep])):
                    probs.append(('pinv:reuse', '|tensordot(tensordot(a, p), a) - a| = %.3e with npc operations' % d))
            except Exception as e:
                probs.append(('pinv:reuse', 'tensordot(tensordot(a, pinv(a)), a) - a raised %s: %s' % (type(e).__name__, str(e)[:100])))
        if not (contractible(P.legs[0], a.legs[1]) and contractible(P.legs[1], a.legs[0])):
            probs.append(('pinv:legs', 'legs of pinv(a) are not contractible with the legs of a'))
        la = a.conj().get_leg_labels()       # documented: "return P.conj.transpose()"
        if P.get_leg_labels() != [la[1], la[0]]:
            probs.append(('pinv:labels', 'labels of pinv(a) %s for a with labels %s' % (P.get_leg_labels(), la)))
        input_checks('pinv:', a, snap, [('pinv(a)', P)], probs)
    # ---- polar
    qc = o.get('polar_cutoff')
    if es > 1 and (qc is None or qc < 1e-3):
        qc = 1e-3
    if qc is not None and qc > 1e-6 and not gap(qc):
        qc = None if es == 1 else 1e-3
    il = o.get('inner_labels')
    for left in (False, True):
        kw = {'left': left}
        if qc is not None:
            kw['cutoff'] = qc
        if il is not None:
            kw['inner_labels'] = il
        if qc is not None and np.all(sall <= qc):
            cov.append('polar:cutoff-above-all(skipped)')
            break
        cov.append('polar:left=%s,cutoff=%s%s' % (left, 'default' if qc is None else '0.0' if qc == 0 else 'tiny' if qc < 1e-6 else 'large',
                                                 ',inner_labels' if il is not None else ''))
        u, p, s = npc.polar(a, **kw)
        ud, pd_ = u.to_ndarray(), p.to_ndarray()
        rec = pd_ @ ud if left else ud @ pd_
        dropped = float(np.linalg.norm(sall[len(s):]))
        if np.linalg.norm(rec - ad) > 1e-9 * es * nrm + dropped:
            squared = left and np.linalg.norm(pd_ - ad @ ad.conj().T) < 1e-9 * nrm * nrm
            probs.append(('polar:reconstruct' + (':left:p=a.a^dagger' if squared else '') + intd,
                          'polar(left=%s): |p u - a| = %.2e%s' % (left, np.linalg.norm(rec - ad), ' (p equals a a^dagger = W s^2 W^dagger)' if squared else '')))
        if np.linalg.norm(pd_ - pd_.conj().T) > 1e-9 * es * nrm or np.min(np.linalg.eigvalsh((pd_ + pd_.conj().T) / 2), initial=0.) < -1e-9 * es * nrm:
            probs.append(('polar:psd' + intd, 'polar(left=%s): p is not hermitian positive semidefinite' % left))
        k = len(s)
        want = sall[sall > (qc if qc is not None else 1e-16)]
        if qc is not None and qc > 1e-6 and (len(s) != len(want) or np.max(np.abs(np.sort(s)[::-1] - want), initial=0.) > 1e-8 * es * nrm):
            probs.append(('polar:cutoff', 'polar(cutoff=%r) returns %d singular values, %d are greater than the cutoff' % (qc, len(s), len(want))))
        # u is a partial isometry of rank k
        sv = np.linalg.svd(ud, compute_uv=False)
        if np.linalg.norm(sv[:k] - 1) > 1e-9 * es or np.linalg.norm(sv[k:]) > 1e-9 * es:
            probs.append(('polar:isometry' + intd, 'polar(left=%s): u is not a partial isometry' % left))
        if charge_rule_violations(u) or charge_rule_violations(p) or sane(u) is not None or sane(p) is not None:
            probs.append(('polar:structure' + intd, 'polar structure: %s %s' % (sane(u), sane(p))))
        else:
            # legs: u has the legs of a; p is a square matrix over the right (left=False) / left leg of a, contractible with u
            la = a.get_leg_labels()
            ok = all(u.legs[i].qconj == a.legs[i].qconj and np.array_equal(u.legs[i].to_qflat(), a.legs[i].to_qflat()) for i in (0, 1))
            ok = ok and (contractible(p.legs[1], u.legs[0]) if left else contractible(u.legs[1], p.legs[0]))
            if not ok:
                probs.append(('polar:legs', 'polar(left=%s): legs of u differ from the legs of a or p is not contractible with u' % left))
            if u.get_leg_labels() != la:
                probs.append(('polar:labels', 'polar(left=%s): labels of u %s, of a %s' % (left, u.get_leg_labels(), la)))
            if not intd:
                try:
                    d = npc_dist(npc.tensordot(p, u, axes=1) if left else npc.tensordot(u, p, axes=1), a)
                    if d > 1e-9 * es * nrm + dropped:
                        probs.append(('polar:reuse', 'polar(left=%s): |tensordot of the factors - a| = %.3e with npc operations' % (left, d)))
                except Exception as e:
                    probs.append(('polar:reuse', 'polar(left=%s): tensordot of the factors - a raised %s: %s' % (left, type(e).__name__, str(e)[:100])))
        input_checks('polar:', a, snap, [('u', u), ('p', p)], probs)
    out['problems'] = probs
    return out


def run_ortho(case):
    """orthogonal_columns: case legs = [L, R] with R's sectors a sub-structure of L (full column rank)"""
    import tenpy.linalg.np_conserved as npc
    a = make_matrix(case)
    snap = snapshot(a)
    ad = a.to_ndarray()
    M, N = ad.shape
    probs = []
    intd = ':integer-dtype' if case_dtype(case) == 'i8' else ''
    piped, b = a.as_completely_blocked()
    rows = set(int(x) for x in b._qdata[:, 0])
    nb = b.legs[0].block_number
    cov = ['dtype=' + case_dtype(case), 'piped=' + ''.join(str(int(x)) for x in piped), 'layout=' + case.get('layout', 'C'),
           'qdata_sorted=%s' % bool(a._qdata_sorted), 'qtotal_a=%s' % ('0' if not np.any(a.qtotal) else '!=0'),
           'right_qconj=%s' % ('-left' if a.legs[1].qconj == -a.legs[0].qconj else 'left'),
           'new_label=%s' % (case['opts'].get('new_label') is not None)]
    if 0 not in rows:
        cov.append('first-row-sector-without-block')
    if nb - 1 not in rows:
        cov.append('last-row-sector-without-block')
    if any(q not in rows for q in range(1, nb - 1)):
        cov.append('middle-row-sector-without-block')
    if any(blk.shape[0] == blk.shape[1] for blk in b._data):
        cov.append('square-block(no-orthogonal-column)')
    out = {'stored_blocks': int(a.stored_blocks), 'shape': [M, N], 'cov': cov}
    if M < N:
        cov.append('M<N:raises')
        try:
            npc.orthogonal_columns(a)
            probs.append(('ortho:wide', 'orthogonal_columns of a %dx%d matrix (overcomplete) did not raise ValueError' % (M, N)))
        except ValueError:
            pass
        out['problems'] = probs
        return out
    if M == N:
        cov.append('M==N:empty-result')
    elif np.linalg.matrix_rank(ad) < N:
        out['skip'] = True
        out['problems'] = []
        return out
    O = npc.orthogonal_columns(a, new_label=case['opts'].get('new_label'))
    Od = O.to_ndarray()
    if Od.shape != (M, M - N):
        probs.append(('ortho:shape', 'shape %s, expected (%d, %d)' % (Od.shape, M, M - N)))
    else:
        if np.linalg.norm(Od.conj().T @ Od - np.eye(M - N)) > 1e-10 * M:
            probs.append(('ortho:isometry' + intd, 'ortho^dagger ortho != 1'))
        if np.linalg.norm(Od.conj().T @ ad) > 1e-9 * max(1., np.linalg.norm(ad)):
            probs.append(('ortho:orthogonal' + intd, 'ortho^dagger a != 0'))
    if charge_rule_violations(O) or sane(O) is not None:
        probs.append(('ortho:structure' + intd, 'structure: %s' % sane(O)))
    elif M > N:
        try:      # ortho^dagger a = 0 and ortho^dagger ortho = 1 with npc operations
            d = float(npc.norm(npc.tensordot(O.conj(), a, axes=[0, 0])))
            e = float(npc.norm(npc.tensordot(O.conj(), O, axes=[0, 0]) - npc.diag(1.0, O.legs[1].conj(), dtype=O.dtype)))
            if d > 1e-9 * max(1., np.linalg.norm(ad)) or e > 1e-10 * M:
                probs.append(('ortho:reuse' + intd, '|tensordot(ortho.conj(), a)| = %.3e, |ortho^dagger ortho - 1| = %.3e with npc operations' % (d, e)))
        except Exception as e:
            probs.append(('ortho:reuse' + intd, 'tensordot(ortho.conj(), a) raised %s: %s' % (type(e).__name__, str(e)[:100])))
    if np.any(O.qtotal != a.qtotal):
        probs.append(('ortho:qtotal', 'qtotal'))
    lab = case['opts'].get('new_label')
    if O.get_leg_labels() != [a.get_leg_labels()[0], lab if lab is not None else a.get_leg_labels()[1]]:
        probs.append(('ortho:labels', 'labels %s' % O.get_leg_labels()))
    if not (np.array_equal(O.legs[0].to_qflat(), a.legs[0].to_qflat()) and O.legs[0].qconj == a.legs[0].qconj):
        probs.append(('ortho:outer-leg', 'left leg differs'))
    if O.legs[1].qconj != a.legs[1].qconj:
        probs.append(('ortho:right-qconj', 'qconj of the new right leg differs from the right leg of a'))
    input_checks('ortho:', a, snap, [('ortho', O)], probs)
    out['problems'] = probs
    return out


# ------------------------------------------------------------------------------------------------
# 'plan' stream: the code AROUND the per-block LAPACK calls, with the LAPACK entry points replaced (in this process
# only) by a stub returning recorded integer-valued matrices -- tie of Model/Factor2.v (eig_plan) and
# Model/FactorDense.v (pos_diag, svd assembly), which are parametric in exactly these per-block results
# ------------------------------------------------------------------------------------------------

def imat(x):
    x = np.asarray(x)
    if np.iscomplexobj(x):
        if np.any(x.imag != 0):
            raise ValueError('complex entries in a plan case')
        x = x.real
    if np.any(x != np.round(x)):
        raise ValueError('non-integer entries in a plan case')
    return [[int(v) for v in row] for row in x.tolist()] if x.ndim == 2 else [int(v) for v in x.tolist()]


class Patched:
    """temporarily replace attributes (LAPACK entry points) by stubs"""

    def __init__(self, *triples):
        self.triples = triples

    def __enter__(self):
        self.old = [getattr(o, n) for o, n, _ in self.triples]
        for o, n, f in self.triples:
            setattr(o, n, f)

    def __exit__(self, *exc):
        for (o, n, _), f in zip(self.triples, self.old):
            setattr(o, n, f)


def plan_matrix(case):
    c = dict(case)
    c['complex'] = False
    c['dtype'] = 'f8'
    a = make_matrix(c)
    _, b, binfo = blocked_info(a)
    return a, b, binfo


def run_plan(case):
    import tenpy.linalg.np_conserved as npc
    what = case['plan']
    rng = np.random.default_rng(case['seed'] + 17)
    a, b, binfo = plan_matrix(case)
    out = {'blocked': binfo, 'stored_blocks': int(b.stored_blocks), 'problems': []}
    calls = []
    if what == 'eig':
        def stub(block, *args, **kw):
            n = block.shape[0]
            rw = rng.permutation(np.arange(-3 * n - 2, 3 * n + 3))[:n].astype(np.float64)
            rv = rng.integers(-9, 10, size=(n, n)).astype(np.float64)
            calls.append({'block': np.array(block), 'rw': rw.copy(), 'rv': rv.copy()})
            return rw, rv
        herm = bool(case.get('hermitian'))
        with Patched((np.linalg, 'eigh', stub), (np.linalg, 'eig', stub)):
            W, V = npc.eigh(b, sort=None) if herm else npc.eig(b, sort=None)
        out['order_ok'] = len(calls) == len(b._data) and all(np.array_equal(c['block'], blk) for c, blk in zip(calls, b._data))
        out['eigs'] = [[imat(c['rw']), imat(c['rv'])] for c in calls]
        out['resv'] = [[int(q[0]), int(q[1]), imat(blk)] for q, blk in zip(V._qdata, V._data)]
        out['resw'] = imat(W)
        out['legs_ok'] = bool(V.legs[0].qconj == b.legs[0].qconj and np.array_equal(V.legs[0].to_qflat(), b.legs[0].to_qflat())
                              and V.legs[1].qconj == -b.legs[0].qconj and np.array_equal(V.legs[1].to_qflat(), b.legs[0].to_qflat())
                              and np.all(V.qtotal == 0))
        return out
    if what == 'posdiag':
        mode = case['opts']['mode']
        zero_rate = case['opts'].get('zero_rate', 0.0)

        def stub(block, md='reduced'):
            M, N = block.shape
            P = M if md == 'complete' else min(M, N)
            q = rng.integers(-5, 6, size=(M, P)).astype(np.float64)
            r = np.triu(rng.integers(-5, 6, size=(P, N))).astype(np.float64)
            for k in range(min(P, N)):
                r[k, k] = 0 if rng.random() < zero_rate else rng.choice([-4, -3, -2, -1, 1, 2, 3])
            calls.append({'block': np.array(block), 'q': q.copy(), 'r': r.copy()})
            return q, r
        with Patched((np.linalg, 'qr', stub)):
            Q, R = npc.qr(b, mode=mode, pos_diag_R=True, inner_qconj=case['opts'].get('inner_qconj', 1))
        out['order_ok'] = len(calls) == len(b._data) and all(np.array_equal(c['block'], blk) for c, blk in zip(calls, b._data)) \
            and len(Q._data) >= len(calls) and len(R._data) == len(calls)
        blocks = []
        for k, c in enumerate(calls):
            qk, rk = np.asarray(Q._data[k]), np.asarray(R._data[k])
            nan = bool(np.any(np.isnan(qk)) or np.any(np.isnan(rk)))
            blocks.append({'M': int(c['q'].shape[0]), 'P': int(c['r'].shape[0]), 'N': int(c['r'].shape[1]), 'Q': imat(c['q']), 'R': imat(c['r']),
                           'out': None if nan else [imat(qk), imat(rk)], 'shapes_ok': qk.shape == c['q'].shape and rk.shape == c['r'].shape})
        out['blocks'] = blocks
        if mode == 'complete':
            # tie of Model/FactorDense3.v qr_complete_Q: Q._qdata and the identity fill-in behind the stored blocks
            out['qfill'] = {'rs': [int(x) for x in b.legs[0].get_block_sizes()], 'rows': [int(q[0]) for q in b._qdata],
                            'qd': [[int(q[0]), int(q[1])] for q in Q._qdata], 'extra': [imat(x) for x in Q._data[len(calls):]]}
        return out
    if what == 'svdasm':
        full = bool(case['opts']['full_matrices'])

        def stub(block, full_matrices=False, compute_uv=True, overwrite_a=False, check_finite=True, lapack_driver='gesdd'):
            M, N = block.shape
            K = min(M, N)
            if full_matrices:
                n, mu, mv = K, M, N
            else:
                n = K if rng.random() < 0.55 else int(rng.integers(0, K + 1))
                mu = mv = n
            U = rng.integers(-5, 6, size=(M, mu)).astype(np.float64)
            S = rng.integers(1, 9, size=(n,)).astype(np.float64)
            V = rng.integers(-5, 6, size=(mv, N)).astype(np.float64)
            calls.append({'block': np.array(block), 'n': n, 'U': U.copy(), 'S': S.copy(), 'V': V.copy()})
            return (U, S, V) if compute_uv else S
        try:
            with Patched((npc, 'svd_flat', stub)):
                U, S, VH = npc.svd(b, full_matrices=full, inner_qconj=case['opts'].get('inner_qconj', 1))
        except RuntimeError:
            out['raised'] = 'RuntimeError'
            out['all_zero'] = all(c['n'] == 0 for c in calls)
            return out
        out['order_ok'] = len(calls) == len(b._data) and all(np.array_equal(c['block'], blk) for c, blk in zip(calls, b._data))
        out['rs'] = [int(x) for x in b.legs[0].get_block_sizes()]
        out['cs'] = [int(x) for x in b.legs[1].get_block_sizes()]
        out['fs'] = [[int(q[0]), int(q[1]), int(c['n']), imat(c['U']), imat(c['S']), imat(c['V'])] for q, c in zip(b._qdata, calls)]
        out['U'] = [[int(q[0]), int(q[1]), imat(blk)] for q, blk in zip(U._qdata, U._data)]
        out['V'] = [[int(q[0]), int(q[1]), imat(blk)] for q, blk in zip(VH._qdata, VH._data)]
        out['S'] = imat(S)
        out['ns'] = [] if full else [int(x) for x in VH.legs[0].get_block_sizes()]
        out['inner_contractible'] = contractible(U.legs[1], VH.legs[0]) if not full else None
        return out
    raise ValueError(what)


# ------------------------------------------------------------------------------------------------
# 'aux' stream: the dense helpers behind the npc routines (svd_robust.svd, tools.math.qr_li / rq_li / speigs / speigsh /
# matvec_to_array), npc.norm, rejected requests, and the rarely taken retry branches (NaN from gesdd, LinAlgError in gesdd)
# ------------------------------------------------------------------------------------------------

def dense_matrix(case):
    """integer valued M x N matrix of rank r (dtype / memory layout of the case)"""
    rng = np.random.default_rng(case['seed'])
    M, N, r = case['M'], case['N'], min(case['r'], case['M'], case['N'])
    cplx = case.get('dtype', 'f8') in ('c16', 'c8')

    def ints(shape):
        x = rng.integers(-4, 5, size=shape).astype(np.float64)
        return x + 1j * rng.integers(-4, 5, size=shape) if cplx else x
    if r == min(M, N):
        A = ints((M, N))
    else:
        A = ints((M, r)) @ ints((r, N)) if r > 0 else np.zeros((M, N)) * ints((1, 1))[0, 0]
    A = A.astype(DTYPES[case.get('dtype', 'f8')])
    lay = case.get('layout', 'C')
    if lay == 'F':
        A = np.asfortranarray(A)
    elif lay == 'view':
        big = np.zeros((2 * M + 1, 2 * N + 1), dtype=A.dtype, order='F')
        v = big[1::2, 1::2]
        v[...] = A
        A = v
    return A


class MatvecOp:
    """linear operator with only shape, dtype and matvec (tools.math.matvec_to_array)"""

    def __init__(self, A):
        self.A = A
        self.shape = A.shape
        self.dtype = A.dtype

    def matvec(self, v):
        return self.A @ v


def expect_raise(f, exc):
    try:
        f()
    except exc:
        return None
    except Exception as e:
        return 'raised %s instead of %s: %s' % (type(e).__name__, exc.__name__, str(e)[:80])
    return 'did not raise %s' % exc.__name__


def run_aux(case):
    import tenpy.linalg.np_conserved as npc
    import tenpy.linalg.svd_robust as svd_robust
    import tenpy.tools.math as tm
    import scipy.linalg
    what = case['what']
    probs, cov = [], []
    out = {'stored_blocks': 2, 'cov': cov, 'problems': probs}
    o = case.get('opts', {})
    if what == 'svd_robust':
        A = dense_matrix(case)
        A0 = A.copy()
        M, N = A.shape
        drv = o.get('lapack_driver', 'gesdd')
        kw = {'full_matrices': o.get('full_matrices', True), 'compute_uv': o.get('compute_uv', True), 'overwrite_a': o.get('overwrite_a', False),
              'check_finite': o.get('check_finite', True), 'lapack_driver': drv, 'warn': o.get('warn', True)}
        if o.get('defaults'):
            kw = {}
            drv = 'gesdd'
        fail = bool(o.get('fail_gesdd'))
        cov += ['svd_robust:%s=%s' % (k, v) for k, v in sorted(kw.items())] + ['svd_robust:gesdd-fails=%s' % fail, 'svd_robust:layout=' + case.get('layout', 'C'),
                                                                               'svd_robust:dtype=' + case.get('dtype', 'f8')]
        calls = []
        true_svd = scipy.linalg.svd

        def stub(a, full_matrices=True, compute_uv=True, overwrite_a=False, check_finite=True, lapack_driver='gesdd'):
            calls.append((lapack_driver, bool(overwrite_a)))
            if lapack_driver == 'gesdd' and fail:
                raise np.linalg.LinAlgError('SVD did not converge')
            return true_svd(a, full_matrices, compute_uv, overwrite_a, check_finite, lapack_driver)
        if drv == 'bad':
            e = expect_raise(lambda: svd_robust.svd(A, **kw), ValueError)
            if e:
                probs.append(('svd_robust:invalid-driver', "svd_robust.svd(lapack_driver='bad') " + e))
            return out
        with warnings.catch_warnings(record=True) as wlist:
            warnings.simplefilter('always')
            with Patched((scipy.linalg, 'svd', stub)):
                res = svd_robust.svd(A, **kw)
        warned = any('gesdd' in str(w.message) for w in wlist)
        full = kw.get('full_matrices', True)
        if fail and drv == 'gesdd' and warned != kw.get('warn', True):
            probs.append(('svd_robust:warn', 'gesdd failed, warn=%s, warning emitted: %s' % (kw.get('warn', True), warned)))
        if (fail and drv == 'gesdd') and [c[0] for c in calls] != ['gesdd', 'gesvd']:
            probs.append(('svd_robust:fallback', 'gesdd failed: LAPACK drivers called %s, expected gesdd then gesvd' % [c[0] for c in calls]))
        if drv == 'gesvd' and [c[0] for c in calls] != ['gesvd']:
            probs.append(('svd_robust:driver', "lapack_driver='gesvd': drivers called %s" % [c[0] for c in calls]))
        if any(c == ('gesdd', True) for c in calls):
            probs.append(('svd_robust:overwrite', 'overwrite_a=True passed on to gesdd (documented: ignored for gesdd)'))
        if (not kw.get('overwrite_a', False) or (drv == 'gesdd' and not fail)) and not np.array_equal(A, A0):
            probs.append(('svd_robust:input-changed', 'the input matrix was overwritten (overwrite_a=%s, driver %s)' % (kw.get('overwrite_a', False), drv)))
        sref = np.linalg.svd(A0.astype(np.complex128 if np.iscomplexobj(A0) else np.float64), compute_uv=False)
        es = 3e5 if case.get('dtype') in ('f4', 'c8') else 1.0
        nrm = max(1., np.linalg.norm(A0))
        if not kw.get('compute_uv', True):
            S = res
            if not isinstance(S, np.ndarray) or S.shape != sref.shape or np.max(np.abs(S - sref), initial=0.) > 1e-10 * es * nrm:
                probs.append(('svd_robust:S', 'compute_uv=False: singular values differ from numpy'))
        else:
            U, S, Vh = res
            K = min(M, N)
            shapes = ((M, M), (K,), (N, N)) if full else ((M, K), (K,), (K, N))
            if (U.shape, S.shape, Vh.shape) != shapes:
                probs.append(('svd_robust:shape', 'shapes %s, expected %s' % ((U.shape, S.shape, Vh.shape), shapes)))
            else:
                if np.max(np.abs(S - sref), initial=0.) > 1e-10 * es * nrm or np.any(S < 0) or np.any(np.diff(S) > 0):
                    probs.append(('svd_robust:S', 'singular values differ from numpy / not sorted / negative'))
                if np.linalg.norm((U[:, :K] * S) @ Vh[:K, :] - A0) > 1e-10 * es * nrm:
                    probs.append(('svd_robust:reconstruct', '|U S Vh - a| = %.2e' % np.linalg.norm((U[:, :K] * S) @ Vh[:K, :] - A0)))
                if np.linalg.norm(U.conj().T @ U - np.eye(U.shape[1])) > 1e-10 * es * M or np.linalg.norm(Vh @ Vh.conj().T - np.eye(Vh.shape[0])) > 1e-10 * es * N:
                    probs.append(('svd_robust:isometry', 'U or Vh not isometric'))
        return out
    if what in ('qr_li', 'rq_li'):
        A = dense_matrix(case)
        A0 = A.copy()
        M, N = A.shape
        cut = o.get('cutoff')
        kw = {} if cut is None else {'cutoff': cut}
        c = 1e-15 if cut is None else cut
        sv = np.linalg.svd(A0, compute_uv=False) if min(M, N) else np.zeros(0)
        nrm = max(1., np.linalg.norm(A0))
        rank = int(np.sum(sv > 1e-10 * nrm))
        cov += ['%s:cutoff=%s' % (what, 'default' if cut is None else 'tiny' if cut < 1e-3 else 'large'),
                '%s:shape=%s' % (what, 'M<N' if M < N else 'M>N' if M > N else 'M==N'), '%s:layout=%s' % (what, case.get('layout', 'C')),
                '%s:%s' % (what, 'zero-matrix' if rank == 0 else 'rank-deficient' if rank < min(M, N) else 'full-rank'),
                '%s:dtype=%s' % (what, case.get('dtype', 'f8'))]
        if what == 'qr_li':
            Q, R = tm.qr_li(A, **kw)
            rec = Q @ R
            iso = Q.conj().T @ Q
            K = Q.shape[1]
            tri = np.linalg.norm(np.tril(R, -1))
            shapes_ok = Q.shape == (M, K) and R.shape == (K, N)
        else:
            R, Q = tm.rq_li(A, **kw)
            rec = R @ Q
            iso = Q @ Q.conj().T
            K = Q.shape[0]
            # documented shape of R: (M, K), nonzero only in the upper right: R[i, j] = 0 for i > j + (M - K)
            ii, jj = np.indices(R.shape) if R.ndim == 2 else (np.zeros((0, 0)), np.zeros((0, 0)))
            tri = np.linalg.norm(R[ii > jj + (M - K)]) if R.size else 0.
            shapes_ok = Q.shape == (K, N) and R.shape == (M, K)
        if not np.array_equal(A, A0):
            probs.append((what + ':input-changed', 'the input matrix was overwritten'))
        bound = c * np.sqrt(min(M, N) * max(M, N))
        klow = int(np.sum(sv > bound * (1 + 1e-6) + 1e-10 * nrm))
        if not shapes_ok:
            probs.append((what + ':shape', 'shapes Q %s R %s for A %s' % (Q.shape, R.shape, A.shape)))
        else:
            if np.linalg.norm(rec - A0) > 1e-10 * nrm + bound:
                probs.append((what + ':reconstruct', '|Q R - A| = %.2e (cutoff %r)' % (np.linalg.norm(rec - A0), c)))
            if np.linalg.norm(iso - np.eye(K)) > 1e-10 * max(1, K):
                probs.append((what + ':isometry', 'Q is not an isometry'))
            if tri > 1e-10 * nrm:
                probs.append((what + ':triangular', 'R is not upper right'))
            if K < klow or K > min(M, N) or (1e-12 < c < 1e-3 and K != rank):
                probs.append((what + ':cutoff-rank', 'cutoff %r: K = %d, rank %d, at least %d singular values far above the cutoff' % (c, K, rank, klow)))
        return out
    if what in ('speigs', 'speigsh'):
        herm = what == 'speigsh'
        rng = np.random.default_rng(case['seed'])
        d = case['d']
        cplx = case.get('dtype') == 'c16'
        A = rng.integers(-4, 5, size=(d, d)).astype(np.float64)
        if cplx:
            A = A + 1j * rng.integers(-4, 5, size=(d, d))
        if herm:
            A = A + A.conj().T
        A0 = A.copy()
        k = max(1, d + o.get('k_rel', 0)) if o.get('k_rel') is not None else o.get('k', 1)
        which = o.get('which', 'LM')
        ret = o.get('ret', 'vectors')
        op = MatvecOp(A) if o.get('operator') else A
        arpack = k < d - 1
        if arpack and o.get('operator'):
            import scipy.sparse.linalg
            op = scipy.sparse.linalg.LinearOperator(A.shape, matvec=lambda v: A @ v, dtype=A.dtype)
        f = tm.speigsh if herm else tm.speigs
        v0 = np.ones(d)
        cov += ['%s:%s' % (what, 'arpack' if arpack else 'dense'), '%s:ret=%s' % (what, ret), '%s:which=%s' % (what, which),
                '%s:A=%s' % (what, 'operator' if o.get('operator') else 'ndarray')]
        if k > d:
            cov.append(what + ':k>d')
        with warnings.catch_warnings(record=True) as wlist:
            warnings.simplefilter('always')
            try:
                if ret == 'vectors':
                    W, V = f(op, k, which=which, v0=v0)
                elif ret == 'kw_false':
                    W, V = f(op, k, which=which, v0=v0, return_eigenvectors=False), None
                elif ret == 'args':
                    W, V = f(op, k, None, None, which, v0, None, None, 0, True)
                else:
                    W, V = f(op, k, None, None, which, v0, None, None, 0, False), None
            except Exception as e:
                if 'Arpack' not in type(e).__name__:
                    probs.append((what + ':raises', '%s raised %s: %s' % (what, type(e).__name__, str(e)[:100])))
                return out
        if k > d and not any('trimming' in str(w.message) for w in wlist):
            probs.append((what + ':warn', 'k > d: no warning about the trimmed k'))
        W = np.asarray(W)
        wall = np.linalg.eigvalsh(A0) if herm else np.linalg.eigvals(A0)
        kexp = min(k, d)
        nrm = max(1., np.linalg.norm(A0))
        suffix = ':return_eigenvectors=False:dense-branch' if (V is None and not arpack) else ''
        if len(W) != kexp:
            probs.append((what + ':count' + suffix, '%s(k=%d) for d=%d returned %d eigenvalues (return mode %s)' % (what, k, d, len(W), ret)))
        else:
            key = SORT_KEY[which]
            want, got = np.sort(key(wall))[:kexp], np.sort(key(W))
            if np.max(np.abs(want - got), initial=0.) > 1e-6 * nrm:
                probs.append((what + ':selection' + suffix, '%s(which=%r, k=%d): keys of the returned eigenvalues %s, wanted %s' % (
                    what, which, k, np.round(got, 6).tolist(), np.round(want, 6).tolist())))
        if V is not None:
            if V.shape != (d, len(W)):
                probs.append((what + ':shape', 'eigenvector array shape %s' % (V.shape,)))
            elif np.linalg.norm(A0 @ V - V * W) > 1e-6 * nrm or np.max(np.abs(np.linalg.norm(V, axis=0) - 1), initial=0.) > 1e-8:
                probs.append((what + ':eigenpair', '|A V - V W| = %.2e' % np.linalg.norm(A0 @ V - V * W)))
        if not np.array_equal(A, A0):
            probs.append((what + ':input-changed', 'input overwritten'))
        return out
    if what == 'norm':
        a = make_matrix(case)
        snap = snapshot(a)
        ad = a.to_ndarray()
        kind = o.get('arg', 'Array')
        ord_ = {'None': None, 'inf': np.inf, '-inf': -np.inf}.get(o.get('ord'), o.get('ord'))
        ctf = o.get('convert_to_float', True)
        cov += ['norm:arg=%s' % kind, 'norm:ord=%s' % o.get('ord'), 'norm:convert_to_float=%s' % ctf, 'norm:dtype=%s' % case_dtype(case)]
        flat = ad.reshape(-1).astype(np.result_type(np.float32, ad.dtype))
        if kind == 'Array':
            got, want = npc.norm(a, ord_, ctf), np.linalg.norm(flat, ord_)
        elif kind == 'ndarray':
            got, want = npc.norm(ad, ord_, ctf), np.linalg.norm(flat, ord_)
        else:
            got, want = npc.norm([a, 2 * a, ad]), np.sqrt(6.) * np.linalg.norm(flat)
        if kind == 'Array' and o.get('ord') == '-inf' and got == 0:
            cov.append('norm:Array,-inf:always-0(not-compared)')       # Array.norm appends a 0 to the block norms: min(|x|) is always 0
        elif not np.isfinite(got) or abs(got - want) > 1e-9 * eps_scale(case) * max(1., abs(want)):
            probs.append(('norm:value', 'npc.norm(%s, ord=%r) = %r, numpy on the flat dense data gives %r' % (kind, ord_, got, want)))
        if changed(a, snap):
            probs.append(('norm:input-changed', 'norm changed its argument'))
        return out
    if what == 'reject':
        a = make_matrix(case)          # a valid square matrix with vanishing total charge, several sectors
        ci = a.chinfo
        item = o['item']
        cov.append('reject:' + item)
        l0 = a.legs[0]
        rank3 = npc.Array.from_func(np.ones, [l0, l0.conj(), l0])
        wide = npc.Array.from_func(np.ones, [l0, npc.LegCharge.from_qflat(ci, np.concatenate([l0.to_qflat(), l0.to_qflat()]), -l0.qconj)])
        charged = a.copy(deep=True)
        bad_q = None
        if ci.qnumber:       # a square matrix with non-zero total charge
            for qt in l0.charges:
                for qt2 in l0.charges:
                    dq = ci.make_valid(l0.qconj * (qt - qt2))
                    if np.any(dq != 0):
                        bad_q = dq
            if bad_q is not None:
                charged = npc.Array.from_func(np.ones, [l0, l0.conj()], qtotal=bad_q)
                if charged.stored_blocks == 0:
                    bad_q = None
        noncontr = npc.Array.from_func(np.ones, [l0, l0]) if ci.qnumber and np.any(l0.charges != 0) else None
        table = {
            'svd:rank3': (lambda: npc.svd(rank3), ValueError),
            'svd:full_matrices+cutoff': (lambda: npc.svd(a, full_matrices=True, cutoff=1e-9), ValueError),
            'svd:full_matrices+compute_uv=False': (lambda: npc.svd(a, full_matrices=True, compute_uv=False), ValueError),
            'svd:qtotal_LR-inconsistent': (lambda: npc.svd(a, qtotal_LR=[ci.make_valid(a.qtotal + 1), ci.make_valid(a.qtotal + 1)]), ValueError)
            if (ci.qnumber and np.any(ci.make_valid(a.qtotal + 2) != a.qtotal)) else None,
            'polar:rank3': (lambda: npc.polar(rank3), ValueError),
            'polar:cutoff<0': (lambda: npc.polar(a, cutoff=-1e-3), ValueError),
            'pinv:cutoff=0': (lambda: npc.pinv(a, cutoff=0.0), ValueError),
            'pinv:cutoff<0': (lambda: npc.pinv(a, cutoff=-1.0), ValueError),
            'qr:rank3': (lambda: npc.qr(rank3), ValueError),
            'lq:rank3': (lambda: npc.lq(rank3), ValueError),
            'orthogonal_columns:rank3': (lambda: npc.orthogonal_columns(rank3), ValueError),
            'orthogonal_columns:M<N': (lambda: npc.orthogonal_columns(wide), ValueError),
            'expm:non-square': (lambda: npc.expm(wide), ValueError),
            'expm:qtotal!=0': (lambda: npc.expm(charged), NotImplementedError) if bad_q is not None else None,
            'expm:not-contractible': (lambda: npc.expm(noncontr), ValueError) if noncontr is not None else None,
            'speigs:non-square': (lambda: npc.speigs(wide, l0.get_charge(0), 1), ValueError),
            'speigs:qtotal!=0': (lambda: npc.speigs(charged, l0.get_charge(0), 1), ValueError) if bad_q is not None else None,
            'speigs:sector-not-in-leg': (lambda: npc.speigs(a, o.get('absent_sector'), 1), ValueError) if o.get('absent_sector') is not None else None,
        }
        table['norm:unknown-type'] = (lambda: npc.norm('not an array'), ValueError)
        table['tools.speigs:non-square'] = (lambda: tm.speigs(np.ones((2, 3)), 1), ValueError)
        table['tools.speigsh:non-square'] = (lambda: tm.speigsh(np.ones((2, 3)), 1), ValueError)
        for nm, f in (('eigh', npc.eigh), ('eig', npc.eig), ('eigvalsh', npc.eigvalsh), ('eigvals', npc.eigvals)):
            table[nm + ':non-square'] = (lambda f=f: f(wide), ValueError)
            table[nm + ':rank3'] = (lambda f=f: f(rank3), ValueError)
            table[nm + ':qtotal!=0'] = (lambda f=f: f(charged), ValueError) if bad_q is not None else None
            table[nm + ':not-contractible'] = (lambda f=f: f(noncontr), ValueError) if noncontr is not None else None
        ent = table.get(item)
        if item not in table:
            raise ValueError('unknown reject item ' + item)
        if ent is None:
            out['skip'] = True
            cov[-1] += '(not-applicable)'
            return out
        e = expect_raise(ent[0], ent[1])
        if e:
            probs.append(('reject:' + item, 'invalid request %s: %s' % (item, e)))
        return out
    if what == 'svd_nan':
        # gesdd returns NaN for some blocks: _svd_worker has to retry with gesvd (and warn); NaN twice -> ValueError
        a = make_matrix(case)
        snap = snapshot(a)
        ad = a.to_ndarray()
        nrm = max(1., np.linalg.norm(ad))
        true = npc.svd_flat
        calls = []
        mode = o.get('mode', 'retry')       # 'retry' | 'both' | 'S'
        hit = o.get('block', 0)
        nb = max(1, a.as_completely_blocked()[1].stored_blocks)
        cuv = mode != 'S'

        def stub(block, full_matrices=True, compute_uv=True, overwrite_a=False, check_finite=True, lapack_driver='gesdd', warn=True):
            idx = sum(1 for c in calls if c[1] == 'gesdd')
            calls.append((idx, lapack_driver))
            res = true(block, full_matrices, compute_uv, overwrite_a, check_finite, lapack_driver)
            poison = (idx % nb) == (hit % nb) if lapack_driver == 'gesdd' else (mode == 'both')
            if not poison:
                return res
            if compute_uv:
                U, S, V = res
                U = U.copy()
                U[0, 0] = np.nan
                return U, S, V
            S = res.copy()
            S[0] = np.nan
            return S
        cov.append('svd_nan:' + mode + (',full_matrices' if o.get('full_matrices') else ''))
        with warnings.catch_warnings(record=True) as wlist:
            warnings.simplefilter('always')
            with Patched((npc, 'svd_flat', stub)):
                try:
                    res = npc.svd(a, full_matrices=bool(o.get('full_matrices')), compute_uv=cuv)
                    raised = None
                except ValueError as e:
                    raised = e
        if mode in ('both', 'S'):
            if raised is None:
                probs.append(('svd_nan:no-error', 'LAPACK returned NaN (%s): svd returned a result instead of raising ValueError' % mode))
            return out
        if raised is not None:
            probs.append(('svd_nan:raises', 'gesdd returned NaN once: svd raised %s instead of retrying with gesvd' % raised))
            return out
        U, S, VH = res
        if not any('gesvd' in str(w.message) for w in wlist) or 'gesvd' not in [c[1] for c in calls]:
            probs.append(('svd_nan:no-retry', 'gesdd returned NaN: no retry with gesvd / no warning'))
        if not o.get('full_matrices'):
            rec = U.to_ndarray() @ np.diag(S) @ VH.to_ndarray()
            if np.any(np.isnan(rec)) or np.linalg.norm(rec - ad) > 1e-10 * nrm:
                probs.append(('svd_nan:reconstruct', 'after the gesvd retry |U S VH - a| = %r' % np.linalg.norm(rec - ad)))
        elif np.any(np.isnan(U.to_ndarray())) or np.any(np.isnan(VH.to_ndarray())):
            probs.append(('svd_nan:reconstruct', 'NaN in the factors after the gesvd retry'))
        c = changed(a, snap)
        if c:
            probs.append(('svd_nan:input-changed', 'input changed: ' + c))
        return out
    raise ValueError(what)


# ------------------------------------------------------------------------------------------------
# line coverage of the anchored functions inside this runner process (sys.monitoring, python >= 3.12)
# ------------------------------------------------------------------------------------------------

ANCHORED = {
    'tenpy.linalg.np_conserved': ['svd', 'polar', 'pinv', 'norm', 'eigh', 'eig', 'eigvalsh', 'eigvals', 'speigs', 'expm', 'qr', 'lq',
                                  'orthogonal_columns', '_svd_worker', '_eig_worker', '_eigvals_worker', 'Array.as_completely_blocked', 'Array.norm'],
    'tenpy.linalg.svd_robust': ['svd'],
    'tenpy.tools.math': ['qr_li', 'rq_li', 'speigs', 'speigsh', 'matvec_to_array'],
}


def _walk_code(code):
    yield code
    for c in code.co_consts:
        if hasattr(c, 'co_code'):
            yield from _walk_code(c)


class LineCov:
    def __init__(self):
        self.codes = {}
        self.hits = set()
        self.exe = {}
        self.on = False

    def start(self):
        import importlib
        mon = getattr(sys, 'monitoring', None)
        if mon is None:
            return
        try:
            mon.use_tool_id(mon.COVERAGE_ID, 'c05cov')
        except ValueError:
            return
        for modname, names in ANCHORED.items():
            mod = importlib.import_module(modname)
            for nm in names:
                obj = mod
                try:
                    for part in nm.split('.'):
                        obj = getattr(obj, part)
                    code = obj.__code__
                except AttributeError:
                    self.exe[modname + ':' + nm] = None
                    continue
                key = modname + ':' + nm
                lines = set()
                for c in _walk_code(code):
                    self.codes[c] = key
                    lines |= {l for (_, _, l) in c.co_lines() if l is not None}
                    mon.set_local_events(mon.COVERAGE_ID, c, mon.events.LINE)
                # the def line itself is executed at import time only
                lines.discard(code.co_firstlineno)
                self.exe[key] = sorted(lines)

        def cb(code, line):
            k = self.codes.get(code)
            if k is not None:
                self.hits.add((k, line))
            return mon.DISABLE
        mon.register_callback(mon.COVERAGE_ID, mon.events.LINE, cb)
        self.on = True

    def report(self):
        if not self.on:
            return None
        hit = {}
        for k, l in self.hits:
            hit.setdefault(k, []).append(l)
        return {'executable': self.exe, 'hit': {k: sorted(v) for k, v in hit.items()}}


def reflect():
    """public names and signatures of the anchored modules (read from the code under test by reflection)"""
    import importlib
    import inspect
    res = {}
    for modname in ANCHORED:
        mod = importlib.import_module(modname)
        fns = {}
        for nm, f in vars(mod).items():
            if inspect.isfunction(f) and f.__module__ == modname:
                sig = inspect.signature(f)
                fns[nm] = [[p.name, str(p.kind), None if p.default is inspect.Parameter.empty else repr(p.default)] for p in sig.parameters.values()]
        res[modname] = {'all': list(getattr(mod, '__all__', [])), 'functions': fns}
    return res


def main():
    payload = json.load(open(sys.argv[1]))
    if payload['kind'] == 'reflect':
        json.dump({'reflect': reflect()}, open(sys.argv[2], 'w'))
        return
    f = {'svd': run_svd, 'qr': run_qr, 'eig': run_eig, 'pinv': run_pinv, 'ortho': run_ortho, 'plan': run_plan, 'aux': run_aux}[payload['kind']]
    lc = LineCov()
    if payload.get('linecov', True):
        lc.start()
    res = []
    for c in payload['cases']:
        try:
            res.append(f(c))
        except Exception:
            res.append({'runner_error': traceback.format_exc()[-900:]})
    json.dump({'results': res, 'linecov': lc.report()}, open(sys.argv[2], 'w'))


if __name__ == '__main__':
    main()
