"""Runs tenpy's matrix factorisations (svd, qr, lq, eigh, eig, eigvalsh, eigvals, expm, pinv, polar,
orthogonal_columns, speigs) on the cases of harness/c05.py; dense numpy oracle + structure report."""
import json
import sys
import traceback
import warnings

import numpy as np

warnings.simplefilter('ignore')


def mk_leg(ci, spec):
    from tenpy.linalg.charges import LegCharge
    sizes, charges, qconj = spec
    ch = np.array(charges, dtype=np.int64).reshape(len(sizes), ci.qnumber)
    return LegCharge.from_qind(ci, np.cumsum([0] + list(sizes)), ci.make_valid(ch), qconj)


def leg_blocks(leg):
    return [[int(s), [int(x) for x in c]] for s, c in zip(leg.get_block_sizes(), leg.charges)]


def make_matrix(case):
    """random rank-2 Array: tensor of rank >= 2 with the legs of the case, combined into 2 legs"""
    import tenpy.linalg.np_conserved as npc
    rng = np.random.default_rng(case['seed'])
    ci = npc.ChargeInfo(list(case['mods']))
    legs = [mk_leg(ci, s) for s in case['legs']]
    if case.get('square'):
        legs = [legs[0], legs[0].conj()]
    rank = len(legs)
    if case.get('zero_qtotal'):
        qtotal = None
    elif ci.qnumber and not case.get('square'):
        qtotal = ci.make_valid(np.sum([l.get_charge(q % l.block_number) for l, q in zip(legs, case['qtotal_block'])], axis=0))
    else:
        qtotal = None
    cplx = bool(case.get('complex'))

    def func(shape):
        x = rng.integers(-9, 10, size=shape).astype(np.float64)
        if cplx:
            x = x + 1j * rng.integers(-9, 10, size=shape)
        return x
    a = npc.Array.from_func(func, legs, dtype=np.complex128 if cplx else np.float64, qtotal=qtotal,
                            labels=['l%d' % i for i in range(rank)])
    groups = case.get('combine')
    if groups is not None and rank > 2:
        a = a.combine_legs(groups, qconj=case.get('pipe_qconj', [1, -1]))
        if a.rank != 2:
            raise RuntimeError('generator: combine did not give a matrix')
    # block surgery on the matrix
    mode = case.get('surgery', [])
    for k, blk in enumerate(a._data):
        m = mode[k % len(mode)] if mode else 'keep'
        if m == 'zero':
            blk[...] = 0
        elif m == 'rankdef' and min(blk.shape) >= 2:
            blk[-1, :] = blk[0, :] * 2
            if blk.shape[1] >= 2:
                blk[:, -1] = blk[:, 0] * 3
        elif m == 'rank1' and min(blk.shape) >= 1:
            blk[...] = np.outer(blk[:, 0], blk[0, :])
    if mode and 'drop' in mode and a.stored_blocks > 1:
        keep = [k for k in range(a.stored_blocks) if mode[k % len(mode)] != 'drop']
        if keep:
            a._data = [a._data[k] for k in keep]
            a._qdata = a._qdata[keep]
    if case.get('hermitian'):
        a = a + a.conj().transpose()
    a.test_sanity()
    return a


def sane(x):
    try:
        x.test_sanity()
    except Exception as e:
        return type(e).__name__ + ': ' + str(e)[:100]
    return None


def charge_rule_violations(x):
    """blocks of an Array whose charges do not add up to qtotal (independent of test_sanity)"""
    ci = x.chinfo
    bad = 0
    for qi in x._qdata:
        tot = np.zeros(ci.qnumber, dtype=np.int64)
        for l, q in zip(x.legs, qi):
            tot = tot + l.qconj * l.charges[q]
        if np.any(ci.make_valid(tot) != ci.make_valid(x.qtotal)):
            bad += 1
    return bad


def contractible(l1, l2):
    try:
        l1.test_contractible(l2)
        return True
    except ValueError:
        return False


def blocked_info(a):
    """the completely blocked version used by the routines and its structure"""
    piped, b = a.as_completely_blocked()
    return piped, b, {'legL': [leg_blocks(b.legs[0]), int(b.legs[0].qconj)], 'legR': [leg_blocks(b.legs[1]), int(b.legs[1].qconj)],
                      'qtotal': [int(x) for x in b.qtotal], 'qdata': [[int(x) for x in r] for r in b._qdata]}


def run_svd(case):
    import tenpy.linalg.np_conserved as npc
    a = make_matrix(case)
    ad = a.to_ndarray()
    nrm = max(np.linalg.norm(ad), 1.0)
    tol = 1e-10 * nrm
    o = case['opts']
    ci = a.chinfo
    kw = {'full_matrices': o.get('full_matrices', False), 'inner_qconj': o.get('inner_qconj', 1),
          'inner_labels': o.get('inner_labels', [None, None])}
    if o.get('cutoff') is not None:
        kw['cutoff'] = o['cutoff']
    req = o.get('qtotal_LR', [None, None])
    qreq = [None, None]
    for k in (0, 1):
        if req[k] == 'a':
            qreq[k] = a.qtotal.copy()
        elif req[k] == 'zero':
            qreq[k] = ci.make_valid()
        elif req[k] == 'minus':       # a charge different from both (if possible)
            qreq[k] = ci.make_valid(a.qtotal + 1)
        elif req[k] == 'rest':
            qreq[k] = None
    if qreq[0] is not None and qreq[1] is not None:
        qreq[1] = ci.make_valid(a.qtotal - qreq[0])
    kw['qtotal_LR'] = qreq
    piped, b, binfo = blocked_info(a)
    out = {'blocked': binfo, 'piped': [int(x) for x in piped], 'qreq': [None if q is None else [int(x) for x in q] for q in qreq],
           'shape': list(ad.shape), 'stored_blocks': int(a.stored_blocks)}
    probs = []
    # ranks the documentation promises per block: singular values (strictly) greater than cutoff
    nums = []
    for blk in b._data:
        s = np.linalg.svd(blk, compute_uv=False) if min(blk.shape) > 0 else np.zeros(0)
        nums.append(int(np.sum(s > o['cutoff'])) if o.get('cutoff') is not None else int(len(s)))
    out['nums'] = nums
    try:
        U, S, VH = npc.svd(a, **kw)
    except RuntimeError as e:
        out['raised'] = 'RuntimeError'
        if sum(nums) > 0:
            probs.append(('svd:raises', 'svd raised RuntimeError although singular values > cutoff exist'))
        out['problems'] = probs
        return out
    Ud, Vd = U.to_ndarray(), VH.to_ndarray()
    out['S_len'] = int(len(S))
    out['U'] = {'inner': [leg_blocks(U.legs[1]), int(U.legs[1].qconj)], 'qtotal': [int(x) for x in U.qtotal]}
    out['V'] = {'inner': [leg_blocks(VH.legs[0]), int(VH.legs[0].qconj)], 'qtotal': [int(x) for x in VH.qtotal]}
    full = kw['full_matrices']
    fkey = 'svd-full:' if full else 'svd:'
    M, N = ad.shape
    K = min(M, N)
    if np.any(S < 0) or np.any(np.isnan(S)):
        probs.append((fkey + 'S-negative', 'negative or NaN singular values'))
    # singular values against dense numpy
    sd = np.linalg.svd(ad, compute_uv=False)
    if o.get('cutoff') is not None:
        sd = sd[sd > o['cutoff']]
    Ss = np.sort(S)[::-1]
    if o.get('cutoff') is not None:
        sall = np.linalg.svd(ad, compute_uv=False)
        lo, hi = int(np.sum(sall > o['cutoff'] + 1e-9 * nrm)), int(np.sum(sall > o['cutoff'] - 1e-9 * nrm))
        if len(S) != sum(nums):
            probs.append((fkey + 'S-count', 'number of singular values %d, but %d block singular values are (strictly) greater than the cutoff %r' % (
                len(S), sum(nums), o['cutoff'])))
        elif not (lo <= len(S) <= hi):
            probs.append((fkey + 'S-count', 'number of singular values > cutoff: %d, dense numpy gives %d..%d' % (len(S), lo, hi)))
        elif np.max(np.abs(Ss[:lo] - sall[:lo]), initial=0.) > 1e-9 * nrm:
            probs.append((fkey + 'S-values', 'singular values differ from the dense ones'))
    else:
        # singular values of sectors without a stored block (exact zeros) may be left out
        m = min(len(Ss), len(sd))
        if len(Ss) > len(sd) or np.max(np.abs(Ss[:m] - sd[:m]), initial=0.) > 1e-9 * nrm or np.max(sd[m:], initial=0.) > 1e-9 * nrm:
            probs.append((fkey + 'S-values', 'singular values differ from the dense ones (%d vs %d)' % (len(Ss), len(sd))))
    if not full:
        rec = Ud @ np.diag(S) @ Vd
        err = np.linalg.norm(rec - ad)
        allowed = tol if o.get('cutoff') is None else tol + np.sqrt(len(sd) + 1) * o['cutoff'] * 0 + np.linalg.norm(
            np.linalg.svd(ad, compute_uv=False)[len(sd):]) + tol
        if err > allowed:
            probs.append((fkey + 'reconstruct', '|U S VH - a| = %.3e > %.3e' % (err, allowed)))
        if np.linalg.norm(Ud.conj().T @ Ud - np.eye(len(S))) > 1e-10 * max(1, len(S)):
            probs.append((fkey + 'U-isometry', 'U^dagger U != 1'))
        if np.linalg.norm(Vd @ Vd.conj().T - np.eye(len(S))) > 1e-10 * max(1, len(S)):
            probs.append((fkey + 'V-isometry', 'VH VH^dagger != 1'))
        if U.shape != (M, len(S)) or VH.shape != (len(S), N):  # noqa
            probs.append((fkey + 'shape', 'shapes %s %s' % (U.shape, VH.shape)))
        if not contractible(U.legs[1], VH.legs[0]):
            probs.append((fkey + 'contractible', 'U.legs[1] and VH.legs[0] are not contractible'))
    else:
        missing = (len(b._data) < b.legs[0].block_number) or (len(b._data) < b.legs[1].block_number)
        nonzero_q = bool(np.any(U.qtotal != 0) or np.any(VH.qtotal != 0))
        cond = ('missing-blocks' if missing else 'all-blocks') + ('+qtotal_LR!=0' if nonzero_q else '')
        out['full_cond'] = cond
        if Ud.shape != (M, M) or Vd.shape != (N, N):
            probs.append((fkey + 'shape:' + cond, 'full_matrices: shapes %s %s, expected (%d,%d) (%d,%d)' % (Ud.shape, Vd.shape, M, M, N, N)))
        else:
            if np.linalg.norm(Ud.conj().T @ Ud - np.eye(M)) > 1e-10 * M or np.linalg.norm(Ud @ Ud.conj().T - np.eye(M)) > 1e-10 * M:
                probs.append((fkey + 'U-unitary:' + cond, 'full_matrices=True: U is not unitary'))
            if np.linalg.norm(Vd.conj().T @ Vd - np.eye(N)) > 1e-10 * N or np.linalg.norm(Vd @ Vd.conj().T - np.eye(N)) > 1e-10 * N:
                probs.append((fkey + 'V-unitary:' + cond, 'full_matrices=True: VH is not unitary'))
    for name, X, qwant in (('U', U, qreq[0]), ('VH', VH, qreq[1])):
        if charge_rule_violations(X):
            probs.append((fkey + name + '-charge-rule' + (':' + out['full_cond'] if full else ''),
                          '%s has blocks violating the charge rule for its qtotal' % name))
        s = sane(X)
        if s is not None and not charge_rule_violations(X):
            probs.append((fkey + name + '-sanity', '%s fails test_sanity: %s' % (name, s)))
        if qwant is not None and np.any(ci.make_valid(qwant) != X.qtotal):
            probs.append((fkey + name + '-qtotal', '%s.qtotal %s, requested %s' % (name, X.qtotal, qwant)))
    if np.any(ci.make_valid(U.qtotal + VH.qtotal) != a.qtotal):
        probs.append((fkey + 'qtotal-sum', 'U.qtotal + VH.qtotal != a.qtotal'))
    if not full and VH.legs[0].qconj != kw['inner_qconj']:
        probs.append((fkey + 'inner_qconj', 'VH.legs[0].qconj != inner_qconj'))
    # outer legs / labels
    if not (U.legs[0].qconj == a.legs[0].qconj and np.array_equal(U.legs[0].to_qflat(), a.legs[0].to_qflat())
            and VH.legs[1].qconj == a.legs[1].qconj and np.array_equal(VH.legs[1].to_qflat(), a.legs[1].to_qflat())):
        probs.append((fkey + 'outer-legs', 'outer legs of U/VH differ from the legs of a'))
    la = a.get_leg_labels()
    il = kw['inner_labels']
    if U.get_leg_labels() != [la[0], il[0]] or VH.get_leg_labels() != [il[1], la[1]]:
        probs.append((fkey + 'labels', 'labels %s %s' % (U.get_leg_labels(), VH.get_leg_labels())))
    # compute_uv=False
    if not full:
        kw2 = {k: v for k, v in kw.items() if k in ('cutoff',)}
        S2 = npc.svd(a, compute_uv=False, **kw2)
        if len(S2) != len(S) or np.max(np.abs(np.sort(S2) - np.sort(S)), initial=0.) > 1e-9 * nrm:
            probs.append((fkey + 'compute_uv', 'compute_uv=False gives different singular values'))
    out['problems'] = probs
    return out


def run_qr(case):
    import tenpy.linalg.np_conserved as npc
    a = make_matrix(case)
    o = case['opts']
    ci = a.chinfo
    lq = bool(o.get('lq'))
    ad = a.to_ndarray()
    nrm = max(np.linalg.norm(ad), 1.0)
    tol = 1e-10 * nrm
    kw = {'mode': o.get('mode', 'reduced'), 'inner_qconj': o.get('inner_qconj', 1), 'inner_labels': o.get('inner_labels', [None, None])}
    if o.get('cutoff') is not None:
        kw['cutoff'] = o['cutoff']
    qt = o.get('qtotal_Q')
    qtq = None
    if qt == 'a':
        qtq = a.qtotal.copy()
    elif qt == 'one':
        qtq = ci.make_valid(np.ones(ci.qnumber, dtype=np.int64))
    if qtq is not None:
        kw['qtotal_Q'] = qtq
    pos = bool(o.get('pos_diag'))
    probs = []
    at = a.transpose() if lq else a
    piped, b, binfo = blocked_info(at)
    out = {'blocked': binfo, 'piped': [int(x) for x in piped], 'qtq': None if qtq is None else [int(x) for x in qtq],
           'stored_blocks': int(a.stored_blocks)}
    # per block: number of columns of q the documentation promises (K = min(M, N), or the rank with cutoff)
    ks = []
    singular_diag = False
    for blk in b._data:
        if o.get('cutoff') is None:
            ks.append(int(min(blk.shape)) if kw['mode'] != 'complete' else int(blk.shape[0]))
        else:
            ks.append(None)
        rr = np.linalg.qr(blk, 'r') if min(blk.shape) > 0 else np.zeros((0, 0))
        if np.any(np.abs(np.diag(rr)) < 1e-12 * max(1., np.linalg.norm(blk))):
            singular_diag = True
    out['ks'] = ks
    out['singular_diag'] = singular_diag
    if lq:
        # tie of Model/Factor2.v lq_charges: the blocked structure of `a` ITSELF (the model transposes); rows kept per
        # stored block of a (= columns of q for the transposed block)
        _, ba, binfo_a = blocked_info(a)
        out['blocked_a'] = binfo_a
        out['ks_a'] = [None if o.get('cutoff') is not None else
                       (int(min(blk.shape)) if kw['mode'] != 'complete' else int(blk.shape[1])) for blk in ba._data]
    if o.get('cutoff') is not None and np.linalg.norm(ad) == 0:
        out['skip'] = True      # rank 0 with a cutoff: no inner leg at all (svd raises RuntimeError there); not required
        out['problems'] = []
        return out
    try:
        if lq:
            L, Q = npc.lq(a, pos_diag_L=pos, **kw)
            Qm, Rm = Q.transpose(), L.transpose()
        else:
            Q, R = npc.qr(a, pos_diag_R=pos, **kw)
            Qm, Rm = Q, R
    except Exception as e:
        out['problems'] = [('qr:raises', 'qr/lq raised %s: %s' % (type(e).__name__, str(e)[:100]))]
        return out
    key = 'lq:' if lq else 'qr:'
    Qd, Rd = Qm.to_ndarray(), Rm.to_ndarray()
    atd = at.to_ndarray()
    M, N = atd.shape
    Kin = Qd.shape[1]
    out['Q'] = {'inner': [leg_blocks(Qm.legs[1]), int(Qm.legs[1].qconj)], 'qtotal': [int(x) for x in Qm.qtotal]}
    out['R'] = {'inner': [leg_blocks(Rm.legs[0]), int(Rm.legs[0].qconj)], 'qtotal': [int(x) for x in Rm.qtotal]}
    nan = bool(np.any(np.isnan(Qd)) or np.any(np.isnan(Rd)))
    if nan:
        probs.append((key + 'nan' + (':pos_diag+singular-R-diagonal' if (pos and singular_diag) else ''), 'NaN in Q or R'))
    else:
        if np.linalg.norm(Qd @ Rd - atd) > tol * (1 if o.get('cutoff') is None else 1e3):
            probs.append((key + 'reconstruct', '|Q R - a| = %.3e' % np.linalg.norm(Qd @ Rd - atd)))
        if np.linalg.norm(Qd.conj().T @ Qd - np.eye(Kin)) > 1e-10 * max(1, Kin):
            probs.append((key + 'isometry', 'Q^dagger Q != 1'))
        if kw['mode'] == 'complete' and (Qd.shape != (M, M) or np.linalg.norm(Qd @ Qd.conj().T - np.eye(M)) > 1e-10 * M):
            probs.append((key + 'complete-unitary', "mode='complete': Q is not a square unitary"))
        if kw['mode'] == 'reduced' and o.get('cutoff') is None and not piped and Kin > min(M, N) + sum(1 for _ in ()):
            pass
        # triangular: within the blocked form (sorted legs) R is upper triangular per block
        Qb, Rb = (Qm, Rm)
        # R of the blocked matrix: every stored block of R must be upper triangular
        _, Rblk = Rm.as_completely_blocked() if 1 in piped else (None, Rm)
        for blk in Rblk._data:
            if np.linalg.norm(np.tril(blk, -1)) > tol:
                probs.append((key + 'triangular', 'a block of R is not upper triangular'))
                break
        if pos:
            for blk in Rblk._data:
                d = np.diag(blk)
                if np.any(np.abs(d.imag) > tol) or np.any(d.real < -tol):
                    probs.append((key + 'pos_diag', 'pos_diag: diagonal of R not >= 0'))
                    break
    for name, X in (('Q', Qm), ('R', Rm)):
        if charge_rule_violations(X):
            probs.append((key + name + '-charge-rule', '%s has blocks violating the charge rule' % name))
        else:
            s = sane(X)
            if s is not None:
                probs.append((key + name + '-sanity', '%s fails test_sanity: %s' % (name, s)))
    want_q = ci.make_valid(qtq) if qtq is not None else ci.make_valid()
    if np.any(Qm.qtotal != want_q) or np.any(ci.make_valid(Qm.qtotal + Rm.qtotal) != a.qtotal):
        probs.append((key + 'qtotal', 'qtotal of Q %s (requested %s), R %s, a %s' % (Qm.qtotal, want_q, Rm.qtotal, a.qtotal)))
    if not contractible(Qm.legs[1], Rm.legs[0]):
        probs.append((key + 'contractible', 'inner legs of Q and R not contractible'))
    if Rm.legs[0].qconj != kw['inner_qconj']:
        probs.append((key + 'inner_qconj', 'R.legs[0].qconj != inner_qconj'))
    if not (np.array_equal(Qm.legs[0].to_qflat(), at.legs[0].to_qflat()) and Qm.legs[0].qconj == at.legs[0].qconj
            and np.array_equal(Rm.legs[1].to_qflat(), at.legs[1].to_qflat()) and Rm.legs[1].qconj == at.legs[1].qconj):
        probs.append((key + 'outer-legs', 'outer legs differ from the legs of a'))
    il = kw['inner_labels']
    la = a.get_leg_labels()
    if lq:
        if L.get_leg_labels() != [la[0], il[0]] or Q.get_leg_labels() != [il[1], la[1]]:
            probs.append((key + 'labels', 'labels %s %s' % (L.get_leg_labels(), Q.get_leg_labels())))
    elif Q.get_leg_labels() != [la[0], il[0]] or R.get_leg_labels() != [il[1], la[1]]:
        probs.append((key + 'labels', 'labels %s %s' % (Q.get_leg_labels(), R.get_leg_labels())))
    out['problems'] = probs
    return out


def spec_dist(w1, w2):
    """largest distance in a greedy nearest-neighbour matching of two spectra (inf when the sizes differ)"""
    w1 = list(np.asarray(w1, dtype=complex))
    w2 = list(np.asarray(w2, dtype=complex))
    if len(w1) != len(w2):
        return float('inf')
    worst = 0.
    for x in w1:
        k = int(np.argmin([abs(x - y) for y in w2]))
        worst = max(worst, abs(x - w2[k]))
        w2.pop(k)
    return float(worst)


def run_eig(case):
    import tenpy.linalg.np_conserved as npc
    a = make_matrix(case)
    ad = a.to_ndarray()
    n = ad.shape[0]
    nrm = max(np.linalg.norm(ad), 1.0)
    tol = 1e-9 * nrm
    o = case['opts']
    herm = bool(case.get('hermitian'))
    sort = o.get('sort')
    probs = []
    out = {'stored_blocks': int(a.stored_blocks), 'n': int(n)}
    if herm:
        W, V = npc.eigh(a, UPLO=o.get('UPLO', 'L'), sort=sort)
        W2 = npc.eigvalsh(a, UPLO=o.get('UPLO', 'L'), sort=sort)
        key = 'eigh:'
    else:
        W, V = npc.eig(a, sort=sort)
        W2 = npc.eigvals(a, sort=sort)
        key = 'eig:'
    Vd = V.to_ndarray()
    if np.linalg.norm(ad @ Vd - Vd @ np.diag(W)) > tol:
        probs.append((key + 'eigenpairs', '|a V - V diag(W)| = %.3e' % np.linalg.norm(ad @ Vd - Vd @ np.diag(W))))
    if herm and np.linalg.norm(Vd.conj().T @ Vd - np.eye(n)) > 1e-10 * n:
        probs.append((key + 'unitary', 'V not unitary'))
    wd = np.linalg.eigvalsh(ad) if herm else np.linalg.eigvals(ad)
    # eigenvalues of defective (non-hermitian, rank-deficient) blocks are only accurate to ~eps^(1/k)
    stol = (1e-7 if herm else 1e-4) * nrm
    if spec_dist(W, wd) > stol:
        probs.append((key + 'spectrum', 'eigenvalues differ from dense numpy (matching distance %.2e)' % spec_dist(W, wd)))
    if spec_dist(W2, W) > stol:
        probs.append((key + 'eigvals', 'eigvals(h) differs from eig(h)'))
    if charge_rule_violations(V) or sane(V) is not None:
        probs.append((key + 'V-structure', 'V violates charge rule / test_sanity: %s' % sane(V)))
    if np.any(V.qtotal != 0):
        probs.append((key + 'V-qtotal', 'V.qtotal != 0'))
    if V.get_leg_labels() != [a.get_leg_labels()[0], 'eig']:
        probs.append((key + 'labels', 'labels %s' % V.get_leg_labels()))
    if not (np.array_equal(V.legs[0].to_qflat(), a.legs[0].to_qflat()) and V.legs[0].qconj == a.legs[0].qconj):
        probs.append((key + 'outer-leg', 'V.legs[0] differs from a.legs[0]'))
    # sort order inside the charge blocks of the blocked form
    if sort is not None:
        _, b = a.as_completely_blocked()
        sl = b.legs[0].slices
        for q in range(b.legs[0].block_number):
            w = W[sl[q]:sl[q + 1]]
            k = {'m>': -np.abs(w), 'm<': np.abs(w), '>': -np.real(w), '<': np.real(w)}[sort]
            if np.any(np.diff(k) < -1e-9 * nrm):
                probs.append((key + 'sort', 'eigenvalues not sorted by %r inside a charge block' % sort))
                break
    # expm
    E = npc.expm(a)
    import scipy.linalg
    Ed = scipy.linalg.expm(ad)
    if np.linalg.norm(E.to_ndarray() - Ed) > 1e-9 * max(1., np.linalg.norm(Ed)):
        probs.append(('expm:dense', 'expm differs from dense scipy expm'))
    if charge_rule_violations(E) or sane(E) is not None or np.any(E.qtotal != 0) or E.get_leg_labels() != a.get_leg_labels():
        probs.append(('expm:structure', 'expm result structure: %s' % sane(E)))
    for k in (0, 1):
        if not (np.array_equal(E.legs[k].to_qflat() * E.legs[k].qconj, a.legs[k].to_qflat() * a.legs[k].qconj)):
            if not np.array_equal(a.chinfo.make_valid(E.legs[k].to_qflat() * E.legs[k].qconj), a.chinfo.make_valid(a.legs[k].to_qflat() * a.legs[k].qconj)):
                probs.append(('expm:legs', 'expm legs differ'))
    # speigs on the largest sector
    _, b = a.as_completely_blocked()
    bs = b.legs[0].get_block_sizes()
    q = int(np.argmax(bs))
    if bs[q] >= 4:
        sector = b.legs[0].get_charge(q)
        kk = int(min(o.get('k', 1), bs[q] - 2))
        try:
            Ws, Vs = npc.speigs(a, sector, kk, which='LM', v0=np.ones(bs[q]))
            for w, v in zip(Ws, Vs):
                vd = v.to_ndarray()
                dt = ':real-Array-dtype-with-complex-data' if (v.dtype.kind == 'f' and (np.iscomplexobj(v._data[0]) or abs(np.imag(w)) > 0)) else ''
                if np.linalg.norm(ad @ vd - w * vd) > 1e-6 * nrm or abs(np.linalg.norm(vd) - 1) > 1e-8:
                    probs.append(('speigs:eigenpair' + dt, 'speigs: |a v - w v| = %.3e for the returned Array v (dtype %s, data %s)' % (
                        np.linalg.norm(ad @ vd - w * vd), v.dtype, v._data[0].dtype)))
                if np.any(v.qtotal != a.chinfo.make_valid(sector)) or charge_rule_violations(v) or sane(v) is not None:
                    probs.append(('speigs:structure' + dt, 'speigs vector structure: qtotal %s sector %s, rule violations %d, sanity %s' % (
                        v.qtotal, sector, charge_rule_violations(v), sane(v))))
            # dominant eigenvalue of that sector
            mask = np.zeros(n, bool)
            perm = None
            idx = [i for i in range(n) if np.array_equal(a.chinfo.make_valid(a.legs[0].to_qflat()[i] * a.legs[0].qconj), a.chinfo.make_valid(sector))]
            sub = ad[np.ix_(idx, idx)]
            wsub = np.linalg.eigvals(sub)
            if len(Ws) and abs(abs(Ws[np.argmax(np.abs(Ws))]) - np.max(np.abs(wsub))) > 1e-6 * nrm:
                probs.append(('speigs:dominant', 'largest-magnitude eigenvalue of the sector not found'))
            out['speigs'] = len(Ws)
        except Exception as e:
            has_block = any(int(r[0]) == q for r in b._qdata)
            if 'Arpack' not in type(e).__name__:
                probs.append(('speigs:raises' + (':missing-sector-block' if (not has_block and isinstance(e, TypeError)) else ''),
                              'speigs raised %s: %s' % (type(e).__name__, str(e)[:100])))
    out['problems'] = probs
    return out


def run_pinv(case):
    import tenpy.linalg.np_conserved as npc
    a = make_matrix(case)
    ad = a.to_ndarray()
    nrm = max(np.linalg.norm(ad), 1.0)
    tol = 1e-8 * nrm
    probs = []
    out = {'stored_blocks': int(a.stored_blocks)}
    if np.linalg.norm(ad) == 0:
        out['problems'] = []
        out['skip'] = True
        return out
    P = npc.pinv(a, cutoff=1e-9)
    Pd = P.to_ndarray()
    pd = np.linalg.pinv(ad, rcond=1e-10)
    sc = max(1., np.linalg.norm(pd))
    if Pd.shape != pd.shape or np.linalg.norm(Pd - pd) > 1e-7 * sc * nrm:
        probs.append(('pinv:dense', 'pinv differs from numpy pinv: %.3e' % (np.linalg.norm(Pd - pd) if Pd.shape == pd.shape else -1)))
    else:
        for nm, x in (('a p a = a', ad @ Pd @ ad - ad), ('p a p = p', Pd @ ad @ Pd - Pd), ('(a p)^+ = a p', (ad @ Pd).conj().T - ad @ Pd),
                      ('(p a)^+ = p a', (Pd @ ad).conj().T - Pd @ ad)):
            if np.linalg.norm(x) > 1e-7 * sc * nrm * nrm:
                probs.append(('pinv:moore-penrose', 'Moore-Penrose identity %s violated (%.2e)' % (nm, np.linalg.norm(x))))
    if charge_rule_violations(P) or sane(P) is not None:
        probs.append(('pinv:structure', 'pinv structure: %s' % sane(P)))
    if not (contractible(P.legs[0], a.legs[1]) and contractible(P.legs[1], a.legs[0])):
        probs.append(('pinv:legs', 'legs of pinv(a) are not contractible with the legs of a'))
    # polar
    for left in (False, True):
        u, p, s = npc.polar(a, left=left)[:3] if True else None
        ud, pd_ = u.to_ndarray(), p.to_ndarray()
        rec = pd_ @ ud if left else ud @ pd_
        if np.linalg.norm(rec - ad) > 1e-9 * nrm:
            squared = left and np.linalg.norm(pd_ - ad @ ad.conj().T) < 1e-9 * nrm * nrm
            probs.append(('polar:reconstruct' + (':left:p=a.a^dagger' if squared else ''),
                          'polar(left=%s): |p u - a| = %.2e%s' % (left, np.linalg.norm(rec - ad), ' (p equals a a^dagger = W s^2 W^dagger)' if squared else '')))
        if np.linalg.norm(pd_ - pd_.conj().T) > 1e-9 * nrm or np.min(np.linalg.eigvalsh((pd_ + pd_.conj().T) / 2), initial=0.) < -1e-9 * nrm:
            probs.append(('polar:psd', 'polar(left=%s): p is not hermitian positive semidefinite' % left))
        k = len(s)
        # u is a partial isometry of rank k
        sv = np.linalg.svd(ud, compute_uv=False)
        if np.linalg.norm(sv[:k] - 1) > 1e-9 or np.linalg.norm(sv[k:]) > 1e-9:
            probs.append(('polar:isometry', 'polar(left=%s): u is not a partial isometry' % left))
        if charge_rule_violations(u) or charge_rule_violations(p) or sane(u) is not None or sane(p) is not None:
            probs.append(('polar:structure', 'polar structure'))
    out['problems'] = probs
    return out


def run_ortho(case):
    """orthogonal_columns: case legs = [L, R] with R's sectors a sub-structure of L (full column rank)"""
    import tenpy.linalg.np_conserved as npc
    a = make_matrix(case)
    ad = a.to_ndarray()
    M, N = ad.shape
    probs = []
    out = {'stored_blocks': int(a.stored_blocks), 'shape': [M, N]}
    if np.linalg.matrix_rank(ad) < N or M <= N:
        out['skip'] = True
        out['problems'] = []
        return out
    O = npc.orthogonal_columns(a, new_label=case['opts'].get('new_label'))
    Od = O.to_ndarray()
    if Od.shape != (M, M - N):
        probs.append(('ortho:shape', 'shape %s, expected (%d, %d)' % (Od.shape, M, M - N)))
    else:
        if np.linalg.norm(Od.conj().T @ Od - np.eye(M - N)) > 1e-10 * M:
            probs.append(('ortho:isometry', 'ortho^dagger ortho != 1'))
        if np.linalg.norm(Od.conj().T @ ad) > 1e-9 * max(1., np.linalg.norm(ad)):
            probs.append(('ortho:orthogonal', 'ortho^dagger a != 0'))
    if charge_rule_violations(O) or sane(O) is not None:
        probs.append(('ortho:structure', 'structure: %s' % sane(O)))
    if np.any(O.qtotal != a.qtotal):
        probs.append(('ortho:qtotal', 'qtotal'))
    lab = case['opts'].get('new_label')
    if O.get_leg_labels() != [a.get_leg_labels()[0], lab if lab is not None else a.get_leg_labels()[1]]:
        probs.append(('ortho:labels', 'labels %s' % O.get_leg_labels()))
    if not (np.array_equal(O.legs[0].to_qflat(), a.legs[0].to_qflat()) and O.legs[0].qconj == a.legs[0].qconj):
        probs.append(('ortho:outer-leg', 'left leg differs'))
    out['problems'] = probs
    return out


# ------------------------------------------------------------------------------------------------
# 'plan' stream: the code AROUND the per-block LAPACK calls, with the LAPACK entry points replaced (in this process
# only) by a stub returning recorded integer-valued matrices -- tie of Model/Factor2.v (eig_plan) and
# Model/FactorDense.v (pos_diag, svd assembly), which are parametric in exactly these per-block results
# ------------------------------------------------------------------------------------------------

def imat(x):
    x = np.asarray(x)
    if np.iscomplexobj(x):
        if np.any(x.imag != 0):
            raise ValueError('complex entries in a plan case')
        x = x.real
    if np.any(x != np.round(x)):
        raise ValueError('non-integer entries in a plan case')
    return [[int(v) for v in row] for row in x.tolist()] if x.ndim == 2 else [int(v) for v in x.tolist()]


class Patched:
    """temporarily replace attributes (LAPACK entry points) by stubs"""

    def __init__(self, *triples):
        self.triples = triples

    def __enter__(self):
        self.old = [getattr(o, n) for o, n, _ in self.triples]
        for o, n, f in self.triples:
            setattr(o, n, f)

    def __exit__(self, *exc):
        for (o, n, _), f in zip(self.triples, self.old):
            setattr(o, n, f)


def plan_matrix(case):
    c = dict(case)
    c['complex'] = False
    a = make_matrix(c)
    _, b, binfo = blocked_info(a)
    return a, b, binfo


def run_plan(case):
    import tenpy.linalg.np_conserved as npc
    what = case['plan']
    rng = np.random.default_rng(case['seed'] + 17)
    a, b, binfo = plan_matrix(case)
    out = {'blocked': binfo, 'stored_blocks': int(b.stored_blocks), 'problems': []}
    calls = []
    if what == 'eig':
        def stub(block, *args, **kw):
            n = block.shape[0]
            rw = rng.permutation(np.arange(-3 * n - 2, 3 * n + 3))[:n].astype(np.float64)
            rv = rng.integers(-9, 10, size=(n, n)).astype(np.float64)
            calls.append({'block': np.array(block), 'rw': rw.copy(), 'rv': rv.copy()})
            return rw, rv
        herm = bool(case.get('hermitian'))
        with Patched((np.linalg, 'eigh', stub), (np.linalg, 'eig', stub)):
            W, V = npc.eigh(b, sort=None) if herm else npc.eig(b, sort=None)
        out['order_ok'] = len(calls) == len(b._data) and all(np.array_equal(c['block'], blk) for c, blk in zip(calls, b._data))
        out['eigs'] = [[imat(c['rw']), imat(c['rv'])] for c in calls]
        out['resv'] = [[int(q[0]), int(q[1]), imat(blk)] for q, blk in zip(V._qdata, V._data)]
        out['resw'] = imat(W)
        out['legs_ok'] = bool(V.legs[0].qconj == b.legs[0].qconj and np.array_equal(V.legs[0].to_qflat(), b.legs[0].to_qflat())
                              and V.legs[1].qconj == -b.legs[0].qconj and np.array_equal(V.legs[1].to_qflat(), b.legs[0].to_qflat())
                              and np.all(V.qtotal == 0))
        return out
    if what == 'posdiag':
        mode = case['opts']['mode']
        zero_rate = case['opts'].get('zero_rate', 0.0)

        def stub(block, md='reduced'):
            M, N = block.shape
            P = M if md == 'complete' else min(M, N)
            q = rng.integers(-5, 6, size=(M, P)).astype(np.float64)
            r = np.triu(rng.integers(-5, 6, size=(P, N))).astype(np.float64)
            for k in range(min(P, N)):
                r[k, k] = 0 if rng.random() < zero_rate else rng.choice([-4, -3, -2, -1, 1, 2, 3])
            calls.append({'block': np.array(block), 'q': q.copy(), 'r': r.copy()})
            return q, r
        with Patched((np.linalg, 'qr', stub)):
            Q, R = npc.qr(b, mode=mode, pos_diag_R=True, inner_qconj=case['opts'].get('inner_qconj', 1))
        out['order_ok'] = len(calls) == len(b._data) and all(np.array_equal(c['block'], blk) for c, blk in zip(calls, b._data)) \
            and len(Q._data) >= len(calls) and len(R._data) == len(calls)
        blocks = []
        for k, c in enumerate(calls):
            qk, rk = np.asarray(Q._data[k]), np.asarray(R._data[k])
            nan = bool(np.any(np.isnan(qk)) or np.any(np.isnan(rk)))
            blocks.append({'M': int(c['q'].shape[0]), 'P': int(c['r'].shape[0]), 'N': int(c['r'].shape[1]), 'Q': imat(c['q']), 'R': imat(c['r']),
                           'out': None if nan else [imat(qk), imat(rk)], 'shapes_ok': qk.shape == c['q'].shape and rk.shape == c['r'].shape})
        out['blocks'] = blocks
        if mode == 'complete':
            # tie of Model/FactorDense3.v qr_complete_Q: Q._qdata and the identity fill-in behind the stored blocks
            out['qfill'] = {'rs': [int(x) for x in b.legs[0].get_block_sizes()], 'rows': [int(q[0]) for q in b._qdata],
                            'qd': [[int(q[0]), int(q[1])] for q in Q._qdata], 'extra': [imat(x) for x in Q._data[len(calls):]]}
        return out
    if what == 'svdasm':
        full = bool(case['opts']['full_matrices'])

        def stub(block, full_matrices=False, compute_uv=True, overwrite_a=False, check_finite=True, lapack_driver='gesdd'):
            M, N = block.shape
            K = min(M, N)
            if full_matrices:
                n, mu, mv = K, M, N
            else:
                n = K if rng.random() < 0.55 else int(rng.integers(0, K + 1))
                mu = mv = n
            U = rng.integers(-5, 6, size=(M, mu)).astype(np.float64)
            S = rng.integers(1, 9, size=(n,)).astype(np.float64)
            V = rng.integers(-5, 6, size=(mv, N)).astype(np.float64)
            calls.append({'block': np.array(block), 'n': n, 'U': U.copy(), 'S': S.copy(), 'V': V.copy()})
            return (U, S, V) if compute_uv else S
        try:
            with Patched((npc, 'svd_flat', stub)):
                U, S, VH = npc.svd(b, full_matrices=full, inner_qconj=case['opts'].get('inner_qconj', 1))
        except RuntimeError:
            out['raised'] = 'RuntimeError'
            out['all_zero'] = all(c['n'] == 0 for c in calls)
            return out
        out['order_ok'] = len(calls) == len(b._data) and all(np.array_equal(c['block'], blk) for c, blk in zip(calls, b._data))
        out['rs'] = [int(x) for x in b.legs[0].get_block_sizes()]
        out['cs'] = [int(x) for x in b.legs[1].get_block_sizes()]
        out['fs'] = [[int(q[0]), int(q[1]), int(c['n']), imat(c['U']), imat(c['S']), imat(c['V'])] for q, c in zip(b._qdata, calls)]
        out['U'] = [[int(q[0]), int(q[1]), imat(blk)] for q, blk in zip(U._qdata, U._data)]
        out['V'] = [[int(q[0]), int(q[1]), imat(blk)] for q, blk in zip(VH._qdata, VH._data)]
        out['S'] = imat(S)
        out['ns'] = [] if full else [int(x) for x in VH.legs[0].get_block_sizes()]
        out['inner_contractible'] = contractible(U.legs[1], VH.legs[0]) if not full else None
        return out
    raise ValueError(what)


def main():
    payload = json.load(open(sys.argv[1]))
    f = {'svd': run_svd, 'qr': run_qr, 'eig': run_eig, 'pinv': run_pinv, 'ortho': run_ortho, 'plan': run_plan}[payload['kind']]
    res = []
    for c in payload['cases']:
        try:
            res.append(f(c))
        except Exception:
            res.append({'runner_error': traceback.format_exc()[-900:]})
    json.dump(res, open(sys.argv[2], 'w'))


if __name__ == '__main__':
    main()
