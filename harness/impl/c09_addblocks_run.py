"""Runner part of the stream `add-blocks` of check C09 (loaded by c07_exec.main, kind 'addblocks').

Calls MPS.add on two MPS with small-integer tensors and trivial charges while `canonical_form_finite` is
replaced by a no-op (instrumentation from outside; /repo is not touched), so that the tensors of the returned MPS
are exactly the npc.grid_concat results the constructor received.  The inputs the documentation of add names
(get_B(0, 'Th'), get_B(i, 'B')) are read through the public get_B BEFORE the call.
"""
import numpy as np

import mps_gen as G


def ints(a, what):
    a = np.asarray(a)
    if np.iscomplexobj(a):
        if np.max(np.abs(a.imag)) != 0:
            raise ValueError('%s: complex entries' % what)
        a = a.real
    r = np.rint(a)
    if np.max(np.abs(a - r), initial=0.) != 0:
        raise ValueError('%s: non-integer entries' % what)
    return r.astype(np.int64)


def tens_lit(a):
    """[vL, p, vR] ndarray -> [rows, cols, [p][row][col]]"""
    a = ints(a, 'tensor')
    return [int(a.shape[0]), int(a.shape[2]), [[[int(x) for x in a[i, p, :]] for i in range(a.shape[0])] for p in range(a.shape[1])]]


def make(sites, spec, bc):
    from tenpy.networks.mps import MPS
    import tenpy.linalg.np_conserved as npc
    L = len(sites)
    Bs = []
    ci = sites[0].leg.chinfo
    legs = [npc.LegCharge.from_trivial(c, ci, qconj=+1) for c in spec['chi']]
    for i in range(L):
        a = np.array(spec['B'][i], dtype=float)        # [vL, p, vR]
        Bs.append(npc.Array.from_ndarray(a, [legs[i], sites[i].leg, legs[i + 1].conj()], labels=['vL', 'p', 'vR']))
    SVs = [np.array(s, dtype=float) for s in spec['S']]
    psi = MPS(sites, Bs, SVs, bc=bc, form=[tuple(x / 2. for x in f) for f in spec['form']], norm=spec['norm'],
              unit_cell_width=L)
    return psi


def run_one(c):
    from tenpy.networks.mps import MPS
    sites = [G.make_site(k) for k in c['sites']]
    L = len(sites)
    psi = make(sites, c['A'], c['bc'])
    phi = make(sites, c['B'], c['bc'])
    out = {}
    out['TA'] = [tens_lit(psi.get_B(0, 'Th').transpose(['vL', 'p', 'vR']).to_ndarray())] + \
        [tens_lit(psi.get_B(i, 'B').transpose(['vL', 'p', 'vR']).to_ndarray()) for i in range(1, L)]
    out['TB'] = [tens_lit(phi.get_B(0, 'Th').transpose(['vL', 'p', 'vR']).to_ndarray())] + \
        [tens_lit(phi.get_B(i, 'B').transpose(['vL', 'p', 'vR']).to_ndarray()) for i in range(1, L)]
    out['normA'] = int(ints([psi.norm], 'norm')[0])
    out['normB'] = int(ints([phi.norm], 'norm')[0])
    called = []
    orig = MPS.canonical_form_finite

    def noop(self, *a, **k):
        called.append(1)
        return None
    MPS.canonical_form_finite = noop
    try:
        res = psi.add(phi, c['alpha'], c['beta'])
    finally:
        MPS.canonical_form_finite = orig
    out['canonical_form_finite_calls'] = len(called)
    out['form'] = [None if f is None else list(f) for f in res.form]
    out['TC'] = [tens_lit(B.transpose(['vL', 'p', 'vR']).to_ndarray()) for B in res._B]
    out['norm'] = float(np.real(res.norm))
    return out


def run(payload):
    res = []
    for c in payload['cases']:
        try:
            res.append(run_one(c))
        except Exception as e:          # reported as a correspondence failure by the harness
            import traceback
            res.append({'error': '%s: %s | %s' % (type(e).__name__, str(e)[:300], traceback.format_exc()[-500:])})
    return res
