"""Runner part of the stream `valued` of check C07 (loaded by c07_exec.main, kind 'valued').

Builds MPS directly with the constructor MPS(sites, Bs, SVs, bc, form) from dyadic tensors (small integers times
powers of two) and singular values 4^k, performs a history of convert_form / set_B(i, get_B(i, f), f) and probes
get_B(i, form) / get_theta(i, n, formL=0, formR=1); after every operation all stored tensors and labels are dumped
EXACTLY (every float as mantissa * 2^exponent).
"""
import math

import numpy as np

import mps_gen as G


def dy(x):
    """float -> [m, k] with x == m * 2**k exactly (m odd or 0)"""
    x = float(x)
    if x == 0.0:
        return [0, 0]
    if not math.isfinite(x):
        raise ValueError('non-finite entry')
    m, e = math.frexp(x)
    m = int(m * (1 << 53))
    k = e - 53
    while m % 2 == 0:
        m //= 2
        k += 1
    return [m, k]


def tens(a):
    a = np.asarray(a)
    if np.iscomplexobj(a):
        if np.max(np.abs(a.imag), initial=0.) != 0:
            raise ValueError('complex entries')
        a = a.real
    return [[[dy(x) for x in a[i, p, :]] for p in range(a.shape[1])] for i in range(a.shape[0])]


def half(f):
    if f is None:
        return None
    out = []
    for x in f:
        h = 2 * float(x)
        if h != round(h):
            raise ValueError('form %r not in half units' % (f,))
        out.append(int(round(h)))
    return out


def farg(f):
    """JSON form (half units, entries may be None) -> tenpy argument"""
    if f is None or isinstance(f, str):
        return f
    return tuple(None if x is None else x / 2. for x in f)


def snapshot(psi):
    return {'form': [half(f) for f in psi.form],
            'B': [tens(B.to_ndarray() if B.get_leg_labels() == ['vL', 'p', 'vR'] else B.transpose(['vL', 'p', 'vR']).to_ndarray())
                  for B in psi._B]}


def build(c):
    from tenpy.networks.mps import MPS
    import tenpy.linalg.np_conserved as npc
    sites = [G.make_site(k) for k in c['sites']]
    L = len(sites)
    ci = sites[0].leg.chinfo
    fin = c['bc'] != 'infinite'
    chi = c['chi']                       # L+1 entries (infinite: chi[L] == chi[0])
    legs = [npc.LegCharge.from_trivial(x, ci, qconj=+1) for x in chi]
    Bs = []
    for i in range(L):
        a = np.array([[[m * 2.0 ** k for (m, k) in row] for row in mat] for mat in c['B'][i]], dtype=float)
        Bs.append(npc.Array.from_ndarray(a, [legs[i], sites[i].leg, legs[i + 1].conj()], labels=['vL', 'p', 'vR']))
    SVs = [np.array([4.0 ** k for k in ks], dtype=float) for ks in c['svlog']]
    if not fin:
        SVs = SVs + [SVs[0]]
    forms = [None if f is None else farg(f) for f in c['form']]
    return MPS(sites, Bs, SVs, bc=c['bc'], form=forms, unit_cell_width=L)


def run_one(c):
    psi = build(c)
    svlog = []
    for s in psi._S:
        ks = []
        for x in np.asarray(s):
            m, k = dy(x)
            if m != 1 or k % 2:
                raise ValueError('singular value %r is not an even power of two' % x)
            ks.append(k // 2)
        svlog.append(ks)
    out = {'svlog': svlog, 'snap': [snapshot(psi)], 'res': []}
    for op in c['ops']:
        t = op['op']
        r = {}
        try:
            if t == 'convert_form':
                f = op['forms']
                psi.convert_form(f if isinstance(f, str) else [farg(x) for x in f])
            elif t == 'set_get':
                f = farg(op['form'])
                psi.set_B(op['i'], psi.get_B(op['i'], f, copy=op.get('copy', False)), f)
            elif t == 'get_B':
                B = psi.get_B(op['i'], farg(op['form']), copy=op.get('copy', False))
                r['probe'] = tens(B.transpose(['vL', 'p', 'vR']).to_ndarray())
            elif t == 'window':
                n = op['n']
                th = psi.get_theta(op['i'], n, formL=0., formR=1.)
                th = th.transpose(['vL'] + ['p%d' % k for k in range(n)] + ['vR']).to_ndarray()
                r['probe'] = tens(th.reshape(th.shape[0], -1, th.shape[-1]))
            else:
                raise RuntimeError('unknown op ' + t)
        except ValueError as e:
            r['raised'] = '%s: %s' % (type(e).__name__, str(e)[:200])
        out['res'].append(r)
        out['snap'].append(snapshot(psi))
        if 'raised' in r and t in ('convert_form', 'set_get'):
            break       # convert_form may have converted a prefix of the sites before raising
    # S untouched by conversions
    out['S_unchanged'] = all(np.array_equal(np.asarray(s), np.array([4.0 ** k for k in ks])) for s, ks in zip(psi._S, svlog))
    return out


def run(payload):
    res = []
    for c in payload['cases']:
        try:
            res.append(run_one(c))
        except Exception as e:
            import traceback
            res.append({'error': '%s: %s | %s' % (type(e).__name__, str(e)[:300], traceback.format_exc()[-600:])})
    return res
