"""Coverage instrumentation of the C04 runner (harness/impl/c04_impl.py), used in BOTH configurations.

(1) INPUT RECORDERS.  Every function of tenpy that has a compiled twin (the `@use_cython` pairs of np_conserved.py / charges.py)
    is wrapped by a transparent recorder that classifies the ARGUMENTS of each call (dtype class, rank, memory layout of the blocks,
    sortedness of _qdata, number of blocks, aliasing self/other, prefactor class, axes kinds, which branches of the block-matching
    loops the input drives, error class) and then calls the original.  The compiled code itself cannot be line-traced; instead
    harness/c04_audit.py maps every branch condition of the .pyx source to one of these input classes and demands that the class
    occurred.  The recorders never change arguments or results.
(2) LINE RECORDING (sys.monitoring, pure-Python configuration only) of the Python twins and of the helpers only they use.

Counters live in the process that executes the cases (forked children of c04_impl.isolated_all) and are merged by the parent.
"""
import sys

import numpy as np

import tenpy.linalg.np_conserved as npc
from tenpy.linalg import charges as chg

TAGS = {}          # pair -> {tag: count}
ACTIVE = [False]
DEPTH = [0]

DT = {'float64': 'f8', 'complex128': 'c16', 'float32': 'f4', 'complex64': 'c8', 'int64': 'i8', 'int32': 'i4', 'bool': 'b1'}


def dt(d):
    try:
        return DT.get(np.dtype(d).name, np.dtype(d).name)
    except Exception:
        return 'other'


STREAM = ['?']      # label of the stream the current case belongs to (set by c04_impl.main)


def hit(pair, tags):
    d = TAGS.setdefault(pair, {})
    st = STREAM[0]
    for t in set(tags) | {'calls'}:
        e = d.setdefault(t, {})
        e[st] = e.get(st, 0) + 1


def nclass(n, big=2):
    return str(n) if n < big else '%d+' % big


def _bounds(b):
    lo = hi = 0
    for n, s in zip(b.shape, b.strides):
        if s < 0:
            lo += (n - 1) * s
        else:
            hi += (n - 1) * s
    return hi - lo + b.itemsize


def blk_layout(b):
    """'C' | 'perm' (not C-contiguous, but the elements fill one memory range: Fortran order / permuted buffer) | 'gaps'"""
    if not isinstance(b, np.ndarray) or b.size <= 1 or b.flags['C_CONTIGUOUS']:
        return 'C'
    return 'perm' if _bounds(b) == b.size * b.itemsize else 'gaps'


def lay(a):
    try:
        if len(a._data) == 0:
            return 'none'
        ls = {blk_layout(b) for b in a._data}
        return 'gaps' if 'gaps' in ls else ('perm' if 'perm' in ls else 'C')
    except Exception:
        return '?'


def arr_tags(a, sfx):
    """generic tags of an Array operand"""
    try:
        return ['dt%s=%s' % (sfx, dt(a.dtype)), 'rank%s=%s' % (sfx, nclass(a.rank, 4)), 'lay%s=%s' % (sfx, lay(a)),
                'qs%s=%d' % (sfx, bool(a._qdata_sorted)), 'nblk%s=%s' % (sfx, nclass(len(a._data), 2)),
                'qnum=%s' % nclass(a.chinfo.qnumber, 2)]
    except Exception:
        return ['arr%s=broken' % sfx]


def pref_tags(p):
    t = type(p)
    if t is bool:
        base = 'bool'
    elif t is int:
        base = 'pyint'
    elif t is float:
        base = 'pyfloat'
    elif t is complex:
        base = 'pycomplex'
    elif isinstance(p, np.generic):
        base = 'np.' + p.dtype.name
    else:
        base = 'other'
    try:
        if not np.isscalar(p):
            raise TypeError('not a scalar')
        c = complex(p)
        if c != c:
            val = 'nan'
        elif c == 0:
            val = '0'
        elif c == 1:
            val = '1'
        elif c == -1:
            val = '-1'
        elif c.imag == 0:
            val = 'real'
        elif c.real == 0:
            val = 'imag'
        else:
            val = 'complex'
    except Exception:
        val = 'nonscalar'
    return ['ptype=' + base, 'pval=' + val]


def calc_of(*xs):
    try:
        return np.result_type(*xs)
    except Exception:
        return None


def blas_kind(calc):
    n = dt(calc) if calc is not None else '?'
    return 'blas' if n in ('f8', 'c16') else 'noblas'


def rows(q):
    return [tuple(int(x) for x in r) for r in np.asarray(q)]


def data_ptr(b):
    try:
        return int(b.ctypes.data)
    except Exception:
        return None


# ------------------------------------------------------------------------------------------------
# classifiers (one per pair): called BEFORE the original with the original arguments
# ------------------------------------------------------------------------------------------------

def c_make_valid(self, charges=None):
    t = ['qnum=%s' % nclass(self.qnumber, 2)]
    if charges is None:
        return t + ['arg=None']
    if isinstance(charges, np.ndarray):
        t.append('arg=ndarray:%s:%s' % (dt(charges.dtype), 'C' if charges.flags['C_CONTIGUOUS'] else 'strided'))
    else:
        t.append('arg=' + type(charges).__name__)
    try:
        c = np.asarray(charges)
        t.append('ndim=%d' % c.ndim)
        if c.ndim >= 1 and c.shape[-1] != self.qnumber:
            t.append('shape=mismatch')
        if c.ndim == 2:
            t.append('L=%s' % nclass(c.shape[0], 2))
        if c.size and c.ndim in (1, 2) and c.shape[-1] == self.qnumber:
            mod = np.asarray(self.mod)
            c2 = c.reshape(-1, self.qnumber)
            m = mod != 1
            if np.any(mod == 1):
                t.append('mod1-column')
            if np.any(m):
                sub, mm = c2[:, m], mod[m]
                if np.any(sub < 0):
                    t.append('val<0')
                if np.any(sub >= mm):
                    t.append('val>=mod')
                if np.any(sub == mm):
                    t.append('val==mod')
                if np.any((sub < 0) & (sub % mm == 0)):
                    t.append('val=-k*mod')
                if np.all((sub >= 0) & (sub < mm)):
                    t.append('already-valid')
                if np.any(np.abs(sub.astype(object)) >= 2 ** 40):
                    t.append('val=big')
    except Exception:
        t.append('arg=unclassified')
    nd = [x for x in t if x.startswith('ndim=')]
    if nd:
        t.append('qnum>0' if self.qnumber > 0 else 'qnum=0')
        t += ['%s&%s' % (nd[0], x) for x in t if x in ('mod1-column', 'val<0', 'val>=mod', 'already-valid', 'qnum=0', 'qnum>0')]
    return t


def c_check_valid(self, charges):
    t = ['qnum=%s' % nclass(self.qnumber, 2)]
    if isinstance(charges, np.ndarray):
        l = 'C' if charges.flags['C_CONTIGUOUS'] else ('F' if charges.flags['F_CONTIGUOUS'] else 'strided')
        t.append('arg=ndarray:%s:%s' % (dt(charges.dtype), l))
    else:
        t.append('arg=' + type(charges).__name__)
    try:
        c = np.asarray(charges)
        t.append('ndim=%d' % c.ndim)
        if c.ndim == 2:
            t.append('L=%s' % nclass(c.shape[0], 2))
            mod = np.asarray(self.mod)
            m = mod != 1
            if np.any(mod == 1):
                t.append('mod1-column')
            if c.size and np.any(m) and c.shape[1] == self.qnumber:
                sub, mm = c[:, m], mod[m]
                ok = bool(np.all((sub >= 0) & (sub < mm)))
                t.append('valid=%d' % ok)
                if np.any(sub == mm):
                    t.append('val==mod')
                if np.any(sub == mm - 1):
                    t.append('val==mod-1')
                if np.any(sub == -1):
                    t.append('val==-1')
                if np.any(sub == 0):
                    t.append('val==0')
                if np.any(sub < 0):
                    t.append('val<0')
                if np.any(sub > mm):
                    t.append('val>mod')
                bad = ~((sub >= 0) & (sub < mm))
                if bad.any() and not bad[0].any():
                    t.append('first-row-valid-later-invalid')
                if bad.any() and not bad[:, 0].any():
                    t.append('first-column-valid-later-invalid')
    except Exception:
        t.append('arg=unclassified')
    return t


def c_init_from_legs(self, sort=True, bunch=True):
    t = ['sort=%d' % bool(sort), 'bunch=%d' % bool(bunch)]
    try:
        qn = self.chinfo.qnumber
        t += ['qnum=%s' % nclass(qn, 2), 'nlegs=%s' % nclass(self.nlegs, 3), 'pipe_qconj=%+d' % self.qconj,
              'leg_qconj=%s' % ''.join(sorted({'%+d' % l.qconj for l in self.legs}))]
        nb = int(np.prod([l.block_number for l in self.legs]))
        t.append('nblocks=%s' % nclass(nb, 2))
        t.append('sort=%d&qnum%s' % (bool(sort), '>0' if qn > 0 else '=0'))
        if any(isinstance(l, chg.LegPipe) for l in self.legs):
            t.append('nested-pipe')
        if any(np.any(np.diff(l.slices) == 0) for l in self.legs):
            t.append('zero-size-block')
        if qn > 0 and nb <= 4096:
            grid = np.indices([l.block_number for l in self.legs]).reshape(self.nlegs, -1)
            tot = sum(l.qconj * np.asarray(l.charges)[g] for l, g in zip(self.legs, grid)) * self.qconj
            mod = np.asarray(self.chinfo.mod)
            tot = np.where(mod == 1, tot, tot % np.where(mod == 1, 1, mod))
            tr = rows(tot)
            t.append('fused-ties=%d' % (len(set(tr)) < len(tr)))
            t.append('fused-all-equal=%d' % (len(set(tr)) == 1 and len(tr) > 1))
            srt = sorted(range(len(tr)), key=lambda i: tuple(reversed(tr[i])))
            t.append('needs-permutation=%d' % (srt != list(range(len(tr)))))
    except Exception:
        t.append('arg=unclassified')
    return t


def c_find_row_differences(qflat):
    t = []
    try:
        t.append('arg=%s:%s' % (dt(qflat.dtype), 'C' if qflat.flags['C_CONTIGUOUS'] else 'strided'))
        L, M = qflat.shape
        t += ['L=%s' % nclass(L, 2), 'M=%s' % nclass(M, 2)]
        if L == 0 and M > 0:
            t.append('L=0&M>0')
        if L >= 2 and M >= 1:
            d = np.any(qflat[1:] != qflat[:-1], axis=1)
            t.append('rows=' + ('all-equal' if not d.any() else ('all-different' if d.all() else 'mixed')))
            if M >= 2 and np.any((qflat[1:, 0] == qflat[:-1, 0]) & d):
                t.append('difference-in-later-column-only')
    except Exception:
        t.append('arg=unclassified')
    return t


def c_map_blocks(blocksizes):
    t = []
    try:
        b = np.asarray(blocksizes)
        t.append('arg=%s:%s:%s' % (type(blocksizes).__name__, dt(b.dtype), 'C' if b.flags['C_CONTIGUOUS'] else 'strided'))
        t.append('len=%s' % nclass(len(b), 2))
        if len(b):
            if np.any(b == 0):
                t.append('has-size0')
            if np.all(b == 0):
                t.append('all-size0')
            if np.any(b > 1):
                t.append('has-size>1')
    except Exception:
        t.append('arg=unclassified')
    return t


def c_sliced_copy(dest, dest_beg, src, src_beg, slice_shape):
    t = []
    try:
        t += ['ndim=%s' % nclass(dest.ndim, 7), 'dest_beg=%s' % ('None' if dest_beg is None else 'given'),
              'src_beg=%s' % ('None' if src_beg is None else 'given'), 'itemsize=%d' % dest.itemsize, 'dt=' + dt(dest.dtype)]
        sl = [int(x) for x in slice_shape]
        if 0 in sl:
            t.append('slice-len0')
        if sl and sl[-1] == 1:
            t.append('last-len1')
        if dest.ndim and dest.shape[-1] == 1:
            t.append('dest-lastdim1')
        if src.ndim and src.shape[-1] == 1:
            t.append('src-lastdim1')
        t.append('src=%s' % blk_layout(src))
        t.append('dest=%s' % blk_layout(dest))
        if sl == list(src.shape) and sl == list(dest.shape):
            t.append('whole-array')
        if dest.dtype != src.dtype:
            t.append('dtype-mismatch')
    except Exception:
        t.append('arg=unclassified')
    return t


def c_make_stride(shape, cstyle=True):
    t = ['cstyle=%d' % bool(cstyle)]
    try:
        t += ['arg=' + type(shape).__name__, 'L=%s' % nclass(len(shape), 3)]
        s = [int(x) for x in shape]
        if 0 in s:
            t.append('has-dim0')
        if 1 in s:
            t.append('has-dim1')
        if s and isinstance(shape[0], np.integer):
            t.append('elem=numpy-int')
    except Exception:
        t.append('arg=unclassified')
    return t


def axes_kind(a, axes):
    if axes is None:
        return ['axes=None']
    t = []
    try:
        ax = list(axes)
    except TypeError:
        return ['axes=not-iterable']
    kinds = set()
    for x in ax:
        if isinstance(x, str):
            kinds.add('label')
        elif isinstance(x, (int, np.integer)):
            kinds.add('negint' if x < 0 else 'int')
        else:
            kinds.add('other')
    t.append('axes-elems=' + '+'.join(sorted(kinds)) if kinds else 'axes-elems=empty')
    t.append('axes-type=' + type(axes).__name__)
    try:
        idx = a.get_leg_indices(ax)
        if len(idx) != a.rank or len(set(idx)) != a.rank:
            t.append('axes=wrong-length-or-duplicate')
        elif list(idx) == list(range(a.rank)):
            t.append('axes=identity')
        elif list(idx) == list(reversed(range(a.rank))):
            t.append('axes=reversal')
        else:
            t.append('axes=permutation')
    except Exception:
        t.append('axes=unresolvable')
    return t


def c_itranspose(self, axes=None):
    t = arr_tags(self, '') + axes_kind(self, axes)
    try:
        t.append('qdata=%s' % ('C' if np.asarray(self._qdata).flags['C_CONTIGUOUS'] else 'strided'))
        if len(set(l for l in self._labels if l is not None)) < len([l for l in self._labels if l is not None]):
            t.append('labels=duplicated')
    except Exception:
        pass
    return t


def mod_valid(chinfo, x):
    """charges modulo chinfo.mod (written here: the classifiers must not call the recorded functions)"""
    mod = np.asarray(chinfo.mod)
    x = np.asarray(x)
    if mod.size == 0:
        return x
    return np.where(mod == 1, x, x % np.where(mod == 1, 1, mod))


def merge_tags(ra, rb, na, nb):
    """which arms of the two-pointer merge the block tables (lists of rows) of the operands drive"""
    t = []
    sa, sb = set(ra), set(rb)
    if len(sa) != na or len(sb) != nb:
        t.append('merge=duplicate-rows')
    if sa == sb:
        t.append('merge=identical-tables' if sa else 'merge=both-empty')
    else:
        t.append('merge=general')
        if sa & sb:
            t.append('merge:both')
        if sa - sb:
            t.append('merge:a-only')
        if sb - sa:
            t.append('merge:b-only')
        if not sa:
            t.append('merge:a-empty')
        if not sb:
            t.append('merge:b-empty')
    return t


def alias_tags(self, other, ra, rb):
    if other is self:
        return ['alias=same-object']
    pa = {}
    for q, b in zip(ra, self._data):
        pa[q] = data_ptr(b)
    same = any(pa.get(q) is not None and pa.get(q) == data_ptr(b) for q, b in zip(rb, other._data))
    if same:
        return ['alias=same-buffers']
    try:
        if any(np.shares_memory(x, y, max_work=10000) for x in self._data for y in other._data):
            return ['alias=overlapping-buffers']
    except Exception:
        pass
    return ['alias=none']


def opt_tag():
    try:
        from tenpy.tools import optimization
        return 'opt=3' if int(optimization.get_level()) >= 3 else 'opt<3'
    except Exception:
        return 'opt=?'


def c_iadd_prefactor_other(self, prefactor, other):
    t = pref_tags(prefactor) + [opt_tag()]
    if not isinstance(other, npc.Array):
        return t + ['other=not-an-Array']
    t += arr_tags(self, '_s') + arr_tags(other, '_o')
    try:
        calc = calc_of(self.dtype, other.dtype, prefactor)
        t.append('calc=' + (dt(calc) if calc is not None else '?'))
        kind = blas_kind(calc)
        t.append(kind)
        cs, co = (self.dtype != calc), (other.dtype != calc)
        t.append('cast=%s' % ('both' if cs and co else ('self' if cs else ('other' if co else 'none'))))
        la, lb = list(self._labels), list(other._labels)
        perm = list(range(other.rank))
        if la != lb and None not in la and None not in lb and sorted(la) == sorted(lb) and len(set(la)) == len(la):
            t.append('labels=permuted')
            perm = [lb.index(l) for l in la]
        else:
            t.append('labels=same-order' if la == lb else 'labels=different')
        olegs = [other.legs[i] for i in perm]
        if self.rank != other.rank:
            t.append('pre=rank-differs')
        else:
            try:
                for l1, l2 in zip(self.legs, olegs):
                    l1.test_equal(l2)
                t.append('pre=qtotal-differs' if np.any(self.qtotal != other.qtotal) else 'pre=ok')
            except ValueError:
                t.append('pre=legs-differ')
            if t[-1] == 'pre=ok':
                ra = rows(self._qdata)
                rb = [tuple(r[i] for i in perm) for r in rows(other._qdata)]
                mt = merge_tags(ra, rb, len(self._data), len(other._data))
                al = alias_tags(self, other, ra, rb)
                t += mt + al
                cn = dt(calc) if calc is not None else '?'
                nz = 'pval=0' not in t
                common = set(ra) & set(rb)
                if nz and common:
                    t.append('axpy=' + (cn if kind == 'blas' else 'numpy'))
                if nz and set(rb) - set(ra):
                    if kind != 'blas':
                        t.append('bscal=numpy')
                    elif cn == 'f8':
                        t.append('bscal=dscal')
                    else:
                        t.append('bscal=' + ('zdscal' if complex(prefactor).imag == 0 else 'zscal'))
                if nz and kind == 'blas' and common:
                    pa = {q: data_ptr(b) for q, b in zip(ra, self._data)}
                    shared = any(q in common and pa.get(q) == data_ptr(b) for q, b in zip(rb, other._data))
                    path = 'fast-path' if mt[-1] == 'merge=identical-tables' or 'merge=identical-tables' in mt else 'general-path'
                    t.append('%s&%s' % (path, 'same-pointer' if shared else 'distinct-pointers'))
                    if shared:
                        t.append('%s&same-pointer&%s' % (path, 'daxpy' if cn == 'f8' else (
                            'zaxpy-real-prefactor' if complex(prefactor).imag == 0 else 'zaxpy-complex-prefactor')))
                t += ['%s&lay_s=%s' % (kind, lay(self)), '%s&lay_o=%s' % (kind, lay(other)), '%s&%s' % (kind, al[0])]
                t += ['%s&%s' % (kind, m) for m in mt if m.startswith('merge')]
                pv = [x for x in t if x.startswith('pval=')][0]
                t += ['%s&%s' % (pv, al[0]), '%s&calc=%s' % (pv, dt(calc) if calc is not None else '?')]
                t += ['%s&%s' % (pv, m) for m in mt if m.startswith('merge=') or m == 'merge:b-only']
    except Exception as e:
        t.append('arg=unclassified:' + type(e).__name__)
    return t


def c_iscale_prefactor(self, prefactor):
    t = pref_tags(prefactor) + arr_tags(self, '')
    try:
        if not np.isscalar(prefactor):
            return t + ['pre=not-scalar']
        calc = calc_of(self.dtype, prefactor)
        n = dt(calc) if calc is not None else '?'
        t += ['calc=' + n, blas_kind(calc), 'cast=%d' % (self.dtype != calc)]
        if 'pval=0' not in t:
            if n == 'f8':
                k = 'dscal'
            elif n == 'c16':
                k = 'zdscal' if complex(prefactor).imag == 0 else 'zscal'
            else:
                k = 'numpy'
            t += ['scal=' + k, '%s&lay=%s' % (k, lay(self)), '%s&nblk=%s' % (k, nclass(len(self._data), 2))]
    except Exception as e:
        t.append('arg=unclassified:' + type(e).__name__)
    return t


def c_imake_contiguous(self):
    t = arr_tags(self, '')
    try:
        ls = [blk_layout(b) for b in self._data]
        if 'C' in ls and ('gaps' in ls or 'perm' in ls):
            t.append('blocks=mixed-layouts')
        if any(isinstance(b, np.ndarray) and b.flags['F_CONTIGUOUS'] and not b.flags['C_CONTIGUOUS'] for b in self._data):
            t.append('blocks=fortran')
    except Exception:
        pass
    return t


def c_combine_legs_worker(self, res, combine_legs, non_combined_legs, new_axes, non_new_axes, pipes):
    t = arr_tags(self, '')
    try:
        t += ['npipes=%s' % nclass(len(pipes), 3), 'non_combined=%s' % nclass(len(non_combined_legs), 2),
              'res_rank=%s' % nclass(res.rank, 5), 'pipe_nlegs=%s' % '+'.join(sorted({nclass(p.nlegs, 3) for p in pipes})),
              'itemsize=%d' % np.dtype(self.dtype).itemsize]
        # how many old blocks go into one new block?
        q = np.empty((len(self._data), res.rank), np.intp)
        q[:, non_new_axes] = np.asarray(self._qdata)[:, non_combined_legs]
        for j, (p, cl) in enumerate(zip(pipes, combine_legs)):
            q[:, new_axes[j]] = p.q_map[p._map_incoming_qind(np.asarray(self._qdata)[:, cl]), 2]
        r = rows(q)
        t.append('old-per-new=%s' % ('many' if len(set(r)) < len(r) else 'one'))
        srt = sorted(range(len(r)), key=lambda i: tuple(reversed(r[i])))
        t.append('needs-sort=%d' % (srt != list(range(len(r)))))
        if any(b.shape[-1] == 1 for b in self._data):
            t.append('block-lastdim1')
        if any(not p.bunched for p in pipes) or any(not p.sorted for p in pipes):
            t.append('pipe-unsorted-or-unbunched')
        if self.dtype != res.dtype:
            t.append('dtype-mismatch')
    except Exception as e:
        t.append('arg=unclassified:' + type(e).__name__)
    return t


def c_split_legs_worker(self, split_axes, cutoff):
    t = arr_tags(self, '')
    try:
        t += ['N_split=%s' % nclass(len(split_axes), 3), 'split-type=' + type(split_axes).__name__,
              'cutoff=%s' % ('0' if cutoff == 0 else type(cutoff).__name__), 'itemsize=%d' % np.dtype(self.dtype).itemsize,
              'nonsplit=%s' % nclass(self.rank - len(split_axes), 2)]
        n = np.ones(len(self._data), int)
        for ax in split_axes:
            p = self.legs[ax]
            qi = np.asarray(self._qdata)[:, ax]
            n = n * (p.q_map_slices[qi + 1] - p.q_map_slices[qi])
        if len(n):
            t.append('new-per-old=%s' % ('many' if np.any(n > 1) else 'one'))
        if any(isinstance(l, chg.LegPipe) for ax in split_axes for l in self.legs[ax].legs):
            t.append('nested-pipe')
        if any(b.shape[-1] == 1 for b in self._data):
            t.append('block-lastdim1')
    except Exception as e:
        t.append('arg=unclassified:' + type(e).__name__)
    return t


def c_inner_worker(a, b, do_conj):
    t = ['do_conj=%d' % bool(do_conj)] + arr_tags(a, '_a') + arr_tags(b, '_b')
    try:
        res = np.promote_types(a.dtype, b.dtype)
        calc = 'c16' if res.kind == 'c' else 'f8'
        t += ['calc=' + calc, 'res=' + dt(res), 'cast=%s' % ('both' if dt(a.dtype) != calc and dt(b.dtype) != calc else (
            'a' if dt(a.dtype) != calc else ('b' if dt(b.dtype) != calc else 'none')))]
        chk = (b.qtotal - a.qtotal) if do_conj else (b.qtotal + a.qtotal)
        qok = not np.any(mod_valid(a.chinfo, chk) != 0)
        t.append('qtotal=%s' % ('match' if qok else 'mismatch'))
        t.append('do_conj=%d&%s' % (bool(do_conj), t[-1]))
        if qok and not (len(a._data) and len(b._data)):
            t.append('qtotal=match&noblocks')
        if qok and len(a._data) and len(b._data):
            common = set(rows(a._qdata)) & set(rows(b._qdata))
            t.append('common=%s' % nclass(len(common), 2))
            t.append('dot=%s' % ('ddot' if calc == 'f8' else ('zdotc' if do_conj else 'zdotu')))
            t += ['%s&lay_a=%s' % (t[-1], lay(a)), '%s&lay_b=%s' % (t[-1], lay(b))]
            t += ['dot&qs_a=%d' % bool(a._qdata_sorted), 'dot&qs_b=%d' % bool(b._qdata_sorted)]
            if len(common) < len(a._data):
                t.append('a-has-unmatched')
            if len(common) < len(b._data):
                t.append('b-has-unmatched')
        if a is b:
            t.append('alias=same-object')
    except Exception as e:
        t.append('arg=unclassified:' + type(e).__name__)
    return t


def c_tensordot_transpose_axes(a, b, axes):
    t = ['rank_a=%s' % nclass(a.rank, 4), 'rank_b=%s' % nclass(b.rank, 4), opt_tag()]
    try:
        if a.chinfo != b.chinfo:
            t.append('pre=different-chinfo')
        if a is b:
            t.append('alias=same-object')
        try:
            axes_a, axes_b = axes
            t.append('axes=pair')
            ia = a.get_leg_indices(npc.to_iterable(axes_a))
            ib = b.get_leg_indices(npc.to_iterable(axes_b))
            for nm, x in (('a', axes_a), ('b', axes_b)):
                if isinstance(x, (str, int, np.integer)):
                    t.append('axes_%s=single-%s' % (nm, 'label' if isinstance(x, str) else 'int'))
                else:
                    ks = {('label' if isinstance(y, str) else ('negint' if y < 0 else 'int')) for y in x}
                    t.append('axes_%s=%s' % (nm, '+'.join(sorted(ks)) or 'empty'))
            if len(ia) != len(ib):
                t.append('pre=axes-lengths-differ')
            else:
                t.append('ncontract=%s' % nclass(len(ia), 3))
                t.append('a-standard=%d' % (list(ia) == list(range(a.rank - len(ia), a.rank))))
                t.append('b-standard=%d' % (list(ib) == list(range(len(ib)))))
                n = len(ia)
                la = [a.legs[i] for i in ia]
                lb = [b.legs[i] for i in ib]
        except TypeError:
            n = int(axes)
            t += ['axes=int:' + type(axes).__name__, 'ncontract=%s' % nclass(n, 3)]
            la = a.legs[-n:] if n else a.legs[0:]
            lb = b.legs[:n]
        except Exception:
            t.append('axes=unresolvable')
            return t
        if 'pre=axes-lengths-differ' not in t:
            try:
                for l1, l2 in zip(la, lb):
                    l1.test_contractible(l2)
                t.append('legs=contractible')
            except ValueError:
                t.append('legs=not-contractible')
            t.append('contract=%s' % ('all-a' if n == a.rank else 'part-a') + ('+all-b' if n == b.rank else '+part-b'))
            t += ['lay_a=' + lay(a), 'lay_b=' + lay(b)]
    except Exception as e:
        t.append('arg=unclassified:' + type(e).__name__)
    return t


def lexkey(r):
    return tuple(reversed(r))


def c_tensordot_worker(a, b, axes):
    t = arr_tags(a, '_a') + arr_tags(b, '_b')
    try:
        axes = int(axes)
        cut_a, cut_b = a.rank - axes, axes
        res = np.promote_types(a.dtype, b.dtype)
        calc = 'c16' if res.kind == 'c' else 'f8'
        t += ['calc=' + calc, 'res=' + dt(res), 'res-cast=%d' % (dt(res) != calc), 'cast_a=%d' % (dt(a.dtype) != calc),
              'cast_b=%d' % (dt(b.dtype) != calc), 'keep_a=%s' % nclass(cut_a, 3), 'keep_b=%s' % nclass(b.rank - cut_b, 3),
              'ncontract=%s' % nclass(axes, 3), 'res_rank=%s' % nclass(cut_a + b.rank - cut_b, 5)]
        t += ['%s&lay_a=%s' % (calc, lay(a)), '%s&lay_b=%s' % (calc, lay(b))]
        na, nb = len(a._data), len(b._data)
        if na == 0 or nb == 0 or (na == 1 and nb == 1):
            return t + ['pre=single-or-no-blocks']
        qn = a.chinfo.qnumber
        aq, bq = np.asarray(a._qdata), np.asarray(b._qdata)
        A, B = {}, {}
        for r in rows(aq):
            A.setdefault(r[:cut_a], set()).add(r[cut_a:])
        for r in rows(bq):
            B.setdefault(r[cut_b:], set()).add(r[:cut_b])
        t += ['rows_a=%s' % nclass(len(A), 2), 'cols_b=%s' % nclass(len(B), 2)]
        if len(A) < na:
            t.append('row-with-several-blocks')
        if len(B) < nb:
            t.append('col-with-several-blocks')
        mod = np.asarray(a.chinfo.mod)

        def valid(x):
            x = np.asarray(x)
            return tuple(int(v) for v in np.where(mod == 1, x, x % np.where(mod == 1, 1, mod)))
        qtot = valid(np.asarray(a.qtotal) + np.asarray(b.qtotal))
        ca = {k: valid(sum(l.qconj * np.asarray(l.charges)[i] for l, i in zip(a.legs[:cut_a], k)) if k else np.zeros(qn, int)) for k in A}
        cb = {k: valid(np.asarray(qtot) - sum(l.qconj * np.asarray(l.charges)[i] for l, i in zip(b.legs[cut_b:], k)) if k
                       else np.asarray(qtot)) for k in B}
        nres = nmax = 0
        lv = set()
        nocommon = False
        for kb, cq in cb.items():
            for ka, aqc in ca.items():
                if aqc == cq:
                    nmax += 1
                    c = len(A[ka] & B[kb])
                    lv.add(min(c, 3))
                    if c:
                        nres += 1
                    else:
                        nocommon = True
        t.append('res-blocks=%s' % ('0' if nres == 0 else ('1-63' if nres < 64 else '64+')))
        t.append('res<max=%d' % (nres < nmax))
        if nres and nres < nmax:
            t.append('res<max=1&res>0')
        if nres and dt(res) != calc:
            t.append('res-cast=1&res>0')
        if any(c >= 2 for c in lv):
            t.append('%s&levels>=2' % calc)
        if nocommon:
            t.append('charge-match-without-common-inner-index')
            if cut_a == 0:
                t.append('keep_a=0&no-common-inner-index')
            if cut_b == b.rank:
                t.append('keep_b=0&no-common-inner-index')
        for c in lv:
            t.append('levels=%s' % ('0' if c == 0 else ('1' if c == 1 else ('2' if c == 2 else '3+'))))
        if qn > 0:
            sa, sb = sorted(set(ca.values()), key=lexkey), sorted(set(cb.values()), key=lexkey)
            if len(set(ca.values())) < len(ca):
                t.append('rows-same-charge')
            if len(set(cb.values())) < len(cb):
                t.append('cols-same-charge')
            # a simulation of the walk over the two sorted charge lists
            i = j = 0
            while i < len(sa) and j < len(sb):
                ka, kb = lexkey(sa[i]), lexkey(sb[j])
                if ka > kb:
                    t.append('walk:a>b')
                    if len(sa[i]) > 1 and sa[i][-1] == sb[j][-1]:
                        t.append('walk:decided-by-earlier-column')
                    j += 1
                elif ka < kb:
                    t.append('walk:a<b')
                    if len(sa[i]) > 1 and sa[i][-1] == sb[j][-1]:
                        t.append('walk:decided-by-earlier-column')
                    i += 1
                else:
                    t.append('walk:match')
                    i += 1
                    j += 1
            if j < len(sb):
                t.append('walk:cols-left-over')
            if i < len(sa):
                t.append('walk:rows-left-over')
    except Exception as e:
        t.append('arg=unclassified:' + type(e).__name__)
    return t


# ------------------------------------------------------------------------------------------------

PAIRS = {   # python name of the pair -> (owner getter, attribute, classifier)
    'ChargeInfo.make_valid': (lambda: chg.ChargeInfo, 'make_valid', c_make_valid),
    'ChargeInfo.check_valid': (lambda: chg.ChargeInfo, 'check_valid', c_check_valid),
    'LegPipe._init_from_legs': (lambda: chg.LegPipe, '_init_from_legs', c_init_from_legs),
    '_find_row_differences': (lambda: chg, '_find_row_differences', c_find_row_differences),
    '_map_blocks': (lambda: chg, '_map_blocks', c_map_blocks),
    '_sliced_copy': (lambda: chg, '_sliced_copy', c_sliced_copy),
    '_make_stride': (lambda: chg, '_make_stride', c_make_stride),
    'Array.itranspose': (lambda: npc.Array, 'itranspose', c_itranspose),
    'Array.iadd_prefactor_other': (lambda: npc.Array, 'iadd_prefactor_other', c_iadd_prefactor_other),
    'Array.iscale_prefactor': (lambda: npc.Array, 'iscale_prefactor', c_iscale_prefactor),
    'Array._imake_contiguous': (lambda: npc.Array, '_imake_contiguous', c_imake_contiguous),
    '_combine_legs_worker': (lambda: npc, '_combine_legs_worker', c_combine_legs_worker),
    '_split_legs_worker': (lambda: npc, '_split_legs_worker', c_split_legs_worker),
    '_inner_worker': (lambda: npc, '_inner_worker', c_inner_worker),
    '_tensordot_transpose_axes': (lambda: npc, '_tensordot_transpose_axes', c_tensordot_transpose_axes),
    '_tensordot_worker': (lambda: npc, '_tensordot_worker', c_tensordot_worker),
}


SAMPLED = ('ChargeInfo.make_valid', 'ChargeInfo.check_valid', '_make_stride', '_find_row_differences')


def _wrap(pair, orig, classify):
    import functools

    sampled = pair in SAMPLED
    cnt = [0]

    @functools.wraps(orig)
    def recorder(*args, **kw):
        if not ACTIVE[0] or DEPTH[0] > 0:
            return orig(*args, **kw)
        if sampled and not STREAM[0].startswith('kernels'):
            # called tens of thousands of times from inside every program: classify every 8th call only (direct helper calls: all)
            cnt[0] += 1
            if cnt[0] % 8:
                d = TAGS.setdefault(pair, {}).setdefault('calls', {})
                d[STREAM[0]] = d.get(STREAM[0], 0) + 1
                return orig(*args, **kw)
        DEPTH[0] += 1                 # the classifiers call tenpy functions themselves: do not record those
        try:
            try:
                tags = classify(*args, **kw)
            except Exception as e:
                tags = ['classifier-failed:' + type(e).__name__]
        finally:
            DEPTH[0] -= 1
        try:
            r = orig(*args, **kw)
        except BaseException as e:
            hit(pair, tags + ['outcome=raise:' + type(e).__name__])
            raise
        hit(pair, tags + ['outcome=ok'])
        return r
    recorder.__c04_wrapped__ = orig
    return recorder


def install():
    """wrap every paired function once; returns the list of names that could not be wrapped"""
    bad = []
    for pair, (owner, attr, classify) in PAIRS.items():
        try:
            o = owner()
            orig = o.__dict__[attr] if isinstance(o, type) else getattr(o, attr)
            if getattr(orig, '__c04_wrapped__', None) is not None:
                continue
            setattr(o, attr, _wrap(pair, orig, classify))
        except Exception as e:
            bad.append('%s: %s' % (pair, e))
    # names imported into other namespaces at import time
    ACTIVE[0] = True
    return bad


def take():
    """counters collected so far (and reset)"""
    out = {k: dict(v) for k, v in TAGS.items()}
    TAGS.clear()
    return out


def merge(total, part):
    for k, d in (part or {}).items():
        t = total.setdefault(k, {})
        for tag, e in d.items():
            te = t.setdefault(tag, {})
            for st, n in e.items():
                te[st] = te.get(st, 0) + n
    return total


# ------------------------------------------------------------------------------------------------
# line recording of the Python twins (pure-Python configuration)
# ------------------------------------------------------------------------------------------------

PY_ONLY_HELPERS = {     # executed by the Python twins only (the compiled twins have their own cdef versions)
    'tenpy.linalg.np_conserved': ['_iter_common_sorted', '_tensordot_pre_worker', '_tensordot_pre_reshape', '_find_calc_dtype',
                                  'Array.ibinary_blockwise', 'Array.iunary_blockwise', 'Array._iset_dtype'],
    'tenpy.linalg.charges': ['_partial_qtotal'],
}


def _walk_code(code):
    yield code
    for c in code.co_consts:
        if hasattr(c, 'co_code'):
            yield from _walk_code(c)


class LineCov:
    def __init__(self):
        self.codes = {}
        self.hits = set()
        self.exe = {}
        self.on = False

    def start(self, originals):
        """originals: {key: function object (unwrapped)}"""
        mon = getattr(sys, 'monitoring', None)
        if mon is None:
            return
        try:
            mon.use_tool_id(mon.COVERAGE_ID, 'c04cov')
        except ValueError:
            return
        for key, fn in originals.items():
            code = getattr(fn, '__code__', None)
            if code is None:
                self.exe[key] = None
                continue
            lines = set()
            for c in _walk_code(code):
                self.codes[c] = key
                lines |= {l for (_, _, l) in c.co_lines() if l is not None}
                mon.set_local_events(mon.COVERAGE_ID, c, mon.events.LINE)
                if c is not code:
                    lines.discard(c.co_firstlineno) if False else None
            lines.discard(code.co_firstlineno)
            self.exe[key] = sorted(lines)

        def cb(code, line):
            k = self.codes.get(code)
            if k is not None:
                self.hits.add((k, line))
            return mon.DISABLE
        mon.register_callback(mon.COVERAGE_ID, mon.events.LINE, cb)
        self.on = True

    def take(self):
        out = {}
        for k, l in self.hits:
            out.setdefault(k, []).append(l)
        return {k: sorted(v) for k, v in out.items()}


LINES = LineCov()


def start_lines():
    import importlib
    orig = {}
    for pair, (owner, attr, _) in PAIRS.items():
        o = owner()
        f = o.__dict__[attr] if isinstance(o, type) else getattr(o, attr)
        f = getattr(f, '__c04_wrapped__', f)
        orig[pair] = f
    for modname, names in PY_ONLY_HELPERS.items():
        mod = importlib.import_module(modname)
        for nm in names:
            obj = mod
            try:
                for part in nm.split('.'):
                    obj = getattr(obj, part)
                orig['helper:' + nm] = obj
            except AttributeError:
                orig['helper:' + nm] = None
    LINES.start(orig)
    import linecache
    src, text = {}, {}
    for k, f in orig.items():
        c = getattr(f, '__code__', None)
        src[k] = None if c is None else [c.co_filename, c.co_firstlineno]
        if c is not None:
            # the source text as THIS process loaded it (the tree may be edited while the check runs)
            text[k] = {str(l): linecache.getline(c.co_filename, l).strip() for l in (LINES.exe.get(k) or [])}
    return {'executable': LINES.exe, 'where': src, 'text': text}
