"""C20 coverage audit: helper module of harness/impl/c20_impl.py (imported by it, never run on its own).

* cov_start() / cov_report(): line coverage of tenpy/tools/{cache,thread,events}.py measured with sys.monitoring
  (LINE events switched on only for the code objects of these three modules, every location disabled after its
  first hit: no measurable overhead, all threads), plus the reflected public API (classes, methods, parameters).
* further runner kinds
    'openopts'  CacheFile.open / DictCache.trivial / CacheFile.trivial with the documented options (delete,
                directory / filename / tmpdir, mode, subgroup, use_threading, max_queue_size), every way of
                ending (close(), __exit__, `with`, `with` + exception in the body), the file system and the
                open file descriptors below the scratch directory observed afterwards, optional re-opening
    'worker'    tenpy.tools.thread.Worker used directly (put_task with args / kwargs / return_dict, join_tasks,
                failing tasks, __enter__ / __exit__ / `with`, use before start / after the end)
    'evapi'     several EventHandlers (copy() of any handler at any time, work goes on on originals and copies),
                connect in all documented forms incl. connect_by_name, emit with keyword arguments,
                id_of_last_connected, arg_descr
"""
import inspect
import os
import pickle
import shutil
import sys
import tempfile
import threading
import time
import warnings

ANCHORED = ('cache', 'thread', 'events')
_cov = {'hit': set(), 'codes': []}
TOOL = 3


def _walk_code(code, out):
    out.append(code)
    for c in code.co_consts:
        if inspect.iscode(c):
            _walk_code(c, out)


def cov_start():
    import tenpy.tools.cache as m1, tenpy.tools.thread as m2, tenpy.tools.events as m3  # noqa: E401
    mon = sys.monitoring
    try:
        mon.use_tool_id(TOOL, 'c20cov')
    except ValueError:
        return
    codes = []
    for m in (m1, m2, m3):
        src = open(m.__file__).read()
        _walk_code(compile(src, m.__file__, 'exec'), [])     # (syntax check only)
        for name, obj in vars(m).items():
            if inspect.isclass(obj) and obj.__module__ == m.__name__:
                for an, a in vars(obj).items():
                    f = a.__func__ if isinstance(a, (classmethod, staticmethod)) else (a.fget if isinstance(a, property) else a)
                    if inspect.isfunction(f):
                        _walk_code(f.__code__, codes)
            elif inspect.isfunction(obj) and obj.__module__ == m.__name__:
                _walk_code(obj.__code__, codes)
    hit = _cov['hit']

    def on_line(code, line):
        hit.add((code.co_filename, code.co_qualname, line))
        return mon.DISABLE
    mon.register_callback(TOOL, mon.events.LINE, on_line)
    files = set(m.__file__ for m in (m1, m2, m3))
    codes[:] = [c for c in codes if c.co_filename in files]       # (not the generated methods of the namedtuple)
    for c in codes:
        mon.set_local_events(TOOL, c, mon.events.LINE)
    _cov['codes'] = codes


def _api():
    """public API of the three anchored modules by reflection: class -> member -> parameter list"""
    import collections.abc
    import tenpy.tools.cache as m1, tenpy.tools.thread as m2, tenpy.tools.events as m3  # noqa: E401
    api = {}
    for m in (m1, m2, m3):
        for cname in m.__all__:
            cls = getattr(m, cname)
            if not inspect.isclass(cls):
                api[cname] = {'<function>': _params(cls)}
                continue
            members = {}
            for klass in cls.__mro__:
                if klass.__module__ not in (m1.__name__, m2.__name__, m3.__name__) and klass not in (
                        collections.abc.MutableMapping, collections.abc.Mapping):
                    continue
                for an, a in vars(klass).items():
                    if an in members or an in ('__module__', '__doc__', '__dict__', '__weakref__', '__qualname__', '__slots__',
                                               '__abstractmethods__', '_abc_impl', '__firstlineno__', '__static_attributes__',
                                               '__orig_bases__', '__parameters__', '__class_getitem__', '__reversed__',
                                               '__subclasshook__', '__hash__', '__match_args__', '__new__', '__getnewargs__',
                                               '__replace__'):
                        continue
                    f = a.__func__ if isinstance(a, (classmethod, staticmethod)) else (a.fget if isinstance(a, property) else a)
                    if an.startswith('_') and not (an.startswith('__') and an.endswith('__')):
                        continue        # private helper: measured through its public callers
                    if not callable(f):
                        members[an] = {'defined_in': klass.__name__, 'params': None}
                        continue
                    code = getattr(f, '__code__', None)
                    if klass.__module__ in (m1.__name__, m2.__name__, m3.__name__) and (
                            code is None or code.co_filename not in (m1.__file__, m2.__file__, m3.__file__)):
                        continue        # generated methods of the namedtuple Listener
                    members[an] = {'defined_in': klass.__name__, 'params': _params(f)}
            api[cname] = members
    return api


def _params(f):
    try:
        sig = inspect.signature(f)
    except (TypeError, ValueError):
        return None
    return [[p.name if p.kind not in (p.VAR_POSITIONAL, p.VAR_KEYWORD) else ('*' if p.kind == p.VAR_POSITIONAL else '**') + p.name,
             p.default is not p.empty]
            for p in sig.parameters.values() if p.name not in ('self', 'cls')]


def cov_report():
    hit = {}
    for fn, qn, line in _cov['hit']:
        hit.setdefault((fn, qn), set()).add(line)
    funcs = {}
    src = {}
    for c in _cov['codes']:
        if c.co_filename not in src:
            src[c.co_filename] = open(c.co_filename).read().split('\n')
        lines = sorted(set(l for _, _, l in c.co_lines() if l is not None and l != c.co_firstlineno))
        key = os.path.basename(c.co_filename)[:-3] + '::' + c.co_qualname
        h = hit.get((c.co_filename, c.co_qualname), set()) & set(lines)
        funcs[key] = {'n': len(lines), 'hit': len(h), 'first': c.co_firstlineno,
                      'missed': [[l, src[c.co_filename][l - 1].strip()[:90]] for l in lines if l not in h]}
    return {'__cov__': funcs, 'api': _api()}


# =========================================================================================================
# CacheFile.open options, every way of closing, observed on the file system
# =========================================================================================================

class _Sentinel(Exception):
    pass


def _listing(tmp):
    out = []
    for root, dirs, files in os.walk(tmp):
        rel = os.path.relpath(root, tmp)
        for d in dirs:
            out.append(os.path.normpath(os.path.join(rel, d)) + '/')
        for f in files:
            out.append(os.path.normpath(os.path.join(rel, f)))
    return sorted(out)


def _open_fds(tmp):
    out = []
    try:
        for fd in os.listdir('/proc/self/fd'):
            try:
                t = os.readlink('/proc/self/fd/' + fd)
            except OSError:
                continue
            if t.startswith(tmp):
                out.append(os.path.relpath(t.split(' (deleted)')[0], tmp) + (' (deleted)' if t.endswith('(deleted)') else ''))
    except OSError:
        return None
    return sorted(out)


def _disk_content(case, tmp, top, names):
    """what a closed cache with delete=False left on disk: list of [path of sub-cache names, [[key, value], ...]]"""
    import c20_impl
    out = []
    if case['storage'] == 'PickleStorage':
        for path in names:
            d = os.path.join(top, *path)
            files = []
            for fn in sorted(os.listdir(d)) if os.path.isdir(d) else []:
                if fn.endswith('.pkl') and fn.startswith('k'):
                    with open(os.path.join(d, fn), 'rb') as f:
                        files.append([int(fn[1:-4]), c20_impl.canon(pickle.load(f))])
            out.append([list(path), sorted(files, key=lambda x: x[0]), os.path.isdir(d)])
    elif case['storage'] == 'Hdf5Storage':
        import h5py
        from tenpy.tools.hdf5_io import load_from_hdf5
        with h5py.File(top, 'r') as f:
            sg = case['open'].get('subgroup')
            g0 = f[sg] if sg else f
            for path in names:
                g = g0
                ok = True
                for n in path:
                    if n in g:
                        g = g[n]
                    else:
                        ok = False
                files = []
                if ok:
                    for k in sorted(g.keys()):
                        if k.startswith('k') and k[1:].isdigit():
                            files.append([int(k[1:]), c20_impl.canon(load_from_hdf5(g, k))])
                out.append([list(path), sorted(files, key=lambda x: x[0]), ok])
    return out


def open_with_options(case, tmp):
    from tenpy.tools.cache import CacheFile, DictCache
    o = case['open']
    how = o.get('how', 'open')
    if how == 'DictCache.trivial':
        return DictCache.trivial(), None
    if how == 'CacheFile.trivial':
        return CacheFile.trivial(), None
    kw = {}
    top = None
    if case['storage'] == 'PickleStorage':
        if o['loc'] == 'directory':
            top = kw['directory'] = os.path.join(tmp, 'named_dir') if not o.get('pathlib') else __import__('pathlib').Path(tmp) / 'named_dir'
            top = str(top)
        else:
            kw['tmpdir'] = tmp
    elif case['storage'] == 'Hdf5Storage':
        if o['loc'] == 'filename':
            top = kw['filename'] = os.path.join(tmp, 'named.h5')
        else:
            kw['tmpdir'] = tmp
        if o.get('subgroup') is not None:
            kw['subgroup'] = o['subgroup']
        if o.get('mode') is not None:
            kw['mode'] = o['mode']
    if 'delete' in o:
        kw['delete'] = o['delete']
    if case.get('threading') is not None:
        kw['use_threading'] = case['threading']
    if case.get('max_queue_size') is not None:
        kw['max_queue_size'] = case['max_queue_size']
    if o.get('storage_class_default'):
        c = CacheFile.open(**kw)
    else:
        c = CacheFile.open(case['storage'], **kw)
    if top is None and case['storage'] != 'Storage':
        ls = os.listdir(tmp)
        top = os.path.join(tmp, ls[0]) if len(ls) == 1 else None
        if top and case['storage'] == 'Hdf5Storage':
            top = os.path.join(top, 'cache.h5')
    return c, top


def run_openopts_body(case, res):
    import c20_impl
    tmp = tempfile.mkdtemp(prefix='c20o_', dir=os.environ.get('C20_TMP'))
    res['sessions'] = []
    try:
        for sess in [case] + [dict(case, **s) for s in case.get('reopen', [])]:
            sr = {'out': []}
            res['sessions'].append(sr)
            res['out'] = sr['out']         # (the deadline report counts outputs)
            try:
                cache, top = open_with_options(sess, tmp)
            except Exception as e:
                sr['open'] = ['exc', type(e).__name__, str(e)[:100]]
                sr['fds_after'] = _open_fds(tmp)
                sr['fs_after'] = _listing(tmp)
                continue
            sr['open'] = ['ok', type(cache).__name__, type(cache.long_term_storage).__name__]
            sr['top'] = os.path.relpath(top, tmp) if top else None
            sr['fs_open'] = _listing(tmp)
            caches = [cache]
            names = [()]
            c20_impl.inject(sess, cache)
            end = sess.get('end', 'close')
            storage0 = cache.long_term_storage

            def body():
                for op in sess['ops']:
                    o = c20_impl.cache_op(caches, op)
                    sr['out'].append(o)
                    if op[0] == 'sub' and o == ['none']:
                        names.append(names[op[1]] + (op[2],))
            try:
                if end in ('with', 'with-exc'):
                    try:
                        with cache as c2:
                            sr['enter_is_self'] = c2 is cache
                            body()
                            if end == 'with-exc':
                                raise _Sentinel('from the body')
                        sr['end'] = ['none']
                    except _Sentinel:
                        sr['end'] = ['sentinel']
                else:
                    if end == 'enter-exit':
                        sr['enter_is_self'] = cache.__enter__() is cache
                    body()
                    if hasattr(cache, 'close'):
                        if end in ('exit', 'enter-exit'):
                            r = cache.__exit__(None, None, None)
                            sr['end'] = ['none'] if not r else ['truthy']
                        else:
                            cache.close()
                            sr['end'] = ['none']
                    else:
                        sr['end'] = ['no-close']
            except Exception as e:
                sr['end'] = ['exc', type(e).__name__, str(e)[:100]]
            sr['storage_same'] = cache.long_term_storage is storage0
            # ---- after the end
            sr['bool_after'] = [bool(c) for c in caches]
            sr['short_term_after'] = [len(c.short_term_cache) for c in caches]
            after = []
            for ci, k in sess.get('probe', []):
                after.append(c20_impl.cache_op(caches, ['getitem', ci, k]) if ci < len(caches) else ['no-such-cache'])
            sr['probe_after'] = after
            try:
                cache.close()
                sr['second_close'] = ['none']
            except Exception as e:
                sr['second_close'] = ['exc', type(e).__name__]
            w = getattr(cache.long_term_storage, 'worker', None)
            if w is not None:
                w.worker_thread.join(2.0)
                sr['worker_alive_after'] = w.worker_thread.is_alive()
            sr['fds_after'] = _open_fds(tmp)
            sr['fs_after'] = _listing(tmp)
            if top and os.path.exists(top):
                try:
                    sr['disk_after'] = _disk_content(sess, tmp, top, names)
                except Exception as e:
                    sr['disk_after'] = ['exc', type(e).__name__, str(e)[:100]]
    finally:
        shutil.rmtree(tmp, ignore_errors=True)
    res['done'] = True


# =========================================================================================================
# Worker used directly
# =========================================================================================================

def run_worker_body(case, res):
    from tenpy.tools.thread import Worker, WorkerDied
    log = []
    results = {}
    out = res['out']

    def f_add(a, b, seq=None):
        log.append(seq)
        return a + b

    def f_mul(a, b=1, seq=None):
        log.append(seq)
        return a * b

    def f_sleep(a, b=0, seq=None):
        time.sleep(0.0005 * (a % 5))
        log.append(seq)
        return a - b

    def f_raise(a, b=0, seq=None):
        log.append(seq)
        raise RuntimeError('injected failure of a task')
    def f_slow(a, b=0, seq=None):         # longer than the 1 s time-out of Queue.put in Worker.put_task
        time.sleep(1.15)
        log.append(seq)
        return a - b

    def f_slowraise(a, b=0, seq=None):
        time.sleep(0.25)
        log.append(seq)
        raise RuntimeError('injected failure of a task')
    fns = {'add': f_add, 'mul': f_mul, 'sleep': f_sleep, 'raise': f_raise, 'slow': f_slow, 'slowraise': f_slowraise}
    kw = {}
    if case.get('name') is not None:
        kw['name'] = case['name']
    if case.get('max_queue_size') is not None:
        kw['max_queue_size'] = case['max_queue_size']
    if case.get('daemon') is not None:
        kw['daemon'] = case['daemon']
    if case.get('positional'):
        worker = Worker(case.get('name') or 'tenpy worker', case.get('max_queue_size') or 0)
    else:
        worker = Worker(**kw)
    res['name_attr'] = worker.name
    res['thread_name'] = worker.worker_thread.name
    res['thread_daemon'] = worker.worker_thread.daemon
    res['maxsize'] = worker.tasks.maxsize
    nseq = [0]

    def do(op):
        kind = op[0]
        try:
            if kind == 'put':
                _, fn, a, b, how, ret = op
                seq = nseq[0]
                rk = {} if ret is None else {'return_dict': results, 'return_key': 'r%d' % ret}
                if ret == -1:       # return_dict given, return_key left at its default None
                    rk = {'return_dict': results}
                if how == 'args':
                    worker.put_task(fns[fn], a, b, seq, **rk)
                elif how == 'kwargs':
                    worker.put_task(fns[fn], a=a, b=b, seq=seq, **rk)
                else:
                    worker.put_task(fns[fn], a, seq=seq, b=b, **rk)
                nseq[0] += 1        # (a put_task that raised queued nothing)
                return ['none']
            if kind == 'join':
                worker.join_tasks()
                return ['joined', sorted([k, v] for k, v in results.items() if k is not None) +
                        ([['None', results[None]]] if None in results else []), list(log)]
            if kind == 'enter':
                r = worker.__enter__()
                return ['entered', r is worker]
            if kind == 'exit':
                r = worker.__exit__(None, None, None)
                return ['exited', bool(r), worker.worker_thread.is_alive()]
            if kind == 'alive':
                return ['alive', worker.worker_thread.is_alive()]
            raise ValueError(kind)
        except Exception as e:
            return ['exc', type(e).__name__, str(e)[:60]]
    for op in case.get('before', []):
        out.append(do(op))
    style = case.get('enter', 'with')
    res['with_end'] = None
    if style in ('with', 'with-exc'):
        try:
            with worker as w2:
                res['enter_is_self'] = w2 is worker
                for op in case['ops']:
                    out.append(do(op))
                if style == 'with-exc':
                    raise _Sentinel()
            res['with_end'] = 'none'
        except _Sentinel:
            res['with_end'] = 'sentinel'
        except Exception as e:
            res['with_end'] = type(e).__name__
    else:
        for op in case['ops']:
            out.append(do(op))
    for op in case.get('after', []):
        out.append(do(op))
    t0 = time.time()
    try:
        worker.__exit__(None, None, None)
        res['final_exit'] = 'ok'
    except Exception as e:
        res['final_exit'] = type(e).__name__
    if worker._entered:
        worker.worker_thread.join(3.0)
    res['alive_end'] = worker.worker_thread.is_alive()
    res['log_end'] = list(log)
    res['results_end'] = (sorted([k, v] for k, v in results.items() if k is not None) +
                          ([['None', results[None]]] if None in results else []))
    res['exit_set_end'] = worker.exit.is_set()
    res['exit_s'] = time.time() - t0
    res['done'] = True


# =========================================================================================================
# EventHandler: several handlers, all forms of connect
# =========================================================================================================

def run_evapi(case):
    from tenpy.tools.events import EventHandler, Listener
    import c20cov_listeners_impl as L
    descr = case.get('descr')
    hs = [EventHandler(descr) if descr is not None else EventHandler()]
    nid = [0]           # expected next id per handler (what the documentation promises)
    calls = L.CALLS
    out = []

    def mk(tag, ret):
        def cb(x, extra=0):
            calls.append([tag, x, extra])
            return ret
        return cb
    for op in case['ops']:
        kind, h = op[0], op[1]
        eh = hs[h]
        del calls[:]
        with warnings.catch_warnings(record=True) as w:
            warnings.simplefilter('always')
            try:
                if kind == 'connect':
                    _, _, prio, ret, how = op
                    tag = nid[h]
                    cb = mk(tag, ret)
                    if how == 'direct':
                        r = eh.connect(cb, prio)
                        assert r is cb
                    elif how == 'kw':
                        r = eh.connect(callback=cb, priority=prio)
                        assert r is cb
                    elif how == 'kwargs':
                        r = eh.connect(cb, priority=prio, extra_kwargs={'extra': 7})
                        assert r is cb
                    elif how == 'decorator':
                        r = eh.connect(priority=prio)(cb)
                        assert r is cb
                    elif how == 'plain-decorator':      # @eh.connect: priority stays 0
                        r = eh.connect(cb)
                        assert r is cb
                    elif how == 'byname':
                        r = eh.connect_by_name('c20cov_listeners_impl', 'named', {'tag': tag, 'ret': ret}, prio)
                        assert r is None
                    elif how == 'byname-kw':
                        r = eh.connect_by_name(module_name='c20cov_listeners_impl', func_name='Holder.cb', priority=prio,
                                               extra_kwargs={'tag': tag, 'ret': ret, 'extra': 7})
                    elif how == 'byname-default':       # extra_kwargs None, priority 0
                        r = eh.connect_by_name('c20cov_listeners_impl', 'plain%d' % tag)
                    else:
                        raise ValueError(how)
                    nid[h] += 1
                    o = ['connected', eh.id_of_last_connected]
                    lst = eh.listeners[-1]
                    assert isinstance(lst, Listener) and isinstance(lst.extra_kwargs, dict) and callable(lst.callback)
                elif kind == 'disconnect':
                    eh.disconnect(op[2])
                    o = ['disconnected']
                elif kind in ('emit', 'emit_until'):
                    f = eh.emit if kind == 'emit' else eh.emit_until_result
                    res = f(x=op[2]) if op[3] else f(op[2])
                    o = [kind, [c[0] for c in calls], res, [c[1] for c in calls], [c[2] for c in calls]]
                elif kind == 'copy':
                    cp = eh.copy()
                    hs.append(cp)
                    nid.append(nid[h])
                    o = ['copied', cp is not eh and cp.listeners is not eh.listeners, cp.arg_descr == eh.arg_descr]
                elif kind == 'last_id':
                    o = ['last_id', eh.id_of_last_connected]
                elif kind == 'descr':
                    o = ['descr', eh.arg_descr]
                else:
                    raise ValueError(kind)
            except Exception as e:
                o = ['exc', type(e).__name__, str(e)[:100]]
        o.append({'warned': len(w) > 0, 'ids': [l.listener_id for l in eh.listeners],
                  'prios': [l.priority for l in eh.listeners]})
        out.append(o)
    final = [{'ids': [l.listener_id for l in e.listeners], 'prios': [l.priority for l in e.listeners], 'counter': e._id_counter}
             for e in hs]
    return {'out': out, 'final': final}
