"""Runs DMRG / VUMPS of tenpy on the cases of harness/c13.py (fresh interpreter).  Finite DMRG runs are instrumented from
outside (env.get_LP/get_RP/set_LP/set_RP/del_LP/del_RP, env._contract_LP/_contract_RP, psi.set_B,
engine.free_no_longer_needed_envs) to record the schedule, the stored environments after every local update and whether
every environment that was read had been contracted from the current versions of the sites.  Infinite DMRG runs with
'trace_inf' are instrumented the same way (InfEnvTracer) for the correspondence with Model/SweepInf.v."""
import json
import os
import sys
import traceback
import warnings

import numpy as np

warnings.simplefilter('ignore')


def make_model(case):
    from tenpy.models.tf_ising import TFIChain
    from tenpy.models.xxz_chain import XXZChain
    from tenpy.models.fermions_spinless import FermionChain
    from tenpy.models.model import CouplingMPOModel
    from tenpy.networks.site import SpinHalfSite
    m = case['model']
    L = case['L']
    bc = case['bc']
    common = {'L': L, 'bc_MPS': bc}
    if m.get('explicit_plus_hc') and m['name'] != 'longrange':
        # documented option of every CouplingMPOModel: the MPO stores only half of each hermitian-conjugate pair, H = H_MPO + h.c.
        common['explicit_plus_hc'] = True
    if m['name'] == 'tfi':
        return TFIChain(dict(common, J=m['J'], g=m['g'], conserve=m['conserve']))
    if m['name'] == 'xxz':
        if m.get('explicit_plus_hc'):
            # (XXZChain is written by hand and has no such option; XXZChain2 is the CouplingMPOModel of the same Hamiltonian and parameters)
            from tenpy.models.xxz_chain import XXZChain2
            return XXZChain2(dict(common, Jxx=m['Jxx'], Jz=m['Jz'], hz=m['hz']))
        return XXZChain(dict(common, Jxx=m['Jxx'], Jz=m['Jz'], hz=m['hz']))
    if m['name'] == 'fermion':
        return FermionChain(dict(common, J=m['J'], V=m['V'], mu=m['mu'], conserve=m['conserve']))
    if m['name'] == 'longrange':
        class LongRange(CouplingMPOModel):
            default_lattice = 'Chain'
            force_default_lattice = True

            def init_sites(self, model_params):
                return SpinHalfSite(conserve=model_params.get('conserve', 'Sz', str))

            def init_terms(self, model_params):
                for dx, Jr, Ji, Jz in model_params.get('couplings', None, list):
                    self.add_coupling(complex(Jr, Ji) / 2. if Ji != 0 else Jr / 2., 0, 'Sp', 0, 'Sm', dx, plus_hc=True)
                    self.add_coupling(Jz, 0, 'Sz', 0, 'Sz', dx)
                self.add_onsite(-model_params.get('hz', 0., 'real'), 0, 'Sz')
        pars = dict(common, conserve=m['conserve'], couplings=m['couplings'], hz=m['hz'])
        if m.get('explicit_plus_hc'):
            pars['explicit_plus_hc'] = True
        return LongRange(pars)
    raise ValueError(m['name'])


class EnvTracer:
    def __init__(self, eng):
        self.eng = eng
        env = eng.env
        psi = eng.psi
        L = psi.L
        self.L = L
        self.ver = [0] * L
        self.sh_L = {i: tuple([0] * i) for i in range(L) if env.has_LP(i)}
        self.sh_R = {i: tuple([0] * (L - 1 - i)) for i in range(L) if env.has_RP(i)}
        self.ctx = None
        self.read_L = {}
        self.read_R = {}
        self.steps = []
        self.reads = []
        self.problems = []
        o_getL, o_getR, o_setL, o_setR = env.get_LP, env.get_RP, env.set_LP, env.set_RP
        o_delL, o_delR, o_cL, o_cR = env.del_LP, env.del_RP, env._contract_LP, env._contract_RP
        o_setB = psi.set_B
        o_free = eng.free_no_longer_needed_envs
        o_cleanup = eng.mixer_cleanup
        # Sweep.mixer_cleanup (post_run_cleanup, when the last sweep still ran with a mixer) regauges the site tensors and the stored
        # environments consistently (same state, same contractions): not a new version of a site, the shadow tags stay as they are
        self.finished = False

        def mixer_cleanup():
            self.finished = True
            try:
                return o_cleanup()
            finally:
                self.finished = False

        def get_LP(i, store=True):
            if self.finished:
                return o_getL(i, store)
            outer = self.ctx
            self.ctx = {'tag': None, 'side': 'L'}
            try:
                res = o_getL(i, store)
            finally:
                c = self.ctx
                self.ctx = outer
            tag = c['tag'] if c['tag'] is not None else self.sh_L.get(i)
            fresh = tag is not None and tuple(tag) == tuple(self.ver[:i])
            self.reads.append(['L', i, bool(fresh)])
            self.read_L[i] = tag
            return res

        def get_RP(i, store=True):
            if self.finished:
                return o_getR(i, store)
            outer = self.ctx
            self.ctx = {'tag': None, 'side': 'R'}
            try:
                res = o_getR(i, store)
            finally:
                c = self.ctx
                self.ctx = outer
            tag = c['tag'] if c['tag'] is not None else self.sh_R.get(i)
            fresh = tag is not None and tuple(tag) == tuple(self.ver[i + 1:])
            self.reads.append(['R', i, bool(fresh)])
            self.read_R[i] = tag
            return res

        def cL(j, LP):
            c = self.ctx
            if c is not None and c['side'] == 'L':
                if c['tag'] is None:
                    c['tag'] = self.sh_L.get(j)
                    if c['tag'] is None:
                        self.problems.append('contract_LP(%d) from an untracked LP' % j)
                        c['tag'] = ('?',)
                c['tag'] = tuple(c['tag']) + (self.ver[j],)
            return o_cL(j, LP)

        def cR(j, RP):
            c = self.ctx
            if c is not None and c['side'] == 'R':
                if c['tag'] is None:
                    c['tag'] = self.sh_R.get(j)
                    if c['tag'] is None:
                        self.problems.append('contract_RP(%d) from an untracked RP' % j)
                        c['tag'] = ('?',)
                c['tag'] = (self.ver[j],) + tuple(c['tag'])
            return o_cR(j, RP)

        def set_LP(i, LP, age):
            c = self.ctx
            if self.finished:
                pass
            elif c is not None and c['side'] == 'L' and c['tag'] is not None:
                self.sh_L[i] = c['tag']
            elif self.read_L.get(i - 1) is not None:
                # EffectiveH.update_LP with combine=True: LHeff (from the LP read for eff_H) contracted with the new site i-1
                self.sh_L[i] = tuple(self.read_L[i - 1]) + (self.ver[i - 1],)
            else:
                self.problems.append('set_LP(%d) of unknown provenance' % i)
                self.sh_L[i] = ('?',)
            return o_setL(i, LP, age)

        def set_RP(i, RP, age):
            c = self.ctx
            if self.finished:
                pass
            elif c is not None and c['side'] == 'R' and c['tag'] is not None:
                self.sh_R[i] = c['tag']
            elif self.read_R.get(i + 1) is not None:
                self.sh_R[i] = (self.ver[i + 1],) + tuple(self.read_R[i + 1])
            else:
                self.problems.append('set_RP(%d) of unknown provenance' % i)
                self.sh_R[i] = ('?',)
            return o_setR(i, RP, age)

        def del_LP(i):
            self.sh_L.pop(i, None)
            return o_delL(i)

        def del_RP(i):
            self.sh_R.pop(i, None)
            return o_delR(i)

        def set_B(i, B, form='B'):
            if not self.finished:
                self.ver[i % L] += 1
            return o_setB(i, B, form)

        def free():
            r = o_free()
            up = eng.update_LP_RP
            self.steps.append({'i0': int(eng.i0), 'mr': bool(eng.move_right), 'upl': bool(up[0]), 'upr': bool(up[1]),
                               'LP': [i for i in range(L) if env.has_LP(i)], 'RP': [i for i in range(L) if env.has_RP(i)],
                               'reads': self.reads,
                               'qt': [[int(x) for x in B.qtotal] for B in psi._B],
                               'mix': 0 if eng.mixer is None else (1 if type(eng.mixer).__name__ == 'DensityMatrixMixer' else 2),
                               'current': bool(all(tuple(t) == tuple(self.ver[:i]) for i, t in self.sh_L.items()) and
                                               all(tuple(t) == tuple(self.ver[i + 1:]) for i, t in self.sh_R.items())),
                               'shadow_ok': sorted(self.sh_L) == [i for i in range(L) if env.has_LP(i)] and
                               sorted(self.sh_R) == [i for i in range(L) if env.has_RP(i)]})
            self.reads = []
            self.read_L = {}
            self.read_R = {}
            return r
        env.get_LP, env.get_RP, env.set_LP, env.set_RP = get_LP, get_RP, set_LP, set_RP
        env.del_LP, env.del_RP, env._contract_LP, env._contract_RP = del_LP, del_RP, cL, cR
        psi.set_B = set_B
        eng.free_no_longer_needed_envs = free
        eng.mixer_cleanup = mixer_cleanup


class InfEnvTracer:
    """Instrumentation of an INFINITE DMRG run (iDMRG) from outside, for the correspondence with Model/SweepInf.v.
    Every stored environment gets a shadow tag: the version numbers of the site tensors it was contracted from, nearest
    factor first (entry k of the LP stored at key i belongs to site (i-1-k) mod L, of the RP at key i to site (i+1+k) mod L).
    Recorded per local update (at free_no_longer_needed_envs): the schedule entry, the tags of the FIRST get_LP / get_RP
    of the step (those read for eff_H), and for every key 0..L-1 of the stored LP / RP the tag as booleans
    "factor was contracted from the version of the site that is current now" plus the age kept by the environment."""

    def __init__(self, eng):
        self.eng = eng
        env, psi = eng.env, eng.psi
        L = self.L = psi.L
        self.cap = 2 * L + 2
        self.ver = [0] * L
        self.problems = []
        self.sh_L = {i: () for i in range(L) if env.has_LP(i)}
        self.sh_R = {i: () for i in range(L) if env.has_RP(i)}
        self.init = {'LP': sorted(self.sh_L), 'RP': sorted(self.sh_R),
                     'ages': [[env._LP_age[i] for i in sorted(self.sh_L)], [env._RP_age[i] for i in sorted(self.sh_R)]]}
        self.ctx = None
        self.read_L, self.read_R = {}, {}
        self.first = {}
        self.steps = []
        # Sweep.mixer_cleanup (post_run_cleanup) regauges the site tensors and the stored environments consistently (same state, same
        # contractions): not a new version of a site, the shadow tags stay as they are while it runs
        self.finished = False
        o_getL, o_getR, o_setL, o_setR = env.get_LP, env.get_RP, env.set_LP, env.set_RP
        o_delL, o_delR, o_cL, o_cR = env.del_LP, env.del_RP, env._contract_LP, env._contract_RP
        o_setB = psi.set_B
        o_free = eng.free_no_longer_needed_envs
        o_cleanup = eng.mixer_cleanup
        o_prepare = eng.prepare_update_local
        ver = self.ver

        def prepare_update_local():
            # start of a local update: the first get_LP / get_RP from here on are the ones of make_eff_H
            self.first = {}
            self.read_L, self.read_R = {}, {}
            return o_prepare()

        def mixer_cleanup():
            self.finished = True
            try:
                return o_cleanup()
            finally:
                self.finished = False

        def bools_L(i, tag):
            return None if tag is None else [bool(v == ver[(i - 1 - k) % L]) for k, v in enumerate(tag[:self.cap])]

        def bools_R(i, tag):
            return None if tag is None else [bool(v == ver[(i + 1 + k) % L]) for k, v in enumerate(tag[:self.cap])]

        def get_LP(i, store=True):
            if self.finished:
                return o_getL(i, store)
            outer = self.ctx
            self.ctx = {'tag': None, 'side': 'L'}
            try:
                res = o_getL(i, store)
            finally:
                c = self.ctx
                self.ctx = outer
            tag = c['tag'] if c['tag'] is not None else self.sh_L.get(i % L)
            self.first.setdefault('L', [int(i), bools_L(i, tag)])
            self.read_L.setdefault(i % L, tag)
            return res

        def get_RP(i, store=True):
            if self.finished:
                return o_getR(i, store)
            outer = self.ctx
            self.ctx = {'tag': None, 'side': 'R'}
            try:
                res = o_getR(i, store)
            finally:
                c = self.ctx
                self.ctx = outer
            tag = c['tag'] if c['tag'] is not None else self.sh_R.get(i % L)
            self.first.setdefault('R', [int(i), bools_R(i, tag)])
            self.read_R.setdefault(i % L, tag)
            return res

        def cL(j, LP):
            c = self.ctx
            if c is not None and c['side'] == 'L':
                if c['tag'] is None:
                    c['tag'] = self.sh_L.get(j % L)
                    if c['tag'] is None:
                        self.problems.append('contract_LP(%d) from an untracked LP' % j)
                        c['tag'] = (-1,)
                c['tag'] = (ver[j % L],) + tuple(c['tag'])
            return o_cL(j, LP)

        def cR(j, RP):
            c = self.ctx
            if c is not None and c['side'] == 'R':
                if c['tag'] is None:
                    c['tag'] = self.sh_R.get(j % L)
                    if c['tag'] is None:
                        self.problems.append('contract_RP(%d) from an untracked RP' % j)
                        c['tag'] = (-1,)
                c['tag'] = (ver[j % L],) + tuple(c['tag'])
            return o_cR(j, RP)

        def set_LP(i, LP, age):
            c = self.ctx
            if self.finished:
                pass
            elif c is not None and c['side'] == 'L' and c['tag'] is not None:
                self.sh_L[i % L] = c['tag']
            elif c is None and self.read_L.get((i - 1) % L) is not None:
                # EffectiveH.update_LP with combine=True: LHeff (built from the LP read for eff_H) contracted with the new site i-1
                self.sh_L[i % L] = (ver[(i - 1) % L],) + tuple(self.read_L[(i - 1) % L])
            else:
                self.problems.append('set_LP(%d) of unknown provenance' % i)
                self.sh_L[i % L] = (-1,)
            return o_setL(i, LP, age)

        def set_RP(i, RP, age):
            c = self.ctx
            if self.finished:
                pass
            elif c is not None and c['side'] == 'R' and c['tag'] is not None:
                self.sh_R[i % L] = c['tag']
            elif c is None and self.read_R.get((i + 1) % L) is not None:
                self.sh_R[i % L] = (ver[(i + 1) % L],) + tuple(self.read_R[(i + 1) % L])
            else:
                self.problems.append('set_RP(%d) of unknown provenance' % i)
                self.sh_R[i % L] = (-1,)
            return o_setR(i, RP, age)

        def del_LP(i):
            self.sh_L.pop(i % L, None)
            return o_delL(i)

        def del_RP(i):
            self.sh_R.pop(i % L, None)
            return o_delR(i)

        def set_B(i, B, form='B'):
            if not self.finished:
                ver[i % L] += 1
            return o_setB(i, B, form)

        def free():
            r = o_free()
            up = eng.update_LP_RP
            hasL = [i for i in range(L) if env.has_LP(i)]
            hasR = [i for i in range(L) if env.has_RP(i)]
            if sorted(self.sh_L) != hasL or sorted(self.sh_R) != hasR:
                self.problems.append('shadow keys %s / %s differ from the stored keys %s / %s' % (sorted(self.sh_L), sorted(self.sh_R), hasL, hasR))
            self.steps.append({'i0': int(eng.i0), 'mr': bool(eng.move_right), 'upl': bool(up[0]), 'upr': bool(up[1]),
                               'readL': self.first.get('L'), 'readR': self.first.get('R'),
                               'LP': [None if i not in hasL else [bools_L(i, self.sh_L.get(i, (-1,))), env._LP_age[i]] for i in range(L)],
                               'RP': [None if i not in hasR else [bools_R(i, self.sh_R.get(i, (-1,))), env._RP_age[i]] for i in range(L)]})
            self.first = {}
            self.read_L, self.read_R = {}, {}
            return r
        env.get_LP, env.get_RP, env.set_LP, env.set_RP = get_LP, get_RP, set_LP, set_RP
        env.del_LP, env.del_RP, env._contract_LP, env._contract_RP = del_LP, del_RP, cL, cR
        psi.set_B = set_B
        eng.free_no_longer_needed_envs = free
        eng.mixer_cleanup = mixer_cleanup
        eng.prepare_update_local = prepare_update_local


class StopTracer:
    """Records, from outside, the discrete run protocol of IterativeSweeps.run (correspondence with Model/SweepStop.v): the value
    returned by every call of is_converged(), and for every optimisation sweep the sweep counter at its start, the chi_max in force
    and whether a mixer is active at its first local update (i.e. after the chi_list entry of this sweep has been applied)."""

    def __init__(self, eng):
        self.eng = eng
        self.convs = []
        self.sweeps = []
        self.pending = False
        o_conv, o_sweep, o_prep = eng.is_converged, eng.sweep, eng.prepare_update_local
        # whether a mixer is active when the main loop of run() has terminated (before post_run_cleanup, which is not part of the model)
        self.mixer_at_stop = None
        o_post = eng.post_run_cleanup

        def post_run_cleanup():
            self.mixer_at_stop = eng.mixer is not None
            return o_post()
        eng.post_run_cleanup = post_run_cleanup

        def is_converged():
            r = bool(o_conv())
            self.convs.append(r)
            return r

        def sweep(*a, **kw):
            optimize = kw.get('optimize', a[0] if a else True)
            self.pending = bool(optimize)
            return o_sweep(*a, **kw)

        def prepare_update_local():
            if self.pending:
                self.pending = False
                chi = eng.trunc_params.silent_get('chi_max', None)
                self.sweeps.append([int(eng.sweeps), None if chi is None else int(chi), eng.mixer is not None])
            return o_prep()
        eng.is_converged, eng.sweep, eng.prepare_update_local = is_converged, sweep, prepare_update_local


# ------------------------------------------------------------------------------ option-space strata ('ext' cases of harness/c13.py)
class _LogRecorder:
    """WARNING records of the tenpy loggers (the engines report some rarely taken branches only through logging)."""

    def __init__(self):
        import logging
        self.msgs = []
        rec = self

        class H(logging.Handler):
            def emit(self, record):
                try:
                    rec.msgs.append(record.getMessage()[:160])
                except Exception:
                    pass
        self.h = H(level=logging.WARNING)
        self.lg = logging.getLogger('tenpy')
        self.lg.addHandler(self.h)

    def close(self):
        self.lg.removeHandler(self.h)


def dense_state(case, psi):
    """amplitudes of a finite MPS in the product basis ordered as the oracle orders it (first label of every site = 0)."""
    L = psi.L
    th = psi.get_theta(0, L).to_ndarray()
    canon = {'tfi': ['up', 'down'], 'xxz': ['up', 'down'], 'longrange': ['up', 'down'], 'fermion': ['empty', 'full']}[case['model']['name']]
    for k, site in enumerate(psi.sites):
        th = np.take(th, [site.state_labels[nm] for nm in canon], axis=k + 1)
    th = th.reshape(-1) * psi.norm
    return [[float(x.real), float(x.imag)] for x in th]


def init_state(case, M):
    from tenpy.networks.mps import MPS
    L = case['L']
    sites = M.lat.mps_sites()
    kw = {'unit_cell_width': L} if case['bc'] == 'infinite' else {}
    if case.get('init_chi'):
        np.random.seed(7)
        psi = MPS.from_desired_bond_dimension(sites, case['init_chi'], bc=case['bc'], **kw)
    else:
        psi = MPS.from_product_state(sites, case['init'], bc=case['bc'], **kw)
    for i, d in (case.get('regauge') or []):
        if psi.chinfo.qnumber == 0 or not (0 <= i < L - 1):
            continue
        dv = np.array([d] * psi.chinfo.qnumber)
        A, B = psi._B[i], psi._B[i + 1]
        psi._B[i] = A.gauge_total_charge('vR', A.qtotal + dv)
        psi._B[i + 1] = B.gauge_total_charge('vL', B.qtotal - dv)
    if case.get('init_noncanonical'):
        # an on-site operator that is not unitary, applied without restoring the canonical form: the tensors of psi are not canonical
        # any more (MPOEnvironment.init_first_LP_last_RP has to call psi.canonical_form() before it can build the environments)
        s = psi.sites[0]
        op = s.get_op('Id') + float(case['init_noncanonical']) * s.get_op('Sigmaz' if 'Sigmaz' in s.opnames else 'Sz')
        psi.apply_local_op(0, op, unitary=True)
    return psi


def engine_class(name):
    from tenpy.algorithms import dmrg, vumps
    if name == 'thread':
        from tenpy.algorithms import dmrg_parallel
        return dmrg_parallel.DMRGThreadPlusHC
    return {'two': dmrg.TwoSiteDMRGEngine, 'single': dmrg.SingleSiteDMRGEngine,
            'vumps1': vumps.SingleSiteVUMPSEngine, 'vumps2': vumps.TwoSiteVUMPSEngine}[name]


def prepare_options(case):
    from tenpy.algorithms import dmrg, mps_common
    opts = json.loads(json.dumps(case['options']))
    info = {}
    if case.get('chi_list_fn'):
        # dmrg.chi_list(chi_max, dchi, nsweeps): the documented helper that builds the option chi_list
        cl = dmrg.chi_list(*case['chi_list_fn'])
        info['chi_list_fn'] = {str(k): int(v) for k, v in cl.items()}
        opts['chi_list'] = cl
    elif opts.get('chi_list') is not None:
        opts['chi_list'] = {int(k): v for k, v in opts['chi_list'].items()}
    if case.get('mixer_as_class') and isinstance(opts.get('mixer'), str):
        opts['mixer'] = getattr(mps_common, opts['mixer'])      # "A class is assumed to have the same interface as Mixer"
    return opts, info


def measure(case, M, psi, eng, E, out, tag=''):
    """what the property observes at: E of run(), H_MPO.expectation_value(psi), psi.norm_test(), charges, the dense state."""
    out[tag + 'E'] = float(np.real(E)) if E is not None else None
    out[tag + 'norm'] = float(psi.norm)
    out[tag + 'norm_test'] = float(np.max(psi.norm_test()))
    out[tag + 'chi'] = [int(c) for c in psi.chi]
    out[tag + 'E_mpo'] = float(np.real(M.H_MPO.expectation_value(psi)))
    out[tag + 'S_ndim'] = int(max(np.ndim(s) if not hasattr(s, 'rank') else s.rank for s in psi._S))
    if case['bc'] == 'finite':
        out[tag + 'psi'] = dense_state(case, psi)
        out[tag + 'q1'] = [int(x) for x in psi.get_total_charge(True)]
    else:
        out[tag + 'E_bond'] = float(np.mean(np.real(M.bond_energies(psi))))
    if eng is not None:
        out[tag + 'sweeps'] = int(eng.sweeps)
        out[tag + 'shelve'] = bool(eng.shelve)
        out[tag + 'mixer_end'] = eng.mixer is not None
        st = eng.sweep_stats
        out[tag + 'last_trunc_err'] = float(st['max_trunc_err'][-1]) if st.get('max_trunc_err') else 0.
        out[tag + 'max_trunc_err'] = float(max(st['max_trunc_err'])) if st.get('max_trunc_err') else 0.
        out[tag + 'E_stats_last'] = float(np.real(st['E'][-1])) if st.get('E') else None
        out[tag + 'last_E_trunc'] = float(np.real(st['max_E_trunc'][-1])) if st.get('max_E_trunc') else None


def effh_probe(M, psi, env, E_ref, thread=False):
    """The effective Hamiltonians of the engines, read through their other accessors on the returned state: for every position and
    every (class, combine, move_right)  <theta|H_eff|theta> (H_eff + adjoint for explicit_plus_hc) with theta = psi.get_theta, which is
    <psi|H|psi> for a normalised canonical finite state; to_matrix() against matvec(); adjoint().to_matrix() against the conjugate
    transpose of to_matrix().  -> {variant: [max |<theta|H_eff|theta> - E_ref|, max matvec/to_matrix error, max adjoint error,
    max non-hermiticity of the operator the engine diagonalises, number of positions]}"""
    import tenpy.linalg.np_conserved as npc
    from tenpy.algorithms.mps_common import OneSiteH, TwoSiteH, ZeroSiteH
    from tenpy.linalg.sparse import SumNpcLinearOperator
    hc = bool(M.H_MPO.explicit_plus_hc)
    L = psi.L
    fin = psi.finite
    out = {}

    def flat(th, acts_on):
        th = th.copy(deep=True)
        th.itranspose(acts_on)
        return th.combine_legs(acts_on, qconj=+1).to_ndarray()

    def one(name, H, theta):
        Hs = SumNpcLinearOperator(H, H.adjoint()) if (hc and not name.startswith('Thread')) else H
        w = Hs.matvec(theta)
        e = npc.inner(theta, w, 'labels', do_conj=True)
        Mx = H.to_matrix().to_ndarray()
        v = flat(theta, H.acts_on)
        mv = flat(H.matvec(theta), H.acts_on)
        Ad = H.adjoint().to_matrix().to_ndarray()
        tot = Mx + Ad if (hc and not name.startswith('Thread')) else Mx
        rec = out.setdefault(name, [0.0, 0.0, 0.0, 0.0, 0])
        sc = max(1.0, float(np.max(np.abs(Mx)))) if Mx.size else 1.0       # (environments of infinite chains hold extensive energies)
        rec[0] = max(rec[0], float(abs(e - E_ref))) if E_ref is not None else 0.0
        rec[1] = max(rec[1], float(np.max(np.abs(Mx @ v - mv))) / sc if v.size else 0.0)
        rec[2] = max(rec[2], float(np.max(np.abs(Ad - Mx.conj().T))) / sc if Mx.size else 0.0)
        rec[3] = max(rec[3], float(np.max(np.abs(tot - tot.conj().T))) / sc if Mx.size else 0.0)
        rec[4] += 1
    for i0 in range(L):
        for comb in (False, True):
            for mr in (True, False):
                H = OneSiteH(env, i0, comb, mr)
                one('OneSiteH(combine=%s,move_right=%s)' % (comb, mr), H, H.combine_theta(psi.get_theta(i0, n=1)))
            if i0 + 1 < L or not fin:
                H = TwoSiteH(env, i0, comb, True)
                one('TwoSiteH(combine=%s)' % comb, H, H.combine_theta(psi.get_theta(i0, n=2)))
        if i0 >= 1 or not fin:
            H = ZeroSiteH(env, i0)
            leg = psi.get_B(i0, form=None).get_leg('vL')
            S = psi.get_SL(i0)
            th0 = npc.diag(S, leg, labels=['vL', 'vR']) if not isinstance(S, npc.Array) else S
            one('ZeroSiteH', H, th0)
    if thread and hc:
        from tenpy.algorithms.dmrg_parallel import TwoSiteHThreadPlusHC
        from tenpy.tools.thread import Worker
        with Worker('probe worker', max_queue_size=1, daemon=False) as worker:
            for i0 in range(L - 1 if fin else L):
                H = TwoSiteHThreadPlusHC(env, i0, True, True, plus_hc_worker=worker)
                one('ThreadTwoSiteH(combine=True)', H, H.combine_theta(psi.get_theta(i0, n=2)))
    return out


def run_ext(case):
    """one case of the option-space strata.  Every documented way of starting / restarting an engine is reduced to a sequence of
    `stages`; after the last stage the returned (E, psi) is measured exactly as for the plain runs."""
    import tenpy.linalg.np_conserved as npc
    from tenpy.algorithms import dmrg, vumps
    from tenpy.networks.mps import MPS
    out = {}
    rec = _LogRecorder()
    caught = []
    try:
        with warnings.catch_warnings(record=True) as wlist:
            warnings.simplefilter('always')
            try:
                _run_ext(case, out)
            except Exception as e:
                out['error'] = type(e).__name__ + ': ' + str(e)[:300]
                out['tb'] = traceback.format_exc()[-1500:]
            caught = [(w.category.__name__, str(w.message)[:160]) for w in wlist]
    finally:
        rec.close()
    skip = ('unit_cell_width is a new argument', 'unused option', 'has no effect')
    out['warnings'] = sorted({c + ': ' + m for c, m in caught if not any(s in m for s in skip)})[:12]
    out['log_warnings'] = sorted(set(rec.msgs))[:12]
    return out


def _run_ext(case, out):
    import tenpy.linalg.np_conserved as npc
    from tenpy.algorithms import dmrg, vumps
    from tenpy.networks.mps import MPS
    from tenpy.networks.uniform_mps import UniformMPS
    M = make_model(case)
    L = case['L']
    psi = init_state(case, M)
    out['q0'] = [int(x) for x in psi.get_total_charge(True)] if case['bc'] == 'finite' else None
    opts, info = prepare_options(case)
    out.update(info)
    out['hc'] = bool(M.H_MPO.explicit_plus_hc)
    kwargs = {}
    # ---- states to orthogonalise against: the lowest states of the sector, found by the engine itself one after the other
    ortho = case.get('orthogonal')
    if ortho:
        lower = []
        if ortho.get('copy_only'):
            lower = [psi.copy()]
        for k in range(0 if ortho.get('copy_only') else int(ortho['n'])):
            p_k = init_state(case, M)
            o_k = {'mixer': True, 'trunc_params': {'chi_max': 64, 'svd_min': 1e-13}, 'max_sweeps': 24, 'min_sweeps': 8, 'max_E_err': 1e-13,
                   'mixer_params': {'amplitude': 1e-2, 'decay': 2.0, 'disable_after': 6}, 'max_trunc_err': 10.0, 'diag_method': 'lanczos',
                   'lanczos_params': {'N_max': 60, 'P_tol': 1e-15, 'E_tol': 1e-15, 'reortho': True}}
            with warnings.catch_warnings(record=True) as wl:
                warnings.simplefilter('always')
                e_k = dmrg.TwoSiteDMRGEngine(p_k, M, o_k, orthogonal_to=list(lower))
                E_k, p_k = e_k.run()
            lower.append(p_k)
            out.setdefault('lower', []).append({'E': float(np.real(E_k)), 'psi': dense_state(case, p_k), 'norm_test': float(np.max(p_k.norm_test())),
                                                'warned': any('energy consistent with zero' in str(w_.message) for w_ in wl)})
        kwargs['orthogonal_to'] = [{'ket': p} for p in lower] if ortho.get('as_dict') else list(lower)
    # ---- initialisation data of the environment (documented keyword arguments of MPOEnvironment.init_first_LP_last_RP)
    if case.get('init_env_data') is not None:
        kwargs['resume_data'] = {'init_env_data': dict(case['init_env_data'])}
    if case.get('resume_from'):
        # sequential simulations: a first run (possibly another model / bond dimension) and its get_resume_data(sequential_simulations=True)
        c1 = case['resume_from']
        M1 = make_model(dict(case, model=c1.get('model', case['model'])))
        psi1 = init_state(dict(case, **{k: c1[k] for k in ('init_chi', 'init') if k in c1}), M1)
        o1, _ = prepare_options({'options': c1['options']})
        e1 = engine_class(c1.get('engine', case['engine']))(psi1, M1, o1)
        E1, psi1 = e1.run()
        rd = e1.get_resume_data(sequential_simulations=True)
        out['first'] = {'E': float(np.real(E1)), 'chi': [int(c) for c in psi1.chi], 'keys': sorted(rd.keys()),
                        'age': [int(rd['init_env_data'].get('age_LP', -1)), int(rd['init_env_data'].get('age_RP', -1))]}
        rd = {'init_env_data': rd['init_env_data']}
        kwargs['resume_data'] = rd
        if c1.get('keep_psi', True):
            psi = psi1                # "we assume that we still have the same psi"
    if case.get('psi_uniform'):
        psi = UniformMPS.from_MPS(psi)
    if case.get('via_run'):
        # the documented function interface dmrg.run(psi, model, options) with the option active_sites
        info = dmrg.run(psi, M, opts, **kwargs)
        out['info_keys'] = sorted(info.keys())
        out['shelve_info'] = bool(info['shelve'])
        out['n_bond_stats'] = int(len(info['bond_statistics']['i0']))
        ss = info['sweep_statistics']
        measure(case, M, psi, None, info['E'], out)
        out['sweeps'] = int(ss['sweep'][-1]) if ss['sweep'] else 0
        out['last_trunc_err'] = float(ss['max_trunc_err'][-1]) if ss['max_trunc_err'] else 0.
        out['max_trunc_err'] = float(max(ss['max_trunc_err'])) if ss['max_trunc_err'] else 0.
        out['mixer_end'] = None
        return
    cls = engine_class(case['engine'])
    eng = cls(psi, M, opts, **kwargs)
    out['n'] = int(eng.n_optimize)
    out['env_age0'] = [eng.env.get_LP_age(0), eng.env.get_RP_age(L - 1)]
    stp = None
    if not case.get('no_stop_trace'):
        stp = StopTracer(eng)
    min_sweeps_derived = eng.options.silent_get('min_sweeps', None)
    if case.get('shelve_after') is not None:
        # "max_hours: if the DMRG took longer (measured in wall-clock time), 'shelve' the simulation": the wall clock is advanced by a
        # year (time0 moved back) after the given number of iterations
        k_sh = int(case['shelve_after'])
        o_it = eng.run_iteration
        n_it = [0]

        def run_iteration():
            r = o_it()
            n_it[0] += 1
            if n_it[0] == k_sh:
                eng.time0 -= 3.2e7
            return r
        eng.run_iteration = run_iteration
    n_runs = 1 + int(case.get('rerun', 0))
    E = None
    canon = []
    if case['bc'] == 'infinite' and case['engine'] in ('two', 'single'):
        # DMRGEngine.post_run_cleanup -> _canonicalize may call psi.canonical_form(): <H>/site and the norm error of the state the sweeps
        # ended with (as in run_one; known finding F13.6)
        o_canon = psi.canonical_form

        def canonical_form(**kw):
            rec_ = {'E_before': None, 'norm_err_before': float(np.linalg.norm(psi.norm_test()))}
            try:
                rec_['E_before'] = float(np.real(M.H_MPO.expectation_value(psi)))
            except Exception as e:
                rec_['E_before_error'] = type(e).__name__ + ': ' + str(e)[:200]
            canon.append(rec_)
            return o_canon(**kw)
        psi.canonical_form = canonical_form
    for k in range(n_runs):
        if k > 0:
            measure(case, M, eng.psi if not case['engine'].startswith('vumps') else psi_ret, eng, E, out, tag='run%d_' % (k - 1))
            if canon:
                out['run%d_canon' % (k - 1)] = canon[-1]
                del canon[:]
            if case.get('reinit_env'):
                # "useful to (re-)start a Sweep with a slightly different model or different (engine) parameters"
                M2 = make_model(dict(case, model=case['reinit_env'])) if isinstance(case['reinit_env'], dict) else M
                eng.init_env(M2)
                M = M2
        E, psi_ret = eng.run()
    measure(case, M, psi_ret, eng, E, out)
    if canon:
        out['canon'] = canon[-1]
    if not case['engine'].startswith('vumps') and eng.mixer is None and out['S_ndim'] == 1:
        from tenpy.networks.mpo import MPOEnvironment
        if case['bc'] == 'finite':
            out['effh'] = effh_probe(M, psi_ret, MPOEnvironment(psi_ret, M.H_MPO, psi_ret), out['E_mpo'], thread=case['engine'] == 'thread')
        else:
            # (a fresh environment started from trivial LP / RP: the consistency of the accessors does not need converged environments,
            # and post_run_cleanup may have changed the bond dimensions of psi after the last update of eng.env)
            out['effh'] = effh_probe(M, psi_ret, MPOEnvironment(psi_ret, M.H_MPO, psi_ret, start_env_sites=0), None)
    if stp is not None:
        out['stop'] = {'convs': stp.convs, 'sweeps': stp.sweeps, 'min_sweeps': None if min_sweeps_derived is None else int(min_sweeps_derived),
                       'mixer_end': (eng.mixer is not None) if stp.mixer_at_stop is None else stp.mixer_at_stop}
        chi_end = eng.trunc_params.silent_get('chi_max', None)
        out['chi_max_end'] = None if chi_end is None else int(chi_end)
    out['n_ortho'] = len(eng.ortho_to_envs)
    if eng.ortho_to_envs:
        # overlaps with the states that were to be projected out (MPS.overlap, independent of the environments of the engine)
        out['ortho_overlaps'] = [float(abs(psi_ret.overlap(e.ket))) for e in eng.ortho_to_envs]
    if case['engine'].startswith('vumps'):
        out['returned_type'] = type(psi_ret).__name__
        us = eng.update_stats
        out['split_err_last'] = float(max(us['split_err_L'][-L:] + us['split_err_R'][-L:])) if us['split_err_L'] else None
    else:
        us = getattr(eng, 'update_stats', None) or {}
        out['N_lanczos_last'] = [int(x) for x in (us.get('N_lanczos') or [])[-4:]]
        lp = eng.lanczos_params
        out['lanczos_tols_end'] = {k: (float(lp.silent_get(k, -1.0)) if lp.silent_get(k, None) is not None else None) for k in ('P_tol', 'E_tol')}



def run_dmrg(case):
    if case.get('ext'):
        return run_ext(case)
    out = run_one(case)
    if case.get('compare_without_hc') and 'error' not in out:
        # the same run on the same Hamiltonian built without explicit_plus_hc
        c2 = json.loads(json.dumps(case))
        c2['model']['explicit_plus_hc'] = False
        c2.pop('compare_without_hc')
        ref = run_one(c2)
        out['ref'] = {k: ref.get(k) for k in ('E', 'E_mpo', 'sweeps', 'chi', 'norm_test', 'error', 'tb')}
    return out


def run_one(case):
    import tenpy.linalg.np_conserved as npc
    from tenpy.algorithms import dmrg, vumps
    from tenpy.networks.mps import MPS
    M = make_model(case)
    L = case['L']
    sites = M.lat.mps_sites()
    kw = {'unit_cell_width': L} if case['bc'] == 'infinite' else {}
    if case.get('init_chi'):
        np.random.seed(7)
        psi = MPS.from_desired_bond_dimension(sites, case['init_chi'], bc=case['bc'], **kw)
    else:
        psi = MPS.from_product_state(sites, case['init'], bc=case['bc'], **kw)
    for i, d in (case.get('regauge') or []):
        # move charge d from site tensor i+1 to site tensor i by regauging the bond leg: the state is unchanged,
        # the tensors' qtotal are not zero any more (charge bookkeeping of update_local, Model/SweepCharge.v)
        if psi.chinfo.qnumber == 0 or not (0 <= i < L - 1):
            continue
        dv = np.array([d] * psi.chinfo.qnumber)
        A, B = psi._B[i], psi._B[i + 1]
        psi._B[i] = A.gauge_total_charge('vR', A.qtotal + dv)
        psi._B[i + 1] = B.gauge_total_charge('vL', B.qtotal - dv)
    if case.get('regauge'):
        psi.test_sanity()
    qt0 = [[int(x) for x in B.qtotal] for B in psi._B]
    q0 = [int(x) for x in psi.get_total_charge(True)] if case['bc'] == 'finite' else None
    opts = json.loads(json.dumps(case['options']))
    if 'chi_list' in opts and opts['chi_list'] is not None:
        opts['chi_list'] = {int(k): v for k, v in opts['chi_list'].items()}
    cls = {'two': dmrg.TwoSiteDMRGEngine, 'single': dmrg.SingleSiteDMRGEngine,
           'vumps1': vumps.SingleSiteVUMPSEngine, 'vumps2': vumps.TwoSiteVUMPSEngine}[case['engine']]
    out = {}
    if case.get('schedule_only'):
        eng = cls(psi, M, opts)
        out['schedule'] = [[int(i0), bool(mr), bool(u[0]), bool(u[1])] for i0, mr, u in eng.get_sweep_schedule()]
        out['n'] = int(eng.n_optimize)
        return out
    try:
        eng = cls(psi, M, opts)
        stp = StopTracer(eng)
        min_sweeps_derived = eng.options.silent_get('min_sweeps', None)
        tr = None
        if case['bc'] == 'finite' and case.get('trace', True):
            tr = EnvTracer(eng)
        itr = None
        if case['bc'] == 'infinite' and case.get('trace_inf'):
            # constructed with start_env = 0: the environment is fresh (Model/SweepInf.v init_i); the initial environment
            # sweeps of Sweep.init_env are run here, after the instrumentation is in place
            env0 = eng.env
            itr = InfEnvTracer(eng)
            eng.environment_sweeps(int(case.get('pre_env_sweeps', 0)))
        canon = []
        if case['bc'] == 'infinite' and case['engine'] in ('two', 'single'):
            # DMRGEngine.post_run_cleanup -> _canonicalize calls psi.canonical_form() when the final state is not canonical up to
            # norm_tol_final: record <H>/site and the norm error of the state the sweeps ended with
            o_canon = psi.canonical_form

            def canonical_form(**kw):
                rec = {'E_before': None, 'norm_err_before': float(np.linalg.norm(psi.norm_test()))}
                try:
                    rec['E_before'] = float(np.real(M.H_MPO.expectation_value(psi)))
                except Exception as e:
                    rec['E_before_error'] = type(e).__name__ + ': ' + str(e)[:200]
                canon.append(rec)
                return o_canon(**kw)
            psi.canonical_form = canonical_form
        E, psi = eng.run()
        if canon:
            out['canon'] = canon[-1]
        if itr is not None and eng.env is not env0:
            itr.problems.append('the engine replaced its environment during the run')
    except Exception as e:
        return {'error': type(e).__name__ + ': ' + str(e)[:300], 'tb': traceback.format_exc()[-1500:]}
    out['E'] = float(np.real(E))
    out['sweeps'] = int(eng.sweeps)
    out['hc'] = bool(M.H_MPO.explicit_plus_hc)
    out['stop'] = {'convs': stp.convs, 'sweeps': stp.sweeps, 'min_sweeps': None if min_sweeps_derived is None else int(min_sweeps_derived),
                   'mixer_end': (eng.mixer is not None) if stp.mixer_at_stop is None else stp.mixer_at_stop}
    chi_end = eng.trunc_params.silent_get('chi_max', None)
    out['chi_max_end'] = None if chi_end is None else int(chi_end)
    out['n'] = int(eng.n_optimize)
    out['norm'] = float(psi.norm)
    out['norm_test'] = float(np.max(psi.norm_test()))
    out['chi'] = [int(c) for c in psi.chi]
    st = eng.sweep_stats
    out['max_trunc_err'] = float(max(st['max_trunc_err'])) if st.get('max_trunc_err') else 0.
    out['last_trunc_err'] = float(st['max_trunc_err'][-1]) if st.get('max_trunc_err') else 0.
    out['max_E_trunc'] = float(np.max(np.abs([x for x in st.get('max_E_trunc', [0.]) if x is not None] or [0.])))
    Eexp = M.H_MPO.expectation_value(psi)
    out['E_mpo'] = float(np.real(Eexp))
    if case['bc'] == 'finite':
        # eigensolver statistics of the local updates: Krylov dimension of the last updates, energy change / discarded weight of the last update
        us = getattr(eng, 'update_stats', None) or {}
        out['N_lanczos_last'] = [int(x) for x in (us.get('N_lanczos') or [])[-4:]]
        et = (us.get('E_trunc') or [None])[-1]
        out['E_trunc_last'] = None if et is None else float(np.real(et))
        er = (us.get('err') or [None])[-1]
        out['err_last'] = None if er is None else float(er.eps)
        th = psi.get_theta(0, L).to_ndarray()
        canon = {'tfi': ['up', 'down'], 'xxz': ['up', 'down'], 'longrange': ['up', 'down'], 'fermion': ['empty', 'full']}[case['model']['name']]
        for k, site in enumerate(psi.sites):
            th = np.take(th, [site.state_labels[nm] for nm in canon], axis=k + 1)
        th = th.reshape(-1) * psi.norm
        out['psi'] = [[float(x.real), float(x.imag)] for x in th]
        out['q0'] = q0
        out['q1'] = [int(x) for x in psi.get_total_charge(True)]
        ov = psi.overlap(psi)
        out['self_overlap'] = [float(np.real(ov)), float(np.imag(ov))]
        if eng.mixer is None and all(np.ndim(s_) == 1 for s_ in psi._S) and not case.get('no_effh'):
            from tenpy.networks.mpo import MPOEnvironment
            out['effh'] = effh_probe(M, psi, MPOEnvironment(psi, M.H_MPO, psi), out['E_mpo'])
    else:
        out['E_bond'] = float(np.mean(np.real(M.bond_energies(psi))))
        out['corr_len_ok'] = True
    if itr is not None:
        out['inf_init'] = itr.init
        out['inf_steps'] = itr.steps
        out['trace_problems'] = itr.problems[:5]
    if tr is not None:
        out['qt0'] = qt0
        out['mods'] = [int(m) for m in psi.chinfo.mod]
        out['steps'] = tr.steps
        out['trace_problems'] = tr.problems[:5]
    return out


def main():
    payload = json.load(open(sys.argv[1]))
    cover = None
    if payload.get('cover'):
        # executed lines of the anchored tenpy files (coverage table of harness/c13_cover.py)
        import c13_cover_impl as cover
        if not cover.install(payload['cover']):
            cover = None
    res = []
    for c in payload['cases']:
        try:
            res.append(run_dmrg(c))
        except Exception:
            res.append({'runner_error': traceback.format_exc()[-1500:]})
    if payload.get('cover'):
        import tenpy
        root = os.path.dirname(os.path.dirname(os.path.abspath(tenpy.__file__)))
        res = {'results': res, 'cover': cover.report(root) if cover is not None else None}
    json.dump(res, open(sys.argv[2], 'w'), default=lambda o: o.item() if hasattr(o, 'item') else str(o))


if __name__ == '__main__':
    main()
