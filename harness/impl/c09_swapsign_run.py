"""Runner part of the correspondence stream `swap-sign` of check C09 (imported by c07_exec.main for kind 'swapsign').

Performs MPS.swap_sites(i, swap_op='auto') on product states of MIXED chains and records, by wrapping
np_conserved.tensordot from the outside, the swap operator swap_sites actually contracts with theta (None when it
only relabels the legs), together with the JW_exponent vectors of get_site(i) and get_site(i+1).
"""
import os
import sys
import traceback

import numpy as np

sys.path.insert(0, os.path.join(os.environ.get('VERIF_DIR', '/verif'), 'harness'))
import mps_gen as G  # noqa: E402

_syn_cache = {}


def make_site(kind):
    """G.KINDS name, or 'syn:<bits>': a site without charges whose JW operator is diag((-1)^bit)."""
    if kind.startswith('syn:'):
        if kind not in _syn_cache:
            import tenpy.linalg.np_conserved as npc
            from tenpy.networks.site import Site
            bits = [int(c) for c in kind[4:]]
            leg = npc.LegCharge.from_trivial(len(bits))
            _syn_cache[kind] = Site(leg, ['s%d' % k for k in range(len(bits))], JW=np.diag([(-1.) ** b for b in bits]))
        return _syn_cache[kind]
    return G.make_site(kind)


def exact_ints(x):
    x = np.asarray(x)
    if np.iscomplexobj(x):
        if np.any(x.imag != 0):
            return None
        x = x.real
    r = np.rint(x)
    if np.any(r != x):
        return None
    return [int(v) for v in r.reshape(-1)]


def one_case(c):
    import tenpy.networks.mps as mpsmod
    from tenpy.networks.mps import MPS
    npc = mpsmod.npc
    sites = [make_site(k) for k in c['kinds']]
    L = len(sites)
    psi = MPS.from_product_state(sites, c['p'], bc=c['bc'], permute=False, unit_cell_width=L)
    i = c['i']
    siteL, siteR = psi.get_site(i), psi.get_site(i + 1)
    out = {'dL': int(siteL.dim), 'dR': int(siteR.dim),
           'jwL': exact_ints(siteL.JW_exponent), 'jwR': exact_ints(siteR.JW_exponent)}
    captured = []
    orig = npc.tensordot

    def wrapped(a, b, axes=2):
        if isinstance(a, npc.Array) and a.rank == 4:
            labs = list(a.get_leg_labels())
            if 'vL' not in labs and 'vR' not in labs and any(str(x).endswith('*') for x in labs):
                captured.append(a)
        return orig(a, b, axes)
    npc.tensordot = wrapped
    try:
        psi.swap_sites(i, c.get('swap_op', 'auto'))
    finally:
        npc.tensordot = orig
    after = [psi.get_site(i), psi.get_site(i + 1)]
    out['sites_swapped'] = bool(after[0] is siteR and after[1] is siteL)
    if not captured:
        out['op'] = None
    else:
        a = captured[0]
        out['same_op_both'] = all(x is a for x in captured) and len(captured) == 2
        out['labels'] = [str(x) for x in a.get_leg_labels()]
        out['shape_raw'] = [int(x) for x in a.shape]
        t = a.transpose(['p0', 'p1', 'p0*', 'p1*']).to_ndarray()
        out['op'] = {'shape': [int(x) for x in t.shape], 'flat': exact_ints(t)}
        # the legs the operator claims: out-leg 'p0' must be the leg of the former right site, 'p1' of the left one
        try:
            a.get_leg('p0').test_equal(siteR.leg)
            a.get_leg('p1').test_equal(siteL.leg)
            a.get_leg('p0*').test_contractible(siteL.leg)
            a.get_leg('p1*').test_contractible(siteR.leg)
            out['legs_ok'] = True
        except ValueError as e:
            out['legs_ok'] = False
            out['legs_msg'] = str(e)[:200]
    return out


def run(payload):
    res = []
    for c in payload['cases']:
        try:
            res.append(one_case(c))
        except Exception as e:      # noqa: BLE001
            res.append({'error': '%s: %s' % (type(e).__name__, str(e)[:300]), 'tb': traceback.format_exc()[-800:]})
    return res
